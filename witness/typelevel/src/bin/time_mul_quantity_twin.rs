//@ expect: pass
//@ property: C18  twin: Time * Quantity is implemented
use rrtk::*;
fn main() {
    let x = Time(2_000_000_000);
    let y = Quantity::new(3.0, MILLIMETER_PER_SECOND);
    let _z = x * y;
}
