//@ expect: fail E0423
//@ property: C16  the ReferenceUnsafe payload of Reference is private: safe code cannot wrap an arbitrary ReferenceUnsafe
use rrtk::reference::ReferenceUnsafe;
use rrtk::Reference;
fn main() {
    let mut x = 5i32;
    let r: Reference<i32> = Reference(ReferenceUnsafe::Ptr(&mut x as *mut i32));
    let _ = r;
}
