//@ expect: fail E0133
//@ property: C16  ReferenceUnsafe::borrow is an unsafe fn: safe code cannot dereference an arbitrary ReferenceUnsafe::Ptr
use rrtk::reference::ReferenceUnsafe;
fn main() {
    let mut x = 5i32;
    let r = ReferenceUnsafe::Ptr(&mut x as *mut i32);
    let b = r.borrow();
    let _ = *b;
}
