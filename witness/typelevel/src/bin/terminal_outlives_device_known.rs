//@ expect: pass
//@ known-finding: C16 D3  a safe program keeps a terminal reference after its device is gone; this SHOULD fail to compile (E0597) but compiles
use rrtk::devices::Invert;
use rrtk::*;
use core::cell::RefCell;
fn dangling<'a>() -> &'a RefCell<Terminal<'a, ()>> {
    let dev = Invert::<()>::new();
    dev.get_terminal_1()
}
fn main() {
    let _t = dangling();
}
