//@ expect: fail E0277
//@ property: C18  blank cell: Time + DimensionlessInteger is not implemented
use rrtk::*;
fn main() {
    let _z = Time(1) + DimensionlessInteger(2);
}
