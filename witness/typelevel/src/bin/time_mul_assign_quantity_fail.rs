//@ expect: fail E0308
//@ property: C18  blank cell of the documentation table: Time *= Quantity is not implemented
use rrtk::*;
fn main() {
    let mut x = Time(2_000_000_000);
    let y = Quantity::new(3.0, MILLIMETER_PER_SECOND);
    x *= y;
}
