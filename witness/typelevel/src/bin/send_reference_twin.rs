//@ expect: pass
//@ property: C17  twin of send_reference_fail: identical except that nothing requires Send
use rrtk::*;
fn needs_nothing<T>(_: T) {}
fn main() {
    let r = rc_ref_cell_reference(5i32);
    needs_nothing(r);
}
