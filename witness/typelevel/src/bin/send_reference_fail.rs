//@ expect: fail E0277
//@ property: C17  Reference<T> must not be Send: sharing across threads has to go through Arc + lock, not through a copied Reference
use rrtk::*;
fn needs_send<T: Send>(_: T) {}
fn main() {
    let r = rc_ref_cell_reference(5i32);
    needs_send(r);
}
