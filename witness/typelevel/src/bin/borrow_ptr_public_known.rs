//@ expect: pass
//@ known-finding: C16 D5  forbid(unsafe_code) program builds a Borrow over a dead local and derefs it; this SHOULD not type-check but does
#![forbid(unsafe_code)]
use core::marker::PhantomData;
use rrtk::reference::Borrow;
fn dangle() -> Borrow<'static, String> {
    let s = String::from("gone");
    Borrow::Ptr(&s as *const String, PhantomData)
}
fn main() {
    let b = dangle();
    let _n = b.len();
}
