//@ expect: pass
//@ property: C16  twin of from_ptr_unsafe_fail with the call inside an unsafe block
use rrtk::*;
fn main() {
    let mut x = 5i32;
    let r: Reference<i32> = unsafe { Reference::from_ptr(&mut x as *mut i32) };
    let _ = r;
}
