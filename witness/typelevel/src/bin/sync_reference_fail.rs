//@ expect: fail E0277
//@ property: C17  &Reference<T> must not cross threads either (Reference is not Sync)
use rrtk::*;
fn needs_sync<T: Sync>(_: &T) {}
fn main() {
    let r = arc_mutex_reference(5i32);
    needs_sync(&r);
}
