//@ expect: fail E0133
//@ property: C16  building a Reference from a raw pointer requires `unsafe`
use rrtk::*;
fn main() {
    let mut x = 5i32;
    let r: Reference<i32> = Reference::from_ptr(&mut x as *mut i32);
    let _ = r;
}
