//! Expansion witness for `to_dyn!`: a downstream crate whose MIR the driver exports, so that the analysis sees what the
//! macro expands to in a CALLING crate (built once with none of its own features and once with `alloc,std`).
//! Deliberately imports NOTHING from rrtk: every name the expansion needs must come through `$crate`.
#![allow(unused)]
pub trait Tr {
    fn f(&self) -> i32;
}
pub struct Foo(pub i32);
impl Tr for Foo {
    fn f(&self) -> i32 {
        self.0
    }
}
pub fn conv(r: rrtk::Reference<Foo>) -> rrtk::Reference<dyn Tr> {
    rrtk::to_dyn!(Tr, r)
}
