//! Expansion witness for `to_dyn!`: a downstream crate whose MIR the driver exports, so that the analysis sees what the
//! macro expands to in a CALLING crate (built once with none of its own features and once with `alloc,std`).
//! Deliberately imports NOTHING from rrtk: every name the expansion needs must come through `$crate`.
#![allow(unused)]
pub trait Base {
    fn g(&self) -> i32 {
        0
    }
}
pub trait Tr: Base {
    fn f(&self) -> i32;
}
pub struct Foo(pub i32);
impl Base for Foo {}
impl Tr for Foo {
    fn f(&self) -> i32 {
        self.0
    }
}
pub fn conv(r: rrtk::Reference<Foo>) -> rrtk::Reference<dyn Tr> {
    rrtk::to_dyn!(Tr, r)
}
/// A second conversion step: the source is already a trait object (`Reference<dyn Tr>` to its supertrait), so everything the
/// macro calls on it must exist for unsized targets too.
pub fn conv_again(r: rrtk::Reference<dyn Tr>) -> rrtk::Reference<dyn Base> {
    rrtk::to_dyn!(Base, r)
}
/// A target type that is not `'static` (it borrows): the conversion must not force `dyn Tr + 'static`.
pub struct Holder<'a>(pub &'a i32);
impl Base for Holder<'_> {}
impl Tr for Holder<'_> {
    fn f(&self) -> i32 {
        *self.0
    }
}
pub fn conv_borrowed<'a>(r: rrtk::Reference<Holder<'a>>) -> rrtk::Reference<dyn Tr + 'a> {
    rrtk::to_dyn!(Tr, r)
}
/// `static_reference!` as a caller sees it (the macro names `Reference` unqualified, so this module - and only this
/// module - imports it).  The analysis follows the pointer handed to `Reference::from_ptr` back to its origin.
pub mod stat {
    use rrtk::Reference;
    pub fn make() -> Reference<u8> {
        rrtk::static_reference!(u8, 5)
    }
}
/// The argument of `to_dyn!` is an expression with an effect (a call): the expansion must evaluate it exactly once - the result
/// has to alias the very Reference the caller handed over, not the value of a second evaluation.
pub fn produce() -> rrtk::Reference<Foo> {
    unimplemented!()
}
pub fn conv_expr() -> rrtk::Reference<dyn Tr> {
    rrtk::to_dyn!(Tr, produce())
}
/// The lock-carrying static-making macros (they exist only when rrtk has `std`; built with the witness feature `lockstatics`).
#[cfg(feature = "lockstatics")]
pub mod stat_locks {
    use rrtk::Reference;
    pub fn make_rw() -> Reference<u8> {
        rrtk::static_rw_lock_reference!(u8, 5)
    }
    pub fn make_mutex() -> Reference<u8> {
        rrtk::static_mutex_reference!(u8, 5)
    }
}
