//! Expansion witness for `to_dyn!`: a downstream crate whose MIR the driver exports, so that the analysis sees what the
//! macro expands to in a CALLING crate (built once with none of its own features and once with `alloc,std`).
#![allow(unused)]
use rrtk::*;
pub trait Tr {
    fn f(&self) -> i32;
}
pub struct Foo(pub i32);
impl Tr for Foo {
    fn f(&self) -> i32 {
        self.0
    }
}
pub fn conv(r: Reference<Foo>) -> Reference<dyn Tr> {
    to_dyn!(Tr, r)
}
