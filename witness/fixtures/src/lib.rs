//! Deliberately WRONG code: tiny positive examples for rules whose expected count on rrtk is zero.
//! Every run of the corresponding check analyses this crate with the same driver and requires the rule to fire here.
#![allow(dead_code, unused, clippy::all)]
use core::cell::RefCell;
use core::marker::PhantomData;
use core::ops::Deref;

pub struct Terminal<'a> {
    other: Option<&'a RefCell<Terminal<'a>>>,
    v: i32,
}
/// C09.R1: a writer of the partner link that is not the constructor / connect / disconnect.
pub fn rogue_link<'a>(t: &mut Terminal<'a>, o: &'a RefCell<Terminal<'a>>) {
    t.other = Some(o);
}

/// C16.L (store form): the re-borrowed argument is stored, so it outlives the caller's borrow.
pub fn link_laundered<'a>(t: &mut Terminal<'a>, o: &RefCell<Terminal<'a>>) {
    let o = unsafe { &*(o as *const RefCell<Terminal<'a>>) };
    t.other = Some(o);
}

pub struct SettableData<S> {
    pub following: Option<S>,
    pub last_request: Option<S>,
}
/// C15.W: a writer of SettableData that is not set / follow / stop_following / new.
pub fn rogue_request<S>(d: &mut SettableData<S>, v: S) {
    d.last_request = Some(v);
}

pub struct Dev<'a> {
    term: RefCell<Terminal<'a>>,
}
impl<'a> Dev<'a> {
    /// C16.L: lifetime laundering through a raw pointer.
    pub fn get_terminal(&self) -> &'a RefCell<Terminal<'a>> {
        unsafe { &*(&self.term as *const RefCell<Terminal<'a>>) }
    }
}

pub enum Borrow<'a, T> {
    Ptr(*const T, PhantomData<&'a ()>),
}
impl<T> Deref for Borrow<'_, T> {
    type Target = T;
    /// C16.P: safe deref of a raw pointer stored in a publicly constructible variant.
    fn deref(&self) -> &T {
        match self {
            Self::Ptr(p, _) => unsafe { &**p },
        }
    }
}

pub struct ReferenceUnsafe<T>(pub *mut T);
pub struct Reference<T>(ReferenceUnsafe<T>);
impl<T> Reference<T> {
    /// C16.S: safe constructor of a Reference from a raw pointer.
    pub fn from_raw_safe(p: *mut T) -> Self {
        Reference(ReferenceUnsafe(p))
    }
    /// C16.S: safe mutable access to the payload of an existing Reference.
    pub fn payload_mut(&mut self) -> &mut ReferenceUnsafe<T> {
        &mut self.0
    }
}

/// C16.U: an unsafe operation in a safe fn with no provenance justification.
pub fn unjustified(p: *const i32) -> i32 {
    unsafe { *p }
}

/// C17.M (cfg(feature) in an exported macro body) and C16.M (caller expression inside the macro's unsafe block).
#[macro_export]
macro_rules! bad_macro {
    ($e:expr) => {{
        #[cfg(feature = "alloc")]
        let _x = 1;
        unsafe { $e }
    }};
}

pub struct Unit;
impl Unit {
    pub fn eq_assume_false(&self, _rhs: &Unit) -> bool {
        false
    }
}
/// C19.O: a caller of the assume-false family.
pub fn uses_assume_false(a: &Unit, b: &Unit) -> bool {
    a.eq_assume_false(b)
}

/// C19.I: configuration-dependent code inside an unaudited item.
pub fn cfg_in_body() -> i32 {
    #[cfg(feature = "alloc")]
    return 1;
    #[allow(unreachable_code)]
    0
}
