//@ expect: pass
//@ property: C16 twin of reference_invariant_fail: the same function with equal lifetimes compiles (the witness fails for the variance, not for a broken path)
fn same<'a>(reference: rrtk::Reference<&'a str>) -> rrtk::Reference<&'a str> {
    reference
}
fn main() {
    let _ = same;
}
