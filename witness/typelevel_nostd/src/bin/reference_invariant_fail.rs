//@ expect: fail
//@ property: C16 Reference<T> must be invariant in T in every build (it hands out &mut T): a covariant Reference<&'static str> could be shortened, written through with a short-lived &str and read back as &'static str - a dangling reference from safe code
fn shorten<'a>(reference: rrtk::Reference<&'static str>) -> rrtk::Reference<&'a str> {
    reference
}
fn main() {
    let _ = shorten;
}
