//! mirfacts: rustc_private fact extractor. Used as RUSTC_WORKSPACE_WRAPPER under
//! `cargo +nightly check`; writes one JSON fact file per analysed crate into $MIRFACTS_OUT.
#![feature(rustc_private)]
#![allow(clippy::all)]

extern crate rustc_abi;
extern crate rustc_ast;
extern crate rustc_ast_pretty;
extern crate rustc_data_structures;
extern crate rustc_driver;
extern crate rustc_hir;
extern crate rustc_index;
extern crate rustc_interface;
extern crate rustc_middle;
extern crate rustc_parse;
extern crate rustc_session;
extern crate rustc_span;

mod json;
use json::J;

use rustc_driver::Compilation;
use rustc_hir as hir;
use rustc_hir::def::DefKind;
use rustc_hir::def_id::{DefId, LocalDefId};
use rustc_middle::mir;
use rustc_middle::ty::{self, GenericArgKind, GenericArgsRef, Ty, TyCtxt};
use rustc_span::Span;
use std::collections::{BTreeMap, BTreeSet};

struct Cb;

impl rustc_driver::Callbacks for Cb {
    fn after_analysis<'tcx>(
        &mut self,
        _compiler: &rustc_interface::interface::Compiler,
        tcx: TyCtxt<'tcx>,
    ) -> Compilation {
        let out_dir = match std::env::var("MIRFACTS_OUT") {
            Ok(d) => d,
            Err(_) => return Compilation::Continue,
        };
        let krate = tcx.crate_name(rustc_hir::def_id::LOCAL_CRATE).to_string();
        if let Ok(only) = std::env::var("MIRFACTS_CRATES") {
            if !only.split(',').any(|c| c == krate) {
                return Compilation::Continue;
            }
        }
        let mut cx = Cx { tcx, adts: BTreeMap::new(), adt_queue: Vec::new() };
        let facts = cx.dump_crate(&krate);
        let mut s = String::new();
        facts.write(&mut s);
        let path = format!("{}/{}-{}.json", out_dir, krate, std::process::id());
        std::fs::write(&path, s).expect("write facts");
        Compilation::Continue
    }
}

fn main() {
    let mut args: Vec<String> = std::env::args().collect();
    // Invoked as: <wrapper> <rustc> <args...>
    if args.len() >= 2 && (args[1].ends_with("rustc") || args[1].contains("/rustc")) {
        args.remove(0);
    }
    rustc_driver::install_ice_hook("https://example.invalid", |_| ());
    let mut cb = Cb;
    rustc_driver::run_compiler(&args, &mut cb);
}

struct Cx<'tcx> {
    tcx: TyCtxt<'tcx>,
    adts: BTreeMap<String, J>,
    adt_queue: Vec<DefId>,
}

fn region_json<'tcx>(r: ty::Region<'tcx>) -> J {
    match r.kind() {
        ty::ReEarlyParam(ep) => J::obj().fs("k", "early").fs("name", ep.name.to_string()).fi("idx", ep.index as i128).done(),
        ty::ReBound(_, br) => J::obj().fs("k", "bound").fs("name", format!("{:?}", br.kind)).done(),
        ty::ReLateParam(lp) => J::obj().fs("k", "late").fs("name", format!("{:?}", lp.kind)).done(),
        ty::ReStatic => J::obj().fs("k", "static").done(),
        ty::ReErased => J::obj().fs("k", "erased").done(),
        _ => J::obj().fs("k", "other").fs("name", format!("{:?}", r)).done(),
    }
}

impl<'tcx> Cx<'tcx> {
    fn path(&self, did: DefId) -> String {
        let tcx = self.tcx;
        let krate = tcx.crate_name(did.krate).to_string();
        format!("{}{}", krate, tcx.def_path(did).to_string_no_crate_verbose())
    }
    fn pretty(&self, did: DefId) -> String {
        ty::print::with_no_trimmed_paths!(self.tcx.def_path_str(did))
    }

    fn span_json(&self, sp: Span) -> J {
        let sm = self.tcx.sess.source_map();
        let lo = sm.lookup_char_pos(sp.lo());
        let file = match &lo.file.name {
            rustc_span::FileName::Real(r) => match r.local_path() {
                Some(p) => p.to_string_lossy().to_string(),
                None => format!("{:?}", r),
            },
            other => format!("{:?}", other),
        };
        let exp = if sp.from_expansion() {
            let ed = sp.ctxt().outer_expn_data();
            match ed.kind {
                rustc_span::ExpnKind::Macro(_, name) => J::s(format!("macro:{}", name)),
                rustc_span::ExpnKind::Desugaring(k) => J::s(format!("desugar:{:?}", k)),
                rustc_span::ExpnKind::AstPass(k) => J::s(format!("astpass:{:?}", k)),
                rustc_span::ExpnKind::Root => J::s("root"),
            }
        } else {
            J::Null
        };
        // callsite in user code for expanded spans
        let cs = sp.source_callsite();
        let cslo = sm.lookup_char_pos(cs.lo());
        J::obj()
            .fs("file", file)
            .fi("line", lo.line as i128)
            .fi("col", lo.col.0 as i128 + 1)
            .f("exp", exp)
            .fi("cline", cslo.line as i128)
            .fi("hline", sm.lookup_char_pos(sp.hi()).line as i128)
            .fi("hcol", sm.lookup_char_pos(sp.hi()).col.0 as i128 + 1)
            .done()
    }

    fn const_json(&mut self, c: ty::Const<'tcx>) -> J {
        match c.kind() {
            ty::ConstKind::Param(p) => J::obj().fs("k", "param").fs("name", p.name.to_string()).fi("idx", p.index as i128).done(),
            ty::ConstKind::Value(v) => {
                if let Some(si) = v.try_to_leaf() {
                    let size = si.size();
                    J::obj().fs("k", "val").fi("bits", si.to_bits(size) as i128).done()
                } else {
                    J::obj().fs("k", "valtree").fs("s", format!("{:?}", v)).done()
                }
            }
            _ => J::obj().fs("k", "other").fs("s", format!("{:?}", c)).done(),
        }
    }

    fn args_json(&mut self, args: GenericArgsRef<'tcx>) -> J {
        let mut v = Vec::new();
        for a in args.iter() {
            v.push(match a.kind() {
                GenericArgKind::Type(t) => self.ty_json(t),
                GenericArgKind::Lifetime(r) => J::obj().fs("k", "region").f("r", region_json(r)).done(),
                GenericArgKind::Const(c) => J::obj().fs("k", "const").f("c", self.const_json(c)).done(),
            });
        }
        J::Arr(v)
    }

    fn note_adt(&mut self, did: DefId) {
        let p = self.path(did);
        if !self.adts.contains_key(&p) {
            self.adts.insert(p, J::Null);
            self.adt_queue.push(did);
        }
    }

    fn ty_json(&mut self, t: Ty<'tcx>) -> J {
        match t.kind() {
            ty::Bool | ty::Char | ty::Int(_) | ty::Uint(_) | ty::Float(_) | ty::Str | ty::Never => {
                J::obj().fs("k", "prim").fs("name", format!("{}", t)).done()
            }
            ty::Adt(def, args) => {
                self.note_adt(def.did());
                let p = self.path(def.did());
                let a = self.args_json(args);
                J::obj().fs("k", "adt").fs("did", p).fs("name", self.tcx.item_name(def.did()).to_string()).f("args", a).done()
            }
            ty::Ref(r, inner, m) => {
                let i = self.ty_json(*inner);
                J::obj().fs("k", "ref").f("region", region_json(*r)).fb("mut", m.is_mut()).f("ty", i).done()
            }
            ty::RawPtr(inner, m) => {
                let i = self.ty_json(*inner);
                J::obj().fs("k", "ptr").fb("mut", m.is_mut()).f("ty", i).done()
            }
            ty::Array(inner, len) => {
                let i = self.ty_json(*inner);
                let l = self.const_json(*len);
                J::obj().fs("k", "array").f("ty", i).f("len", l).done()
            }
            ty::Slice(inner) => {
                let i = self.ty_json(*inner);
                J::obj().fs("k", "slice").f("ty", i).done()
            }
            ty::Tuple(tys) => {
                let v: Vec<J> = tys.iter().map(|x| self.ty_json(x)).collect();
                J::obj().fs("k", "tuple").f("tys", J::Arr(v)).done()
            }
            ty::Param(p) => J::obj().fs("k", "param").fs("name", p.name.to_string()).fi("idx", p.index as i128).done(),
            ty::Dynamic(preds, r) => {
                let mut traits = Vec::new();
                for p in preds.iter() {
                    match p.skip_binder() {
                        ty::ExistentialPredicate::Trait(tr) => {
                            let a = self.args_json(tr.args);
                            traits.push(J::obj().fs("did", self.path(tr.def_id)).fs("pretty", self.pretty(tr.def_id)).f("args", a).done());
                        }
                        ty::ExistentialPredicate::AutoTrait(d) => {
                            traits.push(J::obj().fs("did", self.path(d)).fs("pretty", self.pretty(d)).fb("auto", true).done());
                        }
                        ty::ExistentialPredicate::Projection(_) => {}
                    }
                }
                J::obj().fs("k", "dyn").f("traits", J::Arr(traits)).f("region", region_json(*r)).done()
            }
            ty::FnDef(did, args) => {
                let a = self.args_json(args);
                J::obj().fs("k", "fndef").fs("did", self.path(*did)).fs("pretty", self.pretty(*did)).f("args", a).done()
            }
            ty::Closure(did, args) => {
                let up: Vec<J> = args.as_closure().upvar_tys().iter().map(|x| self.ty_json(x)).collect();
                J::obj().fs("k", "closure").fs("did", self.path(*did)).f("upvars", J::Arr(up)).done()
            }
            ty::FnPtr(..) => J::obj().fs("k", "fnptr").fs("s", format!("{}", t)).done(),
            ty::Alias(at) => {
                let a = self.args_json(at.args);
                J::obj().fs("k", "alias").fs("s", format!("{}", t)).f("args", a).done()
            }
            ty::Foreign(d) => J::obj().fs("k", "foreign").fs("did", self.path(*d)).done(),
            _ => J::obj().fs("k", "other").fs("s", format!("{}", t)).done(),
        }
    }

    fn adt_json(&mut self, did: DefId) -> J {
        let tcx = self.tcx;
        let def = tcx.adt_def(did);
        let kind = if def.is_enum() {
            "enum"
        } else if def.is_union() {
            "union"
        } else {
            "struct"
        };
        let generics = tcx.generics_of(did);
        let mut gnames = Vec::new();
        for i in 0..generics.count() {
            let p = generics.param_at(i, tcx);
            gnames.push(J::s(p.name.to_string()));
        }
        let mut variants = Vec::new();
        // Do not descend into fields of foreign ADTs other than a small set of transparent std types.
        let krate = tcx.crate_name(did.krate).to_string();
        let descend = did.is_local() || {
            let p = self.path(did);
            matches!(p.as_str(), "core::option::Option" | "core::result::Result" | "core::ops::control_flow::ControlFlow"
                | "core::cmp::Ordering" | "core::ops::range::Range" | "core::ops::range::RangeTo" | "core::ops::range::RangeFrom"
                | "core::ops::range::RangeFull" | "core::ops::range::RangeToInclusive" | "core::marker::PhantomData" | "core::convert::Infallible")
        };
        for (vi, v) in def.variants().iter_enumerated() {
            let mut fields = Vec::new();
            if descend {
                for f in v.fields.iter() {
                    let fty = tcx.type_of(f.did).instantiate_identity().skip_norm_wip();
                    let tj = self.ty_json(fty);
                    fields.push(
                        J::obj()
                            .fs("name", f.name.to_string())
                            .f("ty", tj)
                            .fb("pub", f.vis.is_public())
                            .done(),
                    );
                }
            }
            let discr = if def.is_enum() { def.discriminant_for_variant(tcx, vi).val as i128 } else { 0 };
            variants.push(J::obj().fs("name", v.name.to_string()).fi("discr", discr).fi("nfields", v.fields.len() as i128).f("fields", J::Arr(fields)).done());
        }
        J::obj()
            .fs("did", self.path(did))
            .fs("pretty", self.pretty(did))
            .fs("krate", krate)
            .fs("kind", kind)
            .fb("local", did.is_local())
            .fb("exported", match did.as_local() { Some(l) => tcx.effective_visibilities(()).is_exported(l), None => true })
            .fb("opaque", !descend)
            .f("generics", J::Arr(gnames))
            .f("variants", J::Arr(variants))
            .done()
    }

    fn place_json(&mut self, p: &mir::Place<'tcx>) -> J {
        let mut proj = Vec::new();
        for e in p.projection.iter() {
            proj.push(match e {
                mir::ProjectionElem::Deref => J::obj().fs("k", "deref").done(),
                mir::ProjectionElem::Field(f, t) => {
                    let tj = self.ty_json(t);
                    J::obj().fs("k", "field").fi("i", f.as_usize() as i128).f("ty", tj).done()
                }
                mir::ProjectionElem::Index(l) => J::obj().fs("k", "index").fi("local", l.as_usize() as i128).done(),
                mir::ProjectionElem::ConstantIndex { offset, min_length, from_end } => J::obj()
                    .fs("k", "cindex")
                    .fi("offset", offset as i128)
                    .fi("min_length", min_length as i128)
                    .fb("from_end", from_end)
                    .done(),
                mir::ProjectionElem::Subslice { from, to, from_end } => {
                    J::obj().fs("k", "subslice").fi("from", from as i128).fi("to", to as i128).fb("from_end", from_end).done()
                }
                mir::ProjectionElem::Downcast(name, v) => J::obj()
                    .fs("k", "downcast")
                    .fi("v", v.as_usize() as i128)
                    .f("name", match name {
                        Some(n) => J::s(n.to_string()),
                        None => J::Null,
                    })
                    .done(),
                mir::ProjectionElem::OpaqueCast(_) => J::obj().fs("k", "opaquecast").done(),
                mir::ProjectionElem::UnwrapUnsafeBinder(_) => J::obj().fs("k", "unwrapbinder").done(),
            });
        }
        J::obj().fi("l", p.local.as_usize() as i128).f("p", J::Arr(proj)).done()
    }

    fn callee_json(&mut self, did: DefId, args: GenericArgsRef<'tcx>, owner: DefId) -> J {
        let tcx = self.tcx;
        let a = self.args_json(args);
        let mut o = J::obj()
            .fs("did", self.path(did))
            .fs("pretty", self.pretty(did))
            .fs("name", tcx.opt_item_name(did).map(|s| s.to_string()).unwrap_or_default())
            .fb("local", did.is_local())
            .f("args", a);
        if matches!(tcx.def_kind(did), DefKind::Fn | DefKind::AssocFn) {
            let us = std::panic::catch_unwind(std::panic::AssertUnwindSafe(|| tcx.fn_sig(did).skip_binder().skip_binder().safety().is_unsafe()));
            if let Ok(us) = us {
                o = o.fb("unsafe", us);
            }
        }
        // tuple-struct / tuple-variant constructors used as function values (`map(Some)`, `map(Borrow::Ptr)`)
        if let DefKind::Ctor(of, _) = tcx.def_kind(did) {
            let vdid = tcx.parent(did);
            let adt_did = match of {
                rustc_hir::def::CtorOf::Variant => tcx.parent(vdid),
                rustc_hir::def::CtorOf::Struct => vdid,
            };
            o = o.f(
                "ctor",
                J::obj()
                    .fs("adt", self.path(adt_did))
                    .fs("adt_name", tcx.item_name(adt_did).to_string())
                    .fs("variant", tcx.item_name(vdid).to_string())
                    .fb("is_struct", matches!(of, rustc_hir::def::CtorOf::Struct))
                    .done(),
            );
        }
        // container
        if let Some(assoc) = tcx.opt_associated_item(did) {
            let cont = assoc.container_id(tcx);
            match tcx.def_kind(cont) {
                DefKind::Trait => {
                    o = o.fs("trait", self.pretty(cont)).fs("trait_did", self.path(cont));
                }
                DefKind::Impl { of_trait } => {
                    o = o.fs("impl_did", self.path(cont));
                    if of_trait {
                        let tr = tcx.impl_trait_ref(cont).instantiate_identity().skip_norm_wip();
                        o = o.fs("impl_trait", self.pretty(tr.def_id)).fs("impl_trait_ref", ty::print::with_no_trimmed_paths!(format!("{}", tr)));
                    }
                    let st = tcx.type_of(cont).instantiate_identity().skip_norm_wip();
                    let stj = self.ty_json(st);
                    o = o.f("impl_self", stj).fb("impl_derived", tcx.is_automatically_derived(cont));
                }
                _ => {}
            }
        }
        let _ = owner;
        o.done()
    }

    fn mir_const_json(&mut self, c: &mir::Const<'tcx>, owner: DefId) -> J {
        let tcx = self.tcx;
        let ty = c.ty();
        let tj = self.ty_json(ty);
        let base = J::obj().fs("k", "const").f("ty", tj);
        // fn items / ZST
        if let ty::FnDef(did, args) = ty.kind() {
            let cj = self.callee_json(*did, args, owner);
            let res = self.resolve_json(*did, args, owner);
            return base.fs("ck", "fn").f("fn", cj).f("resolved", res).done();
        }
        match c {
            mir::Const::Ty(_, ct) => {
                let cj = self.const_json(*ct);
                base.fs("ck", "ty").f("c", cj).done()
            }
            mir::Const::Unevaluated(uv, _) => {
                let a = self.args_json(uv.args);
                let mut o = base
                    .fs("ck", "unevaluated")
                    .fs("did", self.path(uv.def))
                    .fs("pretty", self.pretty(uv.def))
                    .fb("local", uv.def.is_local())
                    .f("args", a)
                    .f("promoted", match uv.promoted {
                        Some(p) => J::Int(p.as_usize() as i128),
                        None => J::Null,
                    });
                if uv.promoted.is_none() && ty.is_scalar() && !ty::TypeVisitableExt::has_non_region_param(&uv.args) {
                    let env = ty::TypingEnv::post_analysis(tcx, owner);
                    if let Some(si) = c.try_eval_scalar_int(tcx, env) {
                        let size = si.size();
                        o = o.fi("bits", si.to_bits(size) as i128).fi("size", size.bytes() as i128);
                    }
                }
                o.done()
            }
            mir::Const::Val(v, _) => match v {
                mir::ConstValue::Scalar(mir::interpret::Scalar::Int(si)) => {
                    let size = si.size();
                    base.fs("ck", "scalar").fi("bits", si.to_bits(size) as i128).fi("size", size.bytes() as i128).done()
                }
                mir::ConstValue::ZeroSized => base.fs("ck", "zst").done(),
                mir::ConstValue::Scalar(mir::interpret::Scalar::Ptr(p, _)) => {
                    let (prov, _off) = p.into_raw_parts();
                    match tcx.global_alloc(prov.alloc_id()) {
                        mir::interpret::GlobalAlloc::Static(sdid) => base
                            .fs("ck", "static")
                            .fs("did", self.path(sdid))
                            .fb("mutable", tcx.is_mutable_static(sdid))
                            .fb("local", sdid.is_local())
                            .done(),
                        _ => base.fs("ck", "other").fs("s", format!("{}", c)).done(),
                    }
                }
                mir::ConstValue::Slice { .. } => {
                    let s = format!("{}", c);
                    base.fs("ck", "slice").fs("s", s).done()
                }
                _ => base.fs("ck", "other").fs("s", format!("{}", c)).done(),
            },
        }
    }

    fn resolve_json(&mut self, did: DefId, args: GenericArgsRef<'tcx>, owner: DefId) -> J {
        let tcx = self.tcx;
        match tcx.def_kind(did) {
            DefKind::Fn | DefKind::AssocFn => {}
            _ => return J::Null,
        }
        let env = ty::TypingEnv::post_analysis(tcx, owner);
        let args = tcx.erase_and_anonymize_regions(args);
        let r = std::panic::catch_unwind(std::panic::AssertUnwindSafe(|| ty::Instance::try_resolve(tcx, env, did, args)));
        match r {
            Ok(Ok(Some(inst))) => {
                let kind = match inst.def {
                    ty::InstanceKind::Item(_) => "item",
                    ty::InstanceKind::Virtual(..) => "virtual",
                    ty::InstanceKind::Intrinsic(_) => "intrinsic",
                    ty::InstanceKind::CloneShim(..) => "clone_shim",
                    ty::InstanceKind::DropGlue(..) => "drop_glue",
                    ty::InstanceKind::FnPtrShim(..) => "fnptr_shim",
                    ty::InstanceKind::ClosureOnceShim { .. } => "closure_once_shim",
                    ty::InstanceKind::ReifyShim(..) => "reify_shim",
                    _ => "other",
                };
                let rd = inst.def_id();
                let cj = self.callee_json(rd, inst.args, owner);
                J::obj().fs("kind", kind).f("fn", cj).fb("mir", tcx.is_mir_available(rd)).done()
            }
            _ => J::Null,
        }
    }

    fn operand_json(&mut self, o: &mir::Operand<'tcx>, owner: DefId) -> J {
        match o {
            mir::Operand::Copy(p) => {
                let pj = self.place_json(p);
                J::obj().fs("k", "copy").f("place", pj).done()
            }
            mir::Operand::Move(p) => {
                let pj = self.place_json(p);
                J::obj().fs("k", "move").f("place", pj).done()
            }
            mir::Operand::Constant(c) => self.mir_const_json(&c.const_, owner),
            mir::Operand::RuntimeChecks(rc) => J::obj().fs("k", "runtime_checks").fs("s", format!("{:?}", rc)).done(),
        }
    }

    fn rvalue_json(&mut self, rv: &mir::Rvalue<'tcx>, owner: DefId) -> J {
        match rv {
            mir::Rvalue::Use(op, _) => {
                let o = self.operand_json(op, owner);
                J::obj().fs("k", "use").f("op", o).done()
            }
            mir::Rvalue::Repeat(op, n) => {
                let o = self.operand_json(op, owner);
                let c = self.const_json(*n);
                J::obj().fs("k", "repeat").f("op", o).f("n", c).done()
            }
            mir::Rvalue::Ref(_, bk, p) => {
                let pj = self.place_json(p);
                let m = matches!(bk, mir::BorrowKind::Mut { .. });
                J::obj().fs("k", "ref").fb("mut", m).f("place", pj).done()
            }
            mir::Rvalue::ThreadLocalRef(d) => J::obj().fs("k", "tlref").fs("did", self.path(*d)).done(),
            mir::Rvalue::RawPtr(kind, p) => {
                let pj = self.place_json(p);
                J::obj().fs("k", "rawptr").fs("kind", format!("{:?}", kind)).f("place", pj).done()
            }
            mir::Rvalue::Cast(ck, op, t) => {
                let o = self.operand_json(op, owner);
                let tj = self.ty_json(*t);
                J::obj().fs("k", "cast").fs("kind", format!("{:?}", ck)).f("op", o).f("ty", tj).done()
            }
            mir::Rvalue::BinaryOp(bop, ops) => {
                let a = self.operand_json(&ops.0, owner);
                let b = self.operand_json(&ops.1, owner);
                let body_ty = ops.0.constant().map(|c| c.const_.ty());
                let _ = body_ty;
                J::obj().fs("k", "binop").fs("op", format!("{:?}", bop)).f("a", a).f("b", b).done()
            }
            mir::Rvalue::UnaryOp(uop, op) => {
                let a = self.operand_json(op, owner);
                J::obj().fs("k", "unop").fs("op", format!("{:?}", uop)).f("a", a).done()
            }
            mir::Rvalue::Discriminant(p) => {
                let pj = self.place_json(p);
                J::obj().fs("k", "discr").f("place", pj).done()
            }
            mir::Rvalue::Aggregate(ak, ops) => {
                let opsj: Vec<J> = ops.iter().map(|o| self.operand_json(o, owner)).collect();
                let base = J::obj().fs("k", "aggr");
                let base = match &**ak {
                    mir::AggregateKind::Array(t) => {
                        let tj = self.ty_json(*t);
                        base.fs("ak", "array").f("ty", tj)
                    }
                    mir::AggregateKind::Tuple => base.fs("ak", "tuple"),
                    mir::AggregateKind::Adt(did, vi, args, _, active) => {
                        self.note_adt(*did);
                        let a = self.args_json(args);
                        base.fs("ak", "adt")
                            .fs("did", self.path(*did))
                            .fi("v", vi.as_usize() as i128)
                            .f("args", a)
                            .f("union_field", match active {
                                Some(f) => J::Int(f.as_usize() as i128),
                                None => J::Null,
                            })
                    }
                    mir::AggregateKind::Closure(did, _) => base.fs("ak", "closure").fs("did", self.path(*did)),
                    mir::AggregateKind::RawPtr(t, m) => {
                        let tj = self.ty_json(*t);
                        base.fs("ak", "rawptr").f("ty", tj).fb("mut", m.is_mut())
                    }
                    _ => base.fs("ak", "other"),
                };
                base.f("ops", J::Arr(opsj)).done()
            }
            mir::Rvalue::CopyForDeref(p) => {
                let pj = self.place_json(p);
                J::obj().fs("k", "use").f("op", J::obj().fs("k", "copy").f("place", pj).done()).done()
            }
            mir::Rvalue::WrapUnsafeBinder(..) => J::obj().fs("k", "other").fs("s", "wrap_unsafe_binder").done(),
        }
    }

    fn body_json(&mut self, body: &mir::Body<'tcx>, owner: DefId) -> J {
        let mut locals = Vec::new();
        for (_, d) in body.local_decls.iter_enumerated() {
            let tj = self.ty_json(d.ty);
            locals.push(J::obj().f("ty", tj).fb("mut", d.mutability.is_mut()).done());
        }
        let mut names = Vec::new();
        for vdi in body.var_debug_info.iter() {
            if let mir::VarDebugInfoContents::Place(p) = &vdi.value {
                let pj = self.place_json(p);
                names.push(J::obj().fs("name", vdi.name.to_string()).f("place", pj).done());
            }
        }
        let mut blocks = Vec::new();
        for (_, bb) in body.basic_blocks.iter_enumerated() {
            let mut stmts = Vec::new();
            for st in bb.statements.iter() {
                let sp = self.span_json(st.source_info.span);
                match &st.kind {
                    mir::StatementKind::Assign(b) => {
                        let pj = self.place_json(&b.0);
                        let rj = self.rvalue_json(&b.1, owner);
                        stmts.push(J::obj().fs("k", "assign").f("place", pj).f("rv", rj).f("span", sp).done());
                    }
                    mir::StatementKind::SetDiscriminant { place, variant_index } => {
                        let pj = self.place_json(place);
                        stmts.push(J::obj().fs("k", "setdiscr").f("place", pj).fi("v", variant_index.as_usize() as i128).f("span", sp).done());
                    }
                    mir::StatementKind::StorageLive(l) => {
                        stmts.push(J::obj().fs("k", "live").fi("l", l.as_usize() as i128).done());
                    }
                    mir::StatementKind::StorageDead(l) => {
                        stmts.push(J::obj().fs("k", "dead").fi("l", l.as_usize() as i128).done());
                    }
                    mir::StatementKind::Intrinsic(i) => {
                        stmts.push(J::obj().fs("k", "intrinsic").fs("s", format!("{:?}", i)).f("span", sp).done());
                    }
                    mir::StatementKind::Nop
                    | mir::StatementKind::FakeRead(..)
                    | mir::StatementKind::PlaceMention(..)
                    | mir::StatementKind::AscribeUserType(..)
                    | mir::StatementKind::Coverage(..)
                    | mir::StatementKind::ConstEvalCounter
                    | mir::StatementKind::BackwardIncompatibleDropHint { .. } => {}
                    #[allow(unreachable_patterns)]
                    other => {
                        stmts.push(J::obj().fs("k", "other").fs("s", format!("{:?}", other)).f("span", sp).done());
                    }
                }
            }
            let term = bb.terminator();
            let sp = self.span_json(term.source_info.span);
            let tj = match &term.kind {
                mir::TerminatorKind::Goto { target } => J::obj().fs("k", "goto").fi("t", target.as_usize() as i128).done(),
                mir::TerminatorKind::SwitchInt { discr, targets } => {
                    let d = self.operand_json(discr, owner);
                    let dty = discr.ty(&body.local_decls, self.tcx);
                    let dtj = self.ty_json(dty);
                    let mut ts = Vec::new();
                    for (v, t) in targets.iter() {
                        ts.push(J::Arr(vec![J::Int(v as i128), J::Int(t.as_usize() as i128)]));
                    }
                    J::obj().fs("k", "switch").f("discr", d).f("dty", dtj).f("targets", J::Arr(ts)).fi("otherwise", targets.otherwise().as_usize() as i128).done()
                }
                mir::TerminatorKind::Return => J::obj().fs("k", "return").done(),
                mir::TerminatorKind::Unreachable => J::obj().fs("k", "unreachable").done(),
                mir::TerminatorKind::UnwindResume => J::obj().fs("k", "resume").done(),
                mir::TerminatorKind::UnwindTerminate(_) => J::obj().fs("k", "terminate").done(),
                mir::TerminatorKind::Drop { place, target, .. } => {
                    let pj = self.place_json(place);
                    let pty = place.ty(&body.local_decls, self.tcx).ty;
                    let ptj = self.ty_json(pty);
                    J::obj().fs("k", "drop").f("place", pj).f("ty", ptj).fi("t", target.as_usize() as i128).done()
                }
                mir::TerminatorKind::Call { func, args, destination, target, .. } => {
                    let fj = self.operand_json(func, owner);
                    let aj: Vec<J> = args.iter().map(|a| self.operand_json(&a.node, owner)).collect();
                    let dj = self.place_json(destination);
                    J::obj()
                        .fs("k", "call")
                        .f("func", fj)
                        .f("args", J::Arr(aj))
                        .f("dest", dj)
                        .f("t", match target {
                            Some(t) => J::Int(t.as_usize() as i128),
                            None => J::Null,
                        })
                        .done()
                }
                mir::TerminatorKind::Assert { cond, expected, msg, target, .. } => {
                    let cj = self.operand_json(cond, owner);
                    let (mk, margs): (String, Vec<J>) = match &**msg {
                        mir::AssertKind::BoundsCheck { len, index } => {
                            ("BoundsCheck".into(), vec![self.operand_json(len, owner), self.operand_json(index, owner)])
                        }
                        mir::AssertKind::Overflow(op, a, b) => {
                            (format!("Overflow({:?})", op), vec![self.operand_json(a, owner), self.operand_json(b, owner)])
                        }
                        mir::AssertKind::OverflowNeg(a) => ("OverflowNeg".into(), vec![self.operand_json(a, owner)]),
                        mir::AssertKind::DivisionByZero(a) => ("DivisionByZero".into(), vec![self.operand_json(a, owner)]),
                        mir::AssertKind::RemainderByZero(a) => ("RemainderByZero".into(), vec![self.operand_json(a, owner)]),
                        mir::AssertKind::MisalignedPointerDereference { .. } => ("MisalignedPointerDereference".into(), vec![]),
                        mir::AssertKind::NullPointerDereference => ("NullPointerDereference".into(), vec![]),
                        other => (format!("{:?}", other), vec![]),
                    };
                    J::obj()
                        .fs("k", "assert")
                        .f("cond", cj)
                        .fb("expected", *expected)
                        .fs("msg", mk)
                        .f("margs", J::Arr(margs))
                        .fi("t", target.as_usize() as i128)
                        .done()
                }
                mir::TerminatorKind::FalseEdge { real_target, .. } => J::obj().fs("k", "goto").fi("t", real_target.as_usize() as i128).done(),
                mir::TerminatorKind::FalseUnwind { real_target, .. } => J::obj().fs("k", "goto").fi("t", real_target.as_usize() as i128).done(),
                other => J::obj().fs("k", "other").fs("s", format!("{:?}", other)).done(),
            };
            let tj = match tj {
                J::Obj(mut v) => {
                    v.push(("span".into(), sp));
                    J::Obj(v)
                }
                x => x,
            };
            blocks.push(J::obj().f("stmts", J::Arr(stmts)).f("term", tj).fb("cleanup", bb.is_cleanup).done());
        }
        J::obj()
            .fi("arg_count", body.arg_count as i128)
            .f("locals", J::Arr(locals))
            .f("names", J::Arr(names))
            .f("blocks", J::Arr(blocks))
            .done()
    }

    fn generics_json(&mut self, did: DefId) -> J {
        let tcx = self.tcx;
        let g = tcx.generics_of(did);
        let mut v = Vec::new();
        for i in 0..g.count() {
            let p = g.param_at(i, tcx);
            let kind = match p.kind {
                ty::GenericParamDefKind::Lifetime => "lifetime",
                ty::GenericParamDefKind::Type { .. } => "type",
                ty::GenericParamDefKind::Const { .. } => "const",
            };
            v.push(J::obj().fs("name", p.name.to_string()).fs("kind", kind).fi("idx", p.index as i128).done());
        }
        J::Arr(v)
    }

    fn fn_json(&mut self, ldid: LocalDefId) -> Option<J> {
        let tcx = self.tcx;
        let did = ldid.to_def_id();
        let kind = tcx.def_kind(did);
        let fnlike = matches!(kind, DefKind::Fn | DefKind::AssocFn | DefKind::Closure);
        let constlike = matches!(
            kind,
            DefKind::Const { .. } | DefKind::AssocConst { .. } | DefKind::AnonConst | DefKind::InlineConst | DefKind::Static { .. }
        );
        if !fnlike && !constlike {
            return None;
        }
        let mut o = J::obj()
            .fs("did", self.path(did))
            .fs("pretty", self.pretty(did))
            .fs("name", tcx.opt_item_name(did).map(|s| s.to_string()).unwrap_or_default())
            .fs("kind", format!("{:?}", kind))
            .f("span", self.span_json(tcx.def_span(did)))
            .f("generics", self.generics_json(did));
        if matches!(kind, DefKind::Fn | DefKind::AssocFn) {
            let sig = tcx.fn_sig(did).instantiate_identity().skip_norm_wip();
            let sigb = sig.skip_binder();
            let ins: Vec<J> = sigb.inputs().iter().map(|t| self.ty_json(*t)).collect();
            let out = self.ty_json(sigb.output());
            o = o
                .f("sig_inputs", J::Arr(ins))
                .f("sig_output", out)
                .fs("sig", ty::print::with_no_trimmed_paths!(format!("{}", sig)))
                .fb("unsafe", sigb.safety().is_unsafe())
                .fb("const_fn", tcx.is_const_fn(did))
                .fb("pub", tcx.visibility(did).is_public());
            // effective visibility (reachable from outside the crate)
            let ev = tcx.effective_visibilities(());
            o = o.fb("exported", ev.is_exported(ldid));
            if let Some(assoc) = tcx.opt_associated_item(did) {
                let cont = assoc.container_id(tcx);
                match tcx.def_kind(cont) {
                    DefKind::Impl { of_trait } => {
                        o = o.fs("impl_did", self.path(cont));
                        if of_trait {
                            let tr = tcx.impl_trait_ref(cont).instantiate_identity().skip_norm_wip();
                            let ta = self.args_json(tr.args);
                            o = o
                                .fs("impl_trait", self.pretty(tr.def_id))
                                .fs("impl_trait_ref", ty::print::with_no_trimmed_paths!(format!("{}", tr)))
                                .f("impl_trait_args", ta);
                        }
                        let st = tcx.type_of(cont).instantiate_identity().skip_norm_wip();
                        let stj = self.ty_json(st);
                        o = o.f("impl_self", stj).fb("impl_derived", tcx.is_automatically_derived(cont));
                    }
                    DefKind::Trait => {
                        o = o.fs("trait", self.pretty(cont)).fb("trait_default", true);
                    }
                    _ => {}
                }
            }
        }
        if matches!(kind, DefKind::Closure) {
            let parent = tcx.parent(did);
            o = o.fs("parent", self.path(parent));
        }
        // body
        let has_body = tcx.hir_maybe_body_owned_by(ldid).is_some();
        if has_body {
            if fnlike {
                let body = tcx.optimized_mir(did);
                let bj = self.body_json(body, did);
                o = o.f("body", bj);
            } else {
                let body = tcx.mir_for_ctfe(did);
                let bj = self.body_json(body, did);
                o = o.f("body", bj);
            }
            let promoted = tcx.promoted_mir(did);
            let mut pv = Vec::new();
            for (_, pb) in promoted.iter_enumerated() {
                pv.push(self.body_json(pb, did));
            }
            o = o.f("promoted", J::Arr(pv));
        }
        Some(o.done())
    }

    fn dump_crate(&mut self, krate: &str) -> J {
        let tcx = self.tcx;
        let mut fns = Vec::new();
        let owners: Vec<LocalDefId> = tcx.hir_body_owners().collect();
        for ldid in owners {
            if let Some(j) = self.fn_json(ldid) {
                fns.push(j);
            }
        }
        // impls
        let mut impls = Vec::new();
        let mut macros = Vec::new();
        let mut consts_vis = Vec::new();
        for id in tcx.hir_free_items() {
            let item = tcx.hir_item(id);
            let did = item.owner_id.to_def_id();
            match &item.kind {
                hir::ItemKind::Impl(imp) => {
                    let st = tcx.type_of(did).instantiate_identity().skip_norm_wip();
                    let stj = self.ty_json(st);
                    let mut o = J::obj()
                        .fs("did", self.path(did))
                        .f("self", stj)
                        .fs("self_s", ty::print::with_no_trimmed_paths!(format!("{}", st)))
                        .fb("derived", tcx.is_automatically_derived(did))
                        .f("span", self.span_json(item.span))
                        .f("generics", self.generics_json(did));
                    if imp.of_trait.is_some() {
                        let tr = tcx.impl_trait_ref(did).instantiate_identity().skip_norm_wip();
                        let ta = self.args_json(tr.args);
                        o = o
                            .fs("trait", self.pretty(tr.def_id))
                            .fs("trait_ref", ty::print::with_no_trimmed_paths!(format!("{}", tr)))
                            .f("trait_args", ta);
                    }
                    let mut items = Vec::new();
                    for ai in tcx.associated_items(did).in_definition_order() {
                        let mut io = J::obj().fs("name", ai.name().to_string()).fs("did", self.path(ai.def_id));
                        if matches!(tcx.def_kind(ai.def_id), DefKind::AssocTy) {
                            // the value of an associated type of this impl (`type Weight = f32;`): lets the analysis normalise `<T as Tr>::Weight`
                            let t = tcx.type_of(ai.def_id).instantiate_identity().skip_norm_wip();
                            let tj = self.ty_json(t);
                            io = io.f("ty", tj);
                        }
                        items.push(io.done());
                    }
                    impls.push(o.f("items", J::Arr(items)).done());
                }
                hir::ItemKind::Macro(ident, mdef, _) => {
                    let toks = rustc_ast_pretty::pprust::tts_to_string(&mdef.body.tokens);
                    let exported = tcx.hir_attrs(item.hir_id()).iter().any(|a| a.has_name(rustc_span::sym::macro_export))
                        || rustc_hir::find_attr!(tcx.hir_attrs(item.hir_id()), rustc_hir::attrs::AttributeKind::MacroExport { .. });
                    macros.push(
                        J::obj()
                            .fs("name", ident.name.to_string())
                            .fb("macro_rules", mdef.macro_rules)
                            .fb("exported", exported)
                            .fs("tokens", toks)
                            .f("span", self.span_json(item.span))
                            .done(),
                    );
                }
                hir::ItemKind::Const(..) | hir::ItemKind::Static(..) => {
                    consts_vis.push(J::obj().fs("did", self.path(did)).fb("pub", tcx.visibility(did).is_public()).done());
                }
                _ => {}
            }
        }
        // unsafe blocks
        let mut unsafes = Vec::new();
        {
            use rustc_hir::intravisit::{self, Visitor};
            struct UV<'a, 'tcx> {
                cx: &'a Cx<'tcx>,
                owner: String,
                out: &'a mut Vec<J>,
            }
            impl<'a, 'tcx> Visitor<'tcx> for UV<'a, 'tcx> {
                fn visit_block(&mut self, b: &'tcx hir::Block<'tcx>) {
                    if let hir::BlockCheckMode::UnsafeBlock(src) = b.rules {
                        self.out.push(
                            J::obj()
                                .fs("owner", self.owner.clone())
                                .fb("user", matches!(src, hir::UnsafeSource::UserProvided))
                                .f("span", self.cx.span_json(b.span))
                                .done(),
                        );
                    }
                    intravisit::walk_block(self, b);
                }
            }
            let owners: Vec<LocalDefId> = tcx.hir_body_owners().collect();
            for ldid in owners {
                if let Some(body) = tcx.hir_maybe_body_owned_by(ldid) {
                    let owner = self.path(ldid.to_def_id());
                    let mut out = Vec::new();
                    {
                        let mut v = UV { cx: self, owner, out: &mut out };
                        v.visit_body(body);
                    }
                    unsafes.extend(out);
                }
            }
        }
        // ADTs (transitively)
        let mut adts = Vec::new();
        // make sure all local ADTs are present even if unused in bodies
        for id in tcx.hir_free_items() {
            let item = tcx.hir_item(id);
            if matches!(item.kind, hir::ItemKind::Struct(..) | hir::ItemKind::Enum(..) | hir::ItemKind::Union(..)) {
                self.note_adt(item.owner_id.to_def_id());
            }
        }
        while let Some(did) = self.adt_queue.pop() {
            let j = self.adt_json(did);
            adts.push(j);
        }
        // traits impl'd auto: Send/Sync facts for local ADTs are left to witnesses.
        let cfgs: Vec<J> = {
            let mut v: BTreeSet<String> = BTreeSet::new();
            for (name, val) in tcx.sess.config.iter() {
                match val {
                    Some(val) => {
                        if name.as_str() == "feature" {
                            v.insert(format!("feature={}", val));
                        }
                    }
                    None => {
                        if name.as_str() == "debug_assertions" {
                            v.insert("debug_assertions".into());
                        }
                    }
                }
            }
            v.into_iter().map(J::s).collect()
        };
        let cfg_sites = cfg_inventory(tcx);
        J::obj()
            .fs("crate", krate)
            .f("cfg_sites", J::Arr(cfg_sites))
            .f("cfg", J::Arr(cfgs))
            .f("fns", J::Arr(fns))
            .f("impls", J::Arr(impls))
            .f("macros", J::Arr(macros))
            .f("items_vis", J::Arr(consts_vis))
            .f("unsafe_blocks", J::Arr(unsafes))
            .f("adts", J::Arr(adts))
            .done()
    }
}


// ------------------------------------------------------------------------------------------------
// cfg inventory from an UNEXPANDED parse of every local source file

fn cfg_inventory<'tcx>(tcx: TyCtxt<'tcx>) -> Vec<J> {
    use rustc_ast as ast;
    use rustc_ast::visit::{self, Visitor};
    let sm = tcx.sess.source_map();
    let mut paths: Vec<std::path::PathBuf> = Vec::new();
    for f in sm.files().iter() {
        if let rustc_span::FileName::Real(r) = &f.name {
            if let Some(p) = r.local_path() {
                let ps = p.to_string_lossy().to_string();
                if ps.ends_with(".rs") && !ps.contains("/rustlib/") && !ps.contains("/.cargo/") && f.cnum == rustc_hir::def_id::LOCAL_CRATE {
                    paths.push(p.to_path_buf());
                }
            }
        }
    }
    paths.sort();
    paths.dedup();
    struct V<'a> {
        sm: &'a rustc_span::source_map::SourceMap,
        file: String,
        stack: Vec<String>,
        out: Vec<J>,
    }
    impl<'a> V<'a> {
        fn note(&mut self, attrs: &[ast::Attribute], kind: &str, name: &str) {
            for a in attrs {
                let is_cfg = a.has_name(rustc_span::sym::cfg);
                let is_cfg_attr = a.has_name(rustc_span::sym::cfg_attr);
                if is_cfg || is_cfg_attr {
                    let lo = self.sm.lookup_char_pos(a.span.lo());
                    let text = rustc_ast_pretty::pprust::attribute_to_string(a);
                    self.out.push(
                        J::obj()
                            .fs("file", self.file.clone())
                            .fi("line", lo.line as i128)
                            .fs("node", kind)
                            .fs("name", name)
                            .fs("enclosing", self.stack.join("::"))
                            .fs("attr", if is_cfg { "cfg" } else { "cfg_attr" })
                            .fb("inner", matches!(a.style, ast::AttrStyle::Inner))
                            .fs("text", text)
                            .done(),
                    );
                }
            }
        }
    }
    fn item_name(i: &ast::Item) -> String {
        match &i.kind {
            ast::ItemKind::Impl(imp) => {
                let t = rustc_ast_pretty::pprust::ty_to_string(&imp.self_ty);
                match &imp.of_trait {
                    Some(tr) => format!("impl {} for {}", rustc_ast_pretty::pprust::path_to_string(&tr.trait_ref.path), t),
                    None => format!("impl {}", t),
                }
            }
            other => other.ident().map(|x| x.name.to_string()).unwrap_or_else(|| "_".to_string()),
        }
    }
    impl<'a, 'ast> Visitor<'ast> for V<'a> {
        fn visit_item(&mut self, i: &'ast ast::Item) {
            let n = item_name(i);
            let kind = match &i.kind {
                ast::ItemKind::Use(..) => "use",
                ast::ItemKind::Mod(..) => "mod",
                ast::ItemKind::ExternCrate(..) => "extern_crate",
                ast::ItemKind::MacroDef(..) => "macro_def",
                ast::ItemKind::MacCall(..) => "mac_call",
                _ => "item",
            };
            self.note(&i.attrs, kind, &n);
            self.stack.push(n);
            visit::walk_item(self, i);
            self.stack.pop();
        }
        fn visit_assoc_item(&mut self, i: &'ast ast::AssocItem, ctxt: visit::AssocCtxt) {
            let n = i.kind.ident().map(|x| x.name.to_string()).unwrap_or_else(|| "_".to_string());
            self.note(&i.attrs, "assoc_item", &n);
            self.stack.push(n);
            visit::walk_assoc_item(self, i, ctxt);
            self.stack.pop();
        }
        fn visit_field_def(&mut self, f: &'ast ast::FieldDef) {
            let n = f.ident.map(|x| x.name.to_string()).unwrap_or_default();
            self.note(&f.attrs, "field", &n);
            visit::walk_field_def(self, f);
        }
        fn visit_expr_field(&mut self, f: &'ast ast::ExprField) {
            self.note(&f.attrs, "expr_field", &f.ident.name.to_string());
            visit::walk_expr_field(self, f);
        }
        fn visit_variant(&mut self, v: &'ast ast::Variant) {
            self.note(&v.attrs, "variant", &v.ident.name.to_string());
            visit::walk_variant(self, v);
        }
        fn visit_arm(&mut self, a: &'ast ast::Arm) {
            self.note(&a.attrs, "arm", "");
            visit::walk_arm(self, a);
        }
        fn visit_stmt(&mut self, s: &'ast ast::Stmt) {
            match &s.kind {
                ast::StmtKind::Let(l) => self.note(&l.attrs, "stmt", ""),
                ast::StmtKind::Expr(e) | ast::StmtKind::Semi(e) => self.note(&e.attrs, "stmt", ""),
                ast::StmtKind::MacCall(m) => self.note(&m.attrs, "stmt", ""),
                _ => {}
            }
            visit::walk_stmt(self, s);
        }
        fn visit_expr(&mut self, e: &'ast ast::Expr) {
            // statement-level expression attributes are reported by visit_stmt; report the rest (e.g. call arguments)
            visit::walk_expr(self, e);
        }
        fn visit_param(&mut self, p: &'ast ast::Param) {
            self.note(&p.attrs, "param", "");
            visit::walk_param(self, p);
        }
        fn visit_mac_call(&mut self, m: &'ast ast::MacCall) {
            // configuration-dependent macros: cfg!(..) and the debug_assert family (compiled out without debug_assertions)
            if let Some(seg) = m.path.segments.last() {
                let n = seg.ident.name.to_string();
                if n == "cfg" || n.starts_with("debug_assert") {
                    let lo = self.sm.lookup_char_pos(m.path.span.lo());
                    self.out.push(
                        J::obj()
                            .fs("file", self.file.clone())
                            .fi("line", lo.line as i128)
                            .fs("node", format!("mac:{}", n))
                            .fs("name", n.clone())
                            .fs("enclosing", self.stack.join("::"))
                            .fs("attr", "macro")
                            .fb("inner", false)
                            .fs("text", format!("{}!({})", n, rustc_ast_pretty::pprust::tts_to_string(&m.args.tokens)))
                            .done(),
                    );
                }
            }
            visit::walk_mac(self, m);
        }
    }
    let mut out = Vec::new();
    for p in paths {
        let psess = &tcx.sess.psess;
        let parsed = std::panic::catch_unwind(std::panic::AssertUnwindSafe(|| {
            match rustc_parse::new_parser_from_file(psess, &p, rustc_parse::lexer::StripTokens::Nothing, None) {
                Ok(mut parser) => match parser.parse_crate_mod() {
                    Ok(k) => Some(k),
                    Err(d) => {
                        d.cancel();
                        None
                    }
                },
                Err(ds) => {
                    for d in ds {
                        d.cancel();
                    }
                    None
                }
            }
        }));
        if let Ok(Some(krate)) = parsed {
            let mut v = V { sm, file: p.to_string_lossy().to_string(), stack: Vec::new(), out: Vec::new() };
            v.note(&krate.attrs, "crate", "");
            for it in krate.items.iter() {
                v.visit_item(it);
            }
            // expression-level attributes that are not statements (call arguments etc.)
            struct EV<'b, 'a> {
                v: &'b mut V<'a>,
            }
            impl<'b, 'a, 'ast> Visitor<'ast> for EV<'b, 'a> {
                fn visit_item(&mut self, i: &'ast ast::Item) {
                    self.v.stack.push(item_name(i));
                    visit::walk_item(self, i);
                    self.v.stack.pop();
                }
                fn visit_assoc_item(&mut self, i: &'ast ast::AssocItem, ctxt: visit::AssocCtxt) {
                    self.v.stack.push(i.kind.ident().map(|x| x.name.to_string()).unwrap_or_else(|| "_".to_string()));
                    visit::walk_assoc_item(self, i, ctxt);
                    self.v.stack.pop();
                }
                fn visit_stmt(&mut self, s: &'ast ast::Stmt) {
                    // skip the statement's own expression attrs (already reported) but walk inside
                    match &s.kind {
                        ast::StmtKind::Expr(e) | ast::StmtKind::Semi(e) => visit::walk_expr(self, e),
                        _ => visit::walk_stmt(self, s),
                    }
                }
                fn visit_expr(&mut self, e: &'ast ast::Expr) {
                    self.v.note(&e.attrs, "expr", "");
                    visit::walk_expr(self, e);
                }
            }
            {
                let mut ev = EV { v: &mut v };
                for it in krate.items.iter() {
                    ev.visit_item(it);
                }
            }
            out.extend(v.out);
        }
    }
    out
}
