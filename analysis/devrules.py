"""Shared device-update simulation for C08 (state projection), C13 (command relay) and C03 (device timestamps)."""
import itertools
from values import *
from program import subst, ty_str, is_adt, prim, AnchorMissing, loc
import sim as S
import streamkit as K
import devkit as D

DEVICES = ["Invert", "GearTrain", "Axle", "Differential"]
NTERMS = {"Invert": 2, "GearTrain": 2, "Differential": 3}


def update_fn(prog, name):
    return prog.find_fn(name="update", self_name=name, trait="Updatable")


def run_update(sim, prog, name, config, n=None, distrust=None):
    fn = update_fn(prog, name)
    consts = {g["name"]: n for g in fn["generics"] if g["kind"] == "const"}
    gargs = K.gargs_with_consts(sim, fn, consts)
    st = S.State()
    presets = {}
    if distrust is not None:
        dty = [t for nm, t in sim.adt_fields(subst(fn["sig_inputs"][0], gargs)["ty"]) if is_adt(t, "DifferentialDistrust")]
        fname = [nm for nm, t in sim.adt_fields(subst(fn["sig_inputs"][0], gargs)["ty"]) if is_adt(t, "DifferentialDistrust")][0]
        presets[fname] = sim.mk_enum(dty[0], distrust)
    dh = D.DeviceHeap(sim, prog, fn, gargs, st, presets)
    a0 = dh.build(config)
    pre = st.copy()
    leaves = sim.run(fn, gargs, [a0], st)
    return fn, leaves, dh, pre


def state_names(prog):
    return [f["name"] for f in prog.adt_by_name("State")["variants"][0]["fields"]]


def read_expectation(conf, i, which):
    """Symbolic pre-update read at terminal i for 'state' | 'cmd': list of candidate (time_sym, value_prefix) it merges/selects from."""
    key = "state" if which == "state" else "cmd"
    pre = "s" if which == "state" else "c"
    out = []
    if conf.get(key):
        out.append((Sym("t%s%d" % (pre, i)), "%s%d" % (pre, i)))
    p = conf.get("partner")
    if p and p.get(key):
        out.append((Sym("t%sp%d" % (pre, i)), "%sp%d" % (pre, i)))
    return out
