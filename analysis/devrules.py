"""Shared device-update simulation for C08 (state projection), C13 (command relay) and C03 (device timestamps)."""
import itertools
from values import *
from program import subst, ty_str, is_adt, prim, AnchorMissing, loc
import sim as S
import streamkit as K
import devkit as D

DEVICES = ["Invert", "GearTrain", "Axle", "Differential"]
NTERMS = {"Invert": 2, "GearTrain": 2, "Differential": 3}


def update_fn(prog, name):
    return prog.find_fn(name="update", self_name=name, trait="Updatable")


def run_update(sim, prog, name, config, n=None, distrust=None):
    fn = update_fn(prog, name)
    consts = {g["name"]: n for g in fn["generics"] if g["kind"] == "const"}
    gargs = K.gargs_with_consts(sim, fn, consts)
    st = S.State()
    presets = {}
    if distrust is not None:
        # the trust mode is whatever the crate's own constructor stores for it (a field of the public enum today; a private
        # representation tomorrow): run `with_distrust(mode)` and keep its non-terminal leaves
        import layout
        ctors = [f for f in prog.find_fns(name="with_distrust", self_name=name) if not f.get("impl_trait")]
        dd = prog.adt_by_name("DifferentialDistrust")
        if len(ctors) != 1 or not dd:
            raise AnchorMissing("%s::with_distrust" % name)
        dty = {"k": "adt", "did": dd["did"], "name": "DifferentialDistrust", "args": []}
        ls = sim.run(ctors[0], sim.identity_gargs(ctors[0]), [sim.mk_enum(dty, distrust)], S.State())
        rets = [l for l in ls if l.kind == "return"]
        if len(rets) != 1 or len(ls) != 1:
            raise AnchorMissing("%s::with_distrust(%s) does not simply return" % (name, distrust))
        v = sim.final_value(rets[0].state, rets[0].value)
        for dotted, t, path in layout.leaves(sim, v.ty, stop=("RefCell", "Reference", "SettableData")):
            if D.find_ty(t, "Terminal"):
                continue
            presets[dotted] = layout.get_path(sim, None, v, path)
    dh = D.DeviceHeap(sim, prog, fn, gargs, st, presets)
    a0 = dh.build(config)
    pre = st.copy()
    leaves = sim.run(fn, gargs, [a0], st)
    return fn, leaves, dh, pre


def state_names(prog):
    return [f["name"] for f in prog.adt_by_name("State")["variants"][0]["fields"]]


def read_expectation(conf, i, which):
    """Symbolic pre-update read at terminal i for 'state' | 'cmd': list of candidate (time_sym, value_prefix) it merges/selects from."""
    key = "state" if which == "state" else "cmd"
    pre = "s" if which == "state" else "c"
    out = []
    if conf.get(key):
        out.append((Sym("t%s%d" % (pre, i)), "%s%d" % (pre, i)))
    p = conf.get("partner")
    if p and p.get(key):
        out.append((Sym("t%sp%d" % (pre, i)), "%sp%d" % (pre, i)))
    return out
