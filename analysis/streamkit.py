"""Shared machinery for simulating stream objects: symbolic self, input oracles, case enumeration."""
import itertools
from values import *
from program import subst, ty_str, is_adt, prim, adt_ty, const_val, loc
import sim as S


def gargs_with_consts(sim, fn, consts):
    """Identity generic args with const generics replaced by concrete values {name: n}."""
    out = []
    for g in fn["generics"]:
        if g["kind"] == "type":
            out.append({"k": "param", "name": g["name"], "idx": g["idx"]})
        elif g["kind"] == "const":
            if g["name"] in consts:
                out.append({"k": "const", "c": {"k": "val", "bits": consts[g["name"]]}})
            else:
                out.append({"k": "const", "c": {"k": "param", "name": g["name"], "idx": g["idx"]}})
        else:
            out.append({"k": "region", "r": {"k": "erased"}})
    return out


def time_val(sim, ty, name):
    """Time{ name } with an i64 symbol."""
    return Struct(ty, (Sym(name, prim("i64")),))


def build_output(sim, ret_ty, cat, tag, value=None, time=None):
    """Value of type Output<T,E> (= Result<Option<Datum<T>>, Error<E>>) or TimeOutput<E> for category cat.
    cat: 'E' | 'N' | 'S'.  Symbols are named after tag: e<tag>, t<tag>, v<tag>."""
    ok_ty = ret_ty["args"][0]
    if cat == "E":
        return sim.mk_enum(ret_ty, "Err", [Sym("e" + tag, ret_ty["args"][1])])
    if is_adt(ok_ty, "Time"):
        return sim.mk_enum(ret_ty, "Ok", [time if time is not None else time_val(sim, ok_ty, "t" + tag)])
    if is_adt(ok_ty, "Option"):
        if cat == "N":
            return sim.mk_enum(ret_ty, "Ok", [sim.mk_enum(ok_ty, "None")])
        dty = ok_ty["args"][0]
        fs = sim.adt_fields(dty)
        tty, vty = fs[0][1], fs[1][1]
        t = time if time is not None else time_val(sim, tty, "t" + tag)
        v = value if value is not None else Sym("v" + tag, vty)
        return sim.mk_enum(ret_ty, "Ok", [sim.mk_enum(ok_ty, "Some", [Struct(dty, (t, v))])])
    if ty_str(ok_ty) == "()":
        return sim.mk_enum(ret_ty, "Ok", [UNIT])
    raise S.Unsupported("build_output for " + ty_str(ret_ty))


class Case:
    """One abstract input assignment: label -> (cat, extra)."""
    def __init__(self, assign):
        self.assign = assign

    def key(self):
        return ",".join("%s=%s" % (k, "".join(str(x) for x in v)) for k, v in sorted(self.assign.items()))


def discover_inputs(sim, fn, gargs, self_name="self", extra_args=None, self_value=None):
    """Lazy run: returns ordered list of (label, method, ret_ty) oracle calls seen on any path, and leaves."""
    seen = []
    rets = {}

    def hook(sim_, st, label, method, args, ret_ty, ver):
        if (label, method) not in rets:
            rets[(label, method)] = ret_ty
            seen.append((label, method))
        return None
    old = sim.oracle_hook
    sim.oracle_hook = hook
    st = S.State()
    args = [self_value(sim, st) if self_value else sim.make_arg(st, self_name, subst(fn["sig_inputs"][0], gargs))]
    if extra_args:
        args += extra_args(sim, st)
    leaves = sim.run(fn, gargs, args, st)
    sim.oracle_hook = old
    return [(l, m, rets[(l, m)]) for (l, m) in seen], leaves


def field_order(sim, self_ty):
    """Labels of the Reference-typed inputs of a stream struct in declaration order (found through private sub-structs, newtypes
    and tuples: layout.leaves); arrays expand by index."""
    import layout
    out = []
    for name, ty, _path in layout.leaves(sim, self_ty, stop=("Reference", "SettableData")):
        if is_adt(ty, "Reference"):
            out.append("*self." + name)
        elif ty.get("k") == "array" and is_adt(ty["ty"], "Reference"):
            n = const_val(ty["len"])
            for i in range(n or 0):
                out.append("*self.%s[%d]" % (name, i))
    return out


def run_case(sim, fn, gargs, assign, self_name="self", self_value=None, extra_args=None, bool_payload=None):
    """Run fn with oracle results fixed by assign: label -> dict(cat=..., value=..., time=...)."""
    unexpected = []

    def hook(sim_, st, label, method, args, ret_ty, ver):
        a = assign.get((label, method)) or assign.get(label)
        if a is None:
            unexpected.append((label, method))
            return None
        return build_output(sim_, ret_ty, a["cat"], a["tag"], a.get("value"), a.get("time"))
    old = sim.oracle_hook
    sim.oracle_hook = hook
    st = S.State()
    args = [self_value(sim, st) if self_value else sim.make_arg(st, self_name, subst(fn["sig_inputs"][0], gargs))]
    if extra_args:
        args += extra_args(sim, st)
    self_obj = args[0].ptr.obj if isinstance(args[0], Ref) else None
    init_self = st.mem.get(self_obj) if self_obj else None
    leaves = sim.run(fn, gargs, args, st)
    sim.oracle_hook = old
    return leaves, unexpected, self_obj, init_self


def time_sym(tag):
    return Sym("t" + tag, prim("i64"))


def time_of(sim, st, v):
    """i64 value inside a Time value."""
    v = sim.expand(st, sim.resolve(st, v))
    if isinstance(v, Struct) and len(v.fields) == 1:
        return sim.resolve(st, v.fields[0])
    return v


def no_candidate_newer(sim, st, out_t, cands):
    """True iff under st's path condition out_t >= every candidate (in all models)."""
    for c in cands:
        d = int_sub(out_t, c)
        if isinstance(d, Const):
            if d.val < 0:
                return False
            continue
        key, flip = sim.canon_int(d)
        allowed = sim.int_allowed(st, key)
        bad = ">" if flip else "<"
        if bad in allowed:
            return False
    return True


def refold_symbol(sim, st, x):
    """An enum value rebuilt variant by variant from one symbol (a derived Clone: `match e {Other(v) => Other(v), FromNone =>
    FromNone}`) IS that symbol on the path that fixed the variant; give it back its name so that provenance comparisons
    (`the error returned is the input's error`) do not depend on whether the code copied or cloned it."""
    if not isinstance(x, Enum):
        return x
    cands = [p[1] for p in st.pc if p[0] == "variant" and p[2] == x.vname and isinstance(p[1], str)]
    good = []
    for name in dict.fromkeys(cands):
        try:
            if sim.final_value(st, Sym(name, x.ty)) == x:
                good.append(name)
        except Exception:
            pass
    if len(good) == 1:
        return Sym(good[0], x.ty)
    return x


def classify_output(sim, st, v):
    """Output<T,E> value -> ('E', e) | ('N',) | ('S', time_i64, payload) ; None if undetermined."""
    v = sim.final_value(st, v)
    if not isinstance(v, Enum):
        return None
    if v.vname == "Err":
        return ("E", refold_symbol(sim, st, v.fields[0]))
    o = v.fields[0]
    if isinstance(o, Enum):
        if o.vname == "None":
            return ("N",)
        d = o.fields[0]
        if isinstance(d, Struct):
            t = d.fields[0]
            t = t.fields[0] if isinstance(t, Struct) and len(t.fields) == 1 else t
            return ("S", t, d.fields[1])
    if isinstance(o, Struct) and len(o.fields) == 1:   # TimeOutput: Ok(Time)
        return ("T", o.fields[0])
    if isinstance(o, Struct) and not o.fields:
        return ("U",)
    return None


def mutating_effects(effects):
    bad = []
    for e in effects:
        if e[0] in ("ref_borrow_mut", "borrow_mut"):
            bad.append(e)
        elif e[0] == "call":
            m = e[2].split("::")[-1]
            if m in S.MUTATING_METHODS:
                bad.append(e)
    return bad


def leaf_site(leaf):
    i = leaf.info
    return "%s @ %s" % (i.get("fn"), loc(i.get("span")))


def time_arith(leaf):
    """Overflow-guarded integer arithmetic on symbolic operands performed on this path (timestamps are the only symbolic
    integers in the selection / combination code).  Selecting or combining by time must COMPARE timestamps, not subtract
    them: the quantifiers include near-extreme i64 values (Time(i64::MIN) is the crate's own 'no data yet' seed), where a
    difference overflows - a panic in debug builds, a wrong order in release builds."""
    return [a for a in leaf.state.arith]
