"""Static (non-simulating) walks over MIR facts: place typing, field-write index, call graph."""
from program import is_adt, ty_str


def iter_bodies(prog):
    for f in prog.facts["fns"]:
        if "body" in f:
            yield f, f["body"], "body"
            for i, p in enumerate(f.get("promoted", [])):
                yield f, p, "promoted%d" % i


def prefix_types(body, place):
    """Types of the place before each projection step, then the final type (identity generics)."""
    t = body["locals"][place["l"]]["ty"]
    out = [t]
    for p in place["p"]:
        k = p["k"]
        if t is None:
            out.append(None)
            continue
        if k == "deref":
            if t.get("k") in ("ref", "ptr"):
                t = t["ty"]
            elif is_adt(t, "Box"):
                t = t["args"][0]
            else:
                t = None
        elif k == "field":
            t = p["ty"]
        elif k in ("index", "cindex"):
            t = t["ty"] if t.get("k") in ("array", "slice") else None
        elif k == "subslice":
            pass
        elif k == "downcast":
            pass
        else:
            t = None
        out.append(t)
    return out


def place_touches_field(body, place, adt_did, field_idx):
    tys = prefix_types(body, place)
    for i, p in enumerate(place["p"]):
        if p["k"] == "field" and p["i"] == field_idx:
            c = tys[i]
            if c is not None and c.get("k") == "adt" and c["did"] == adt_did:
                return True
    return False


def type_contains_adt(prog, t, adt_did, depth=0, seen=None):
    """Does a value of type t contain a value of the ADT (by value: through fields, tuples, arrays, generic arguments of
    transparent wrappers such as Option; not through references or raw pointers)?"""
    if t is None or depth > 6:
        return False
    k = t.get("k")
    if k == "adt":
        if t["did"] == adt_did:
            return True
        seen = seen or set()
        if t["did"] in seen:
            return False
        seen = seen | {t["did"]}
        a = prog.adt(t["did"]) if hasattr(prog, "adt") else None
        if a is not None and not a.get("opaque"):
            for v in a["variants"]:
                for f in v["fields"]:
                    if type_contains_adt(prog, f["ty"], adt_did, depth + 1, seen):
                        return True
        return any(type_contains_adt(prog, x, adt_did, depth + 1, seen) for x in t.get("args", []) if x.get("k") not in ("region", "const")) \
            if (a is None or not a.get("opaque") or t.get("name") in ("Option", "Result", "MaybeUninit", "RefCell", "Cell")) else False
    if k in ("array", "slice"):
        return type_contains_adt(prog, t["ty"], adt_did, depth + 1, seen)
    if k == "tuple":
        return any(type_contains_adt(prog, x, adt_did, depth + 1, seen) for x in t["tys"])
    return False


def place_overwrites_enclosing(prog, body, place, adt_did):
    """A store through a deref/field projection whose target type contains the ADT by value replaces every field of it
    (`*self = Self::new_raw()`), although no projection names the field."""
    if not place["p"]:
        return False
    tys = prefix_types(body, place)
    return type_contains_adt(prog, tys[-1], adt_did)


def field_write_sites(prog, adt_did, field_idx):
    """[(fn, kind, span)] of every statement that stores to / takes a mutable reference of the given field, or builds the ADT."""
    out = []
    for fn, body, tag in iter_bodies(prog):
        for bb in body["blocks"]:
            if bb["cleanup"]:
                continue
            for s in bb["stmts"]:
                if s["k"] == "assign":
                    if place_touches_field(body, s["place"], adt_did, field_idx):
                        out.append((fn, "store", s.get("span")))
                    elif place_overwrites_enclosing(prog, body, s["place"], adt_did):
                        out.append((fn, "overwrite of an enclosing object", s.get("span")))
                    rv = s["rv"]
                    if rv["k"] in ("ref", "rawptr") and (rv.get("mut") or "Mut" in rv.get("kind", "")) and place_touches_field(body, rv["place"], adt_did, field_idx):
                        out.append((fn, "mutable reference", s.get("span")))
                    if rv["k"] == "aggr" and rv.get("ak") == "adt" and rv["did"] == adt_did:
                        out.append((fn, "constructor", s.get("span")))
                elif s["k"] == "setdiscr" and place_touches_field(body, s["place"], adt_did, field_idx):
                    out.append((fn, "store", s.get("span")))
            t = bb["term"]
            if t["k"] == "call" and place_touches_field(body, t["dest"], adt_did, field_idx):
                out.append((fn, "store (call result)", t.get("span")))
            elif t["k"] == "call" and place_overwrites_enclosing(prog, body, t["dest"], adt_did):
                out.append((fn, "overwrite of an enclosing object (call result)", t.get("span")))
    return out


def calls_in(body):
    for bi, bb in enumerate(body["blocks"]):
        if bb["cleanup"]:
            continue
        t = bb["term"]
        if t["k"] == "call" and t["func"].get("ck") == "fn":
            yield bi, t, t["func"]["fn"], t["func"].get("resolved")


def callee_name(fnj, res):
    tgt = res["fn"] if res else fnj
    return tgt["pretty"]


# ------------------------------------------------------------------------------------------------
# operands / places enumeration

def operands_of_rvalue(rv):
    k = rv["k"]
    if k in ("use", "repeat", "cast"):
        return [rv["op"]]
    if k == "binop":
        return [rv["a"], rv["b"]]
    if k == "unop":
        return [rv["a"]]
    if k == "aggr":
        return list(rv["ops"])
    return []


def places_of_rvalue(rv):
    out = [o["place"] for o in operands_of_rvalue(rv) if o["k"] in ("copy", "move")]
    if rv["k"] in ("ref", "rawptr", "discr"):
        out.append(rv["place"])
    return out


def all_places(body):
    """Yield (block index, kind, place, span) for every place read or written in the body (non-cleanup blocks)."""
    for bi, bb in enumerate(body["blocks"]):
        if bb["cleanup"]:
            continue
        for s in bb["stmts"]:
            if s["k"] == "assign":
                yield bi, "write", s["place"], s.get("span")
                for p in places_of_rvalue(s["rv"]):
                    yield bi, "read", p, s.get("span")
            elif s["k"] == "setdiscr":
                yield bi, "write", s["place"], s.get("span")
        t = bb["term"]
        if t["k"] == "call":
            for a in t["args"]:
                if a["k"] in ("copy", "move"):
                    yield bi, "read", a["place"], t.get("span")
            yield bi, "write", t["dest"], t.get("span")
            if t["func"]["k"] in ("copy", "move"):
                yield bi, "read", t["func"]["place"], t.get("span")
        elif t["k"] == "switch" and t["discr"]["k"] in ("copy", "move"):
            yield bi, "read", t["discr"]["place"], t.get("span")
        elif t["k"] == "drop":
            yield bi, "read", t["place"], t.get("span")


def local_defs(body):
    """local -> list of ('rv', rvalue, span) | ('call', terminator) for whole-local assignments."""
    defs = {}
    for bb in body["blocks"]:
        if bb["cleanup"]:
            continue
        for s in bb["stmts"]:
            if s["k"] == "assign" and not s["place"]["p"]:
                defs.setdefault(s["place"]["l"], []).append(("rv", s["rv"], s.get("span")))
        t = bb["term"]
        if t["k"] == "call" and not t["dest"]["p"]:
            defs.setdefault(t["dest"]["l"], []).append(("call", t, t.get("span")))
    return defs


def origins(body, local, defs=None, depth=0, seen=None):
    """Provenance of a local: set of descriptors
       ('arg', i) | ('addr', root_origins, field_path) | ('load', container_ty, proj_desc, root_origins) | ('call', pretty, unsafe) |
       ('static', did, mutable) | ('const',) | ('unknown',)"""
    defs = defs or local_defs(body)
    seen = seen or set()
    if local in seen or depth > 40:
        return {("unknown",)}
    seen = seen | {local}
    if 1 <= local <= body["arg_count"]:
        return {("arg", local)}
    out = set()
    for d in defs.get(local, []):
        if d[0] == "call":
            t = d[1]
            f = t["func"]
            if f.get("ck") == "fn":
                tgt = (f.get("resolved") or {}).get("fn") or f["fn"]
                argo = frozenset(x for a in t["args"] if a["k"] in ("copy", "move") for x in origins(body, a["place"]["l"], defs, depth + 1, seen))
                out.add(("call", tgt["pretty"], bool(f["fn"].get("unsafe")), argo))
            else:
                out.add(("unknown",))
            continue
        rv = d[1]
        k = rv["k"]
        if k in ("use", "cast"):
            op = rv["op"]
            if op["k"] in ("copy", "move"):
                out |= place_origin(body, op["place"], defs, depth, seen)
            elif op["k"] == "const":
                if op.get("ck") == "static":
                    out.add(("static", op["did"], op.get("mutable", False)))
                else:
                    out.add(("const",))
            else:
                out.add(("unknown",))
        elif k in ("ref", "rawptr"):
            pl = rv["place"]
            root = origins(body, pl["l"], defs, depth + 1, seen)
            out.add(("addr", frozenset(root), last_field_desc(body, pl)))
        elif k == "aggr":
            o = set()
            for op in rv["ops"]:
                if op["k"] in ("copy", "move"):
                    o |= place_origin(body, op["place"], defs, depth, seen)
            out |= o or {("const",)}
        else:
            out.add(("unknown",))
    return out or {("unknown",)}


def last_field_desc(body, place):
    """(container ADT name, variant name, field index) of the last field step of a place, or None."""
    tys = prefix_types(body, place)
    for i in range(len(place["p"]) - 1, -1, -1):
        p = place["p"][i]
        if p["k"] == "field":
            c = tys[i]
            variant = None
            if i > 0 and place["p"][i - 1]["k"] == "downcast":
                variant = place["p"][i - 1].get("name")
                c = tys[i - 1]
            if c is not None and c.get("k") == "adt":
                return (c["name"], variant, p["i"])
            return None
    return None


def place_origin(body, place, defs, depth, seen):
    """Provenance of the value stored at a place (a load)."""
    root = origins(body, place["l"], defs, depth + 1, seen)
    if not place["p"]:
        return root
    desc = last_field_desc(body, place)
    if desc is None:
        # pure derefs: value loaded from the location the root pointer addresses
        out = set()
        for o in root:
            if o[0] == "addr" and o[2] is not None:
                out.add(("load", o[2], o[1]))
            else:
                out.add(("load", None, frozenset([o])))
        return out
    return {("load", desc, frozenset(root))}


def unsafe_ops(prog):
    """[(fn, kind, detail, span)] unsafe operations per function: raw pointer dereferences, calls to unsafe fns, static mut access."""
    out = []
    for fn, body, tag in iter_bodies(prog):
        defs = None
        for bi, kind, place, span in all_places(body):
            tys = prefix_types(body, place)
            for i, p in enumerate(place["p"]):
                if p["k"] == "deref" and tys[i] is not None and tys[i].get("k") == "ptr":
                    if defs is None:
                        defs = local_defs(body)
                    if i == 0:
                        org = origins(body, place["l"], defs)
                    else:
                        org = place_origin(body, {"l": place["l"], "p": place["p"][:i]}, defs, 0, set())
                    out.append((fn, "raw-deref", {"origins": org, "local": place["l"], "access": kind}, span))
        for bi, t, fnj, res in calls_in(body):
            tgt = res["fn"] if res else fnj
            if fnj.get("unsafe") or tgt.get("unsafe"):
                if defs is None:
                    defs = local_defs(body)
                argo = []
                for a in t["args"]:
                    if a["k"] in ("copy", "move"):
                        argo.append(place_origin(body, a["place"], defs, 0, set()))
                    elif a["k"] == "const" and a.get("ck") == "static":
                        argo.append({("static", a["did"], a.get("mutable", False))})
                    else:
                        argo.append({("const",)})
                out.append((fn, "unsafe-call", {"callee": tgt["pretty"], "arg_origins": argo}, t.get("span")))
        for bb in body["blocks"]:
            if bb["cleanup"]:
                continue
            for s in bb["stmts"]:
                if s["k"] == "assign":
                    for op in operands_of_rvalue(s["rv"]):
                        if op["k"] == "const" and op.get("ck") == "static" and op.get("mutable"):
                            out.append((fn, "static-mut", {"did": op["did"]}, s.get("span")))
    return out


def flatten_origins(org):
    """All leaf descriptors reachable inside nested origin sets."""
    res = set()
    for o in org:
        if o[0] == "addr":
            res.add(("addr", o[2]))
            res |= flatten_origins(o[1])
        elif o[0] == "load":
            res.add(("load", o[1]))
            res |= flatten_origins(o[2])
        elif o[0] == "call":
            res.add(("call", o[1]))
            if len(o) > 3:
                res |= flatten_origins(o[3])
        else:
            res.add(o)
    return res



def callers_index(prog):
    """callee did -> set of caller fn dids (resolved target, else the named callee)."""
    idx = {}
    for fn, body, tag in iter_bodies(prog):
        for bi, t, fnj, res in calls_in(body):
            tgt = res["fn"] if res else fnj
            idx.setdefault(tgt["did"], set()).add(fn["did"])
    return idx


def private_helper_of(prog, fn, allowed_pred, idx=None, depth=0):
    """True iff fn is a non-exported function all of whose call sites lie (transitively) inside allowed functions."""
    idx = idx if idx is not None else callers_index(prog)
    if fn.get("exported", True) or depth > 4:
        return False
    callers = idx.get(fn["did"], set())
    if not callers:
        return False
    for c in callers:
        cf = prog.fns.get(c)
        if cf is None:
            return False
        if not (allowed_pred(cf) or private_helper_of(prog, cf, allowed_pred, idx, depth + 1)):
            return False
    return True


def helper_roots(prog, fn, allowed_pred, idx=None, depth=0):
    """Names of the allowed functions on whose behalf a private helper acts (its transitive callers that satisfy allowed_pred)."""
    idx = idx if idx is not None else callers_index(prog)
    out = set()
    if depth > 4:
        return out
    for c in idx.get(fn["did"], set()):
        cf = prog.fns.get(c)
        if cf is None:
            continue
        if allowed_pred(cf):
            out.add(cf["name"])
        elif not cf.get("exported", True):
            out |= helper_roots(prog, cf, allowed_pred, idx, depth + 1)
    return out
