"""Static (non-simulating) walks over MIR facts: place typing, field-write index, call graph."""
from program import is_adt, ty_str


def iter_bodies(prog):
    for f in prog.facts["fns"]:
        if "body" in f:
            yield f, f["body"], "body"
            for i, p in enumerate(f.get("promoted", [])):
                yield f, p, "promoted%d" % i


def prefix_types(body, place):
    """Types of the place before each projection step, then the final type (identity generics)."""
    t = body["locals"][place["l"]]["ty"]
    out = [t]
    for p in place["p"]:
        k = p["k"]
        if t is None:
            out.append(None)
            continue
        if k == "deref":
            if t.get("k") in ("ref", "ptr"):
                t = t["ty"]
            elif is_adt(t, "Box"):
                t = t["args"][0]
            else:
                t = None
        elif k == "field":
            t = p["ty"]
        elif k in ("index", "cindex"):
            t = t["ty"] if t.get("k") in ("array", "slice") else None
        elif k == "subslice":
            pass
        elif k == "downcast":
            pass
        else:
            t = None
        out.append(t)
    return out


def place_touches_field(body, place, adt_did, field_idx):
    tys = prefix_types(body, place)
    for i, p in enumerate(place["p"]):
        if p["k"] == "field" and p["i"] == field_idx:
            c = tys[i]
            if c is not None and c.get("k") == "adt" and c["did"] == adt_did:
                return True
    return False


def field_write_sites(prog, adt_did, field_idx):
    """[(fn, kind, span)] of every statement that stores to / takes a mutable reference of the given field, or builds the ADT."""
    out = []
    for fn, body, tag in iter_bodies(prog):
        for bb in body["blocks"]:
            if bb["cleanup"]:
                continue
            for s in bb["stmts"]:
                if s["k"] == "assign":
                    if place_touches_field(body, s["place"], adt_did, field_idx):
                        out.append((fn, "store", s.get("span")))
                    rv = s["rv"]
                    if rv["k"] in ("ref", "rawptr") and (rv.get("mut") or "Mut" in rv.get("kind", "")) and place_touches_field(body, rv["place"], adt_did, field_idx):
                        out.append((fn, "mutable reference", s.get("span")))
                    if rv["k"] == "aggr" and rv.get("ak") == "adt" and rv["did"] == adt_did:
                        out.append((fn, "constructor", s.get("span")))
                elif s["k"] == "setdiscr" and place_touches_field(body, s["place"], adt_did, field_idx):
                    out.append((fn, "store", s.get("span")))
            t = bb["term"]
            if t["k"] == "call" and place_touches_field(body, t["dest"], adt_did, field_idx):
                out.append((fn, "store (call result)", t.get("span")))
    return out


def calls_in(body):
    for bi, bb in enumerate(body["blocks"]):
        if bb["cleanup"]:
            continue
        t = bb["term"]
        if t["k"] == "call" and t["func"].get("ck") == "fn":
            yield bi, t, t["func"]["fn"], t["func"].get("resolved")


def callee_name(fnj, res):
    tgt = res["fn"] if res else fnj
    return tgt["pretty"]
