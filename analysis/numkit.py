"""Helpers for the numeric-stream properties (C04, C10, C11, C12): chained update simulation, affine-time typing,
term collection and real-arithmetic comparison."""
from values import *
from program import subst, ty_str, is_adt, prim, AnchorMissing, loc
import sim as S
import streamkit as K
import algebra as A
import sympy as sp


def subterms(v, acc=None):
    acc = acc if acc is not None else []
    acc.append(v)
    if isinstance(v, Term):
        for a in v.args:
            subterms(a, acc)
    elif isinstance(v, Lin):
        for a, _ in v.terms:
            subterms(a, acc)
    elif isinstance(v, (Struct, Enum)):
        for f in v.fields:
            subterms(f, acc)
    elif isinstance(v, Array):
        for f in v.elems:
            subterms(f, acc)
    elif isinstance(v, Opaque) and v.kind == "List":
        for f in v.data[0]:
            subterms(f, acc)
    return acc


def absolute_time_casts(v, is_time_atom):
    """Int->float casts whose argument is not a pure difference of absolute times (coefficient sum over time atoms != 0).
    Such a cast converts an absolute timestamp to f32: the result then depends on the time origin (no shift invariance)
    and loses precision at large uptimes."""
    bad = []
    for t in subterms(v):
        if isinstance(t, Term) and t.op == "Cast:IntToFloat":
            x = t.args[0]
            if isinstance(x, Const):
                continue
            if isinstance(x, Lin):
                s = sum(k for a, k in x.terms if is_time_atom(a))
                if s != 0:
                    bad.append(t)
            elif is_time_atom(x):
                bad.append(t)
    return bad


def time_atom_pred(prefixes):
    def f(a):
        r = repr(a)
        return isinstance(a, Sym) and any(r == p or r.startswith(p) for p in prefixes)
    return f


def update_with(sim, fn, gargs, st, oid, cat, tag, value=None, time=None):
    """Run update on the object oid in state st (copied) with the input oracle returning category cat."""
    st2 = st.copy()
    st2.frames = []
    st2.effects = []
    st2.oracle = {}   # a new round: the inputs may return something new

    def hook(sim_, st_, label, method, args, ret_ty, ver):
        return K.build_output(sim_, ret_ty, cat, tag, value, time)
    old = sim.oracle_hook
    sim.oracle_hook = hook
    leaves = sim.run(fn, gargs, [Ref(Ptr(oid), True)], st2)
    sim.oracle_hook = old
    return leaves


def get_on(sim, fn, gargs, st, oid):
    st2 = st.copy()
    st2.frames = []
    st2.effects = []
    old = sim.oracle_hook
    sim.oracle_hook = None
    leaves = sim.run(fn, gargs, [Ref(Ptr(oid), False)], st2)
    sim.oracle_hook = old
    return leaves


def fresh_object(sim, prog, name, new_fn=None, arg_names=None, arg_values=None):
    """State with one object holding the value built by the constructor (symbolic arguments)."""
    if new_fn is None:
        news = [f for f in prog.find_fns(name="new", self_name=name) if not f.get("impl_trait")]
        if not news:
            raise AnchorMissing("constructor of " + name)
        new_fn = news[0]
    st = S.State()
    gargs = sim.identity_gargs(new_fn)
    names = [x["name"] for x in new_fn["body"]["names"]]
    args = []
    for i, t in enumerate(new_fn["sig_inputs"]):
        nm = names[i] if i < len(names) else "arg%d" % i
        if arg_values and nm in arg_values:
            args.append(arg_values[nm])
        else:
            args.append(Sym(nm, subst(t, gargs)))
    ls = [l for l in sim.run(new_fn, gargs, args, st) if l.kind == "return"]
    if len(ls) != 1:
        raise AnchorMissing("constructor of %s: %d returning paths" % (name, len(ls)))
    st2 = ls[0].state.copy()
    st2.frames = []
    v = sim.final_value(st2, ls[0].value)
    oid = st2.new_obj("self", v)
    st2.labels[oid] = "self"
    return st2, oid, v


def ns(sym_name):
    """sympy seconds for an i64 nanosecond symbol."""
    return A.sym(sym_name) / 10**9


def homogeneous(expr, symbols, lam=None):
    """True iff expr is degree-1 homogeneous in the given sympy symbols."""
    lam = lam or sp.Symbol("lam", positive=True)
    scaled = expr.subs({s: lam * s for s in symbols}, simultaneous=True)
    return A.equal(scaled, lam * expr)



LOSSY_OPS = ("IDiv", "IRem", "Cast:FloatToInt", "Idiv_euclid", "Irem_euclid", "Cast:IntTrunc")


def lossy_ops(v):
    """Truncating / rounding-to-integer operators occurring in a value graph. The real-arithmetic model treats them as exact,
    so a formula that is supposed to be a pure float computation must not contain any (integer division of a nanosecond count
    before the conversion to seconds silently drops up to one unit)."""
    return [t for t in subterms(v) if isinstance(t, Term) and t.op in LOSSY_OPS]


def scaled_absolutes(v, is_sample):
    """Conditioning of difference quotients: for an output that is invariant under adding a constant to all samples (a difference
    quotient), the samples must be subtracted BEFORE anything is scaled.  Returns the Mul/Div subterms that scale an absolute sample
    value (x_new / dt - x_old / dt): algebraically the same number, but its rounding error grows with |x| / dt instead of with the
    difference, i.e. it is unbounded relative to the result when the samples are large compared with their change."""
    bad = []

    def typ(x):
        if isinstance(x, Sym):
            return "abs" if is_sample(x.name) else "k"
        if isinstance(x, Const) or isinstance(x, Lin):
            return "k"
        if not isinstance(x, Term):
            return "k"
        ts = [typ(a) for a in x.args]
        if x.op == "Neg":
            return ts[0]
        if x.op in ("Add", "Sub") and len(ts) == 2:
            a, b = ts
            if a == "k" and b == "k":
                return "k"
            if a == "abs" and b == "abs":
                return "diff" if x.op == "Sub" else "abs"
            if "abs" in (a, b):
                return "abs"
            return "diff"
        if x.op in ("Mul", "Div") and len(ts) == 2:
            if "abs" in ts:
                bad.append(x)
                return "abs"
            return "diff" if "diff" in ts else "k"
        return "abs" if "abs" in ts else ("diff" if "diff" in ts else "k")
    typ(v)
    return bad
