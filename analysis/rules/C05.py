"""C05: stateful streams - no stale errors, reset erases history, absent samples ignored, get is pure.

Every stateful stream's update() is abstractly interpreted from a fully symbolic pre-state (each field an unknown,
split on demand) under each input category {Err(e0), None, Some(t0,v0)}; get() is interpreted on each resulting
post-state.  Obligations (per stream):
  O1 no stale error: get()/update() yield Err(x) only if the input of that update returned Err(x);
  O2 reset = fresh: after a documented reset event every history field equals the constructor's value, the cache is
     Ok(None) or the input's error, and a cached Err behaves exactly like Ok(None) in the next update;
  O3 ignore-absent: an absent sample changes nothing (except clearing a cached error);
  O4 get is pure and a function of state only;
  O5 freeze machine; O6 pass-through converters cache exactly the (mapped) input outcome.
"""
from values import *
from program import load_config, subst, ty_str, is_adt, prim, AnchorMissing, loc
import sim as S
import streamkit as K
import models as M

STREAMS = {
    "PIDControllerStream": dict(reset={"N", "E"}, absent=False),
    "CommandPID": dict(reset={"N"}, absent=False, no_follow=True),
    "EWMAStream": dict(reset={"E"}, absent=True),
    "MovingAverageStream": dict(reset={"E"}, absent=True, lists=True),
    "IntegralStream": dict(reset={"N", "E"}, absent=False),
    "DerivativeStream": dict(reset={"N", "E"}, absent=False),
    "AccelerationToState": dict(reset={"E"}, absent=True),
    "VelocityToState": dict(reset={"E"}, absent=True),
    "PositionToState": dict(reset={"E"}, absent=True),
}
PASS = ["FloatToQuantity", "QuantityToFloat"]


def is_cache_ty(t):
    return is_adt(t, "Result") and is_adt(t["args"][0], "Option") and is_adt(t["args"][1], "Error")


def is_input_field(t):
    return is_adt(t, "Reference") or is_adt(t, "PhantomData")


def impl_pairs(prog, name):
    ups = prog.find_fns(name="update", self_name=name, trait="Updatable")
    gets = prog.find_fns(name="get", self_name=name, trait="Getter")
    if not ups or not gets:
        raise AnchorMissing("update/get impls of " + name)
    pairs = []
    for u in ups:
        g = [x for x in gets if ty_str(x["impl_self"]) == ty_str(u["impl_self"])]
        if not g:
            raise AnchorMissing("get impl matching %s" % u["pretty"])
        pairs.append((u, g[0]))
    return pairs


class Flat:
    """Flattened view of a stream object: fields of PRIVATE helper structs (implementation detail: a group of history fields moved
    into a non-exported sub-struct) are spliced in place, so the per-field rules see the same leaves either way."""
    def __init__(self, fields, ty):
        self.fields, self.ty = fields, ty


def private_struct_ty(sim, t):
    if not (t and t.get("k") == "adt"):
        return False
    a = sim.prog.adt(t["did"])
    return bool(a) and a.get("kind") == "struct" and a.get("local") and not a.get("exported") and not a.get("opaque") \
        and not is_adt(t, "SettableData") and not is_cache_ty(t)


def flat_names(sim, sty, prefix=""):
    out = []
    for n, t in sim.adt_fields(sty):
        if private_struct_ty(sim, t):
            out += flat_names(sim, t, prefix + n + ".")
        else:
            out.append((prefix + n, t))
    return out


def flat(sim, st, v):
    v = sim.expand(st, v) if st is not None else v
    if not isinstance(v, Struct):
        return Flat([v], getattr(v, "ty", None))
    out = []
    for f, (n, t) in zip(v.fields, sim.adt_fields(v.ty)):
        if private_struct_ty(sim, t):
            out += flat(sim, st, f).fields
        else:
            out.append(f)
    return Flat(out, v.ty)


def unflat(sim, sty, vals):
    """inverse of flat for a given struct type; consumes from the list `vals`"""
    fs = []
    for n, t in sim.adt_fields(sty):
        if private_struct_ty(sim, t):
            fs.append(unflat(sim, t, vals))
        else:
            fs.append(vals.pop(0))
    return Struct(sty, fs)


def self_struct(sim, st, fn, gargs, conf, list_len=None):
    """Symbolic self value (Struct of field symbols) with per-stream presets; names are the flattened leaves."""
    sty = subst(fn["sig_inputs"][0], gargs)["ty"]
    v = sim.expand(st, Sym("self", sty))
    names = flat_names(sim, sty)
    fields = list(flat(sim, st, v).fields)
    for i, (n, t) in enumerate(names):
        if conf.get("no_follow") and is_adt(t, "SettableData"):
            # not following, holding a symbolic last request (built by the crate's own constructor and set())
            import sdkit
            fields[i] = sdkit.kit(sim, sim.prog).make(t, following=None, request=Sym("self.%s.request" % n, t["args"][0]))
        if list_len is not None and is_adt(t, "VecDeque"):
            et = t["args"][0]
            fields[i] = M.mk_list([Sym("self.%s[%d]" % (n, k), et) for k in range(list_len)], t)
    return unflat(sim, sty, list(fields)), names


def same_err(sim, st, got, name="e0"):
    """got is the input's error `name`, possibly rebuilt variant by variant (a derived Clone) under the path condition of st"""
    if got == Sym(name):
        return True
    ety = getattr(got, "ty", None)
    if ety is None:
        return False
    try:
        return sim.final_value(st, got) == sim.final_value(st, Sym(name, ety))
    except S.Unsupported:
        return False


def run_update(sim, fn, gargs, cat, self_val, st=None, oid=None, tag="0"):
    if st is None:
        st = S.State()
        oid = st.new_obj("self", self_val)
        st.labels[oid] = "self"
    else:
        st = st.copy()
        st.frames = []
        st.effects = []
        st.oracle = {}   # a new round: the input may return something new
        if self_val is not None:
            st.mem[oid] = self_val
    a0 = Ref(Ptr(oid), True)
    assign = {}

    def hook(sim_, st_, label, method, args, ret_ty, ver):
        return K.build_output(sim_, ret_ty, cat, tag)
    old = sim.oracle_hook
    sim.oracle_hook = hook
    leaves = sim.run(fn, gargs, [a0], st)
    sim.oracle_hook = old
    return leaves, oid


def run_get_after(sim, getfn, gargs, leaf, oid):
    st = leaf.state.copy()
    st.frames = []
    st.effects = []
    old = sim.oracle_hook
    sim.oracle_hook = None
    ls = sim.run(getfn, gargs, [Ref(Ptr(oid), False)], st)
    sim.oracle_hook = old
    return ls


def behaviour(sim, up, get, gargs, ggargs, st, oid, self_val):
    """One-step behaviour of the stream state `self_val` (None: the state in st): for each input category, the set of
    (path, update's return, what get() then returns, successor state)."""
    out = {}
    for cat in ("E", "N", "S"):
        o = set()
        ls, _ = run_update(sim, up, gargs, cat, self_val, st=st, oid=oid, tag="1")
        for l in ls:
            if l.kind != "return":
                o.add((repr(l.pc), l.kind, str(l.info.get("msg")), ""))
                continue
            gets = sorted(repr(sim.final_value(g.state, g.value)) if g.kind == "return" else g.kind for g in run_get_after(sim, get, ggargs, l, oid))
            o.add((repr(l.pc), repr(sim.final_value(l.state, l.value)), repr(gets), repr(sim.final_value(l.state, l.state.mem[oid]))))
        out[cat] = o
    return out


def constructor_state(sim, prog, name, self_ty_str):
    news = [f for f in prog.find_fns(name="new", self_name=name) if not f.get("impl_trait")]
    if not news:
        raise AnchorMissing("constructor of " + name)
    fn = news[0]
    st = S.State()
    gargs = sim.identity_gargs(fn)
    args = [Sym("arg%d" % i, subst(t, gargs)) for i, t in enumerate(fn["sig_inputs"])]
    ls = sim.run(fn, gargs, args, st)
    ls = [l for l in ls if l.kind == "return"]
    if len(ls) != 1:
        raise AnchorMissing("constructor of %s does not have a single return leaf" % name)
    return sim.final_value(ls[0].state, ls[0].value)


def depends_on_args(v):
    return "arg" in repr(v)


def check_stream(chk, prog, sim, name, conf):
    for (up, get) in impl_pairs(prog, name):
        tag = "%s[%s]" % (name, ty_str(up["impl_self"]))
        chk.analysed(up["pretty"])
        chk.analysed(get["pretty"])
        gargs = sim.identity_gargs(up)
        ggargs = sim.identity_gargs(get)
        s0 = flat(sim, None, constructor_state(sim, prog, name, None))
        lens = [None]
        if conf.get("lists"):
            lens = [0, 1, 2] if chk.tier == "quick" else [0, 1, 2, 3]
        keys = {k: "%s:%s" % (k, tag) for k in ("O1", "O2", "O3", "O4")}
        for k, v in keys.items():
            if k == "O3" and not conf["absent"]:
                continue
            chk.obligation(v, "%s of %s" % (k, tag))
        bad = set()
        for ll in lens:
            for cat in ("E", "N", "S"):
                st0 = S.State()
                sv, names = self_struct(sim, st0, up, gargs, conf, ll)
                leaves, oid = run_update(sim, up, gargs, cat, sv)
                cache_idx = [i for i, (n, t) in enumerate(names) if is_cache_ty(t)]
                for leaf in leaves:
                    casekey = "%s in=%s%s" % (tag, cat, "" if ll is None else " len=%d" % ll)
                    chk.evaluated(1, nontrivial=(casekey, repr(leaf.pc)))
                    if leaf.kind == "unsupported":
                        chk.violation("analysis-incomplete", keys["O1"], "simulator cannot model %s: %s" % (casekey, leaf.info["msg"]), site=K.leaf_site(leaf))
                        bad.update(keys.values())
                        continue
                    if leaf.kind in ("panic", "ub"):
                        # panics on unreachable symbolic pre-states are not C05's business (C12 inventories panic sites)
                        continue
                    stl = leaf.state
                    pre = flat(sim, None, sim.final_value(stl, sv))
                    post = flat(sim, None, sim.final_value(stl, stl.mem[oid]))
                    ret = K.classify_output(sim, stl, leaf.value)
                    e0 = Sym("e0")
                    # ---- O1 (update's own return)
                    if ret and ret[0] == "E" and not (cat == "E" and same_err(sim, stl, ret[1])):
                        chk.violation("C05.O1", "%s:update-ret:in=%s" % (tag, cat), "%s::update returns Err(%r) although the input returned %s" % (tag, ret[1], cat),
                                      fn=up["pretty"], file=loc(up["span"]), path=leaf.pc)
                        bad.add(keys["O1"])
                    if cat == "E" and not (ret and ret[0] == "E"):
                        pass  # converters may swallow the error from update's return (FloatToQuantity); not required by C05
                    # ---- O1 (get after update)
                    for gl in run_get_after(sim, get, ggargs, leaf, oid):
                        chk.evaluated(1)
                        if gl.kind != "return":
                            if gl.kind == "unsupported":
                                chk.violation("analysis-incomplete", keys["O1"], "simulator cannot model get of %s: %s" % (tag, gl.info["msg"]))
                                bad.add(keys["O1"])
                            continue
                        g = K.classify_output(sim, gl.state, gl.value)
                        if g and g[0] == "E" and not (cat == "E" and same_err(sim, gl.state, g[1])):
                            pcs = [p for p in gl.state.pc]
                            chk.violation("C05.O1", "%s:stale-error:in=%s" % (tag, cat),
                                          "%s: after an update whose input returned %s, get() returns Err(%r) (a stale error) on pre-state path %s"
                                          % (tag, {"E": "Err(e0)", "N": "Ok(None)", "S": "a present sample"}[cat], g[1], pcs),
                                          fn=up["pretty"], file=loc(up["span"]), path=pcs)
                            bad.add(keys["O1"])
                    # the representation-independent fallback of O2/O3: two states are interchangeable when, for every input
                    # category, update returns the same, get() then returns the same and the successor states are identical
                    equiv_cache = {}

                    def interchangeable(which):
                        if which not in equiv_cache:
                            svf_ = flat(sim, None, sim.final_value(stl, sv))
                            if which == "fresh":
                                fs = []
                                for i_, (n_, t_) in enumerate(names):
                                    if is_input_field(t_) or is_adt(t_, "SettableData") or depends_on_args(s0.fields[i_]):
                                        fs.append(svf_.fields[i_])
                                    else:
                                        fs.append(s0.fields[i_] if not is_adt(t_, "VecDeque") else M.mk_list([], t_))
                                other = unflat(sim, sv.ty, fs)
                            else:
                                other = sim.final_value(stl, sv)
                            try:
                                a = behaviour(sim, up, get, gargs, ggargs, stl, oid, None)
                                b = behaviour(sim, up, get, gargs, ggargs, stl, oid, other)
                                chk.evaluated(sum(len(x) for x in a.values()) + sum(len(x) for x in b.values()))
                                equiv_cache[which] = (a == b)
                            except S.Unsupported:
                                equiv_cache[which] = False
                        return equiv_cache[which]
                    # ---- O2 reset = fresh
                    if cat in conf["reset"]:
                        for i, (n, t) in enumerate(names):
                            if is_input_field(t) or is_adt(t, "SettableData"):
                                continue
                            s0f = s0.fields[i]
                            if depends_on_args(s0f):
                                continue  # configuration field
                            pf = post.fields[i]
                            if i in cache_idx:
                                okc = (isinstance(pf, Enum) and ((pf.vname == "Ok" and isinstance(pf.fields[0], Enum) and pf.fields[0].vname == "None")
                                                                 or (cat == "E" and pf.vname == "Err" and pf.fields[0] == e0)))
                                if not okc and not interchangeable("fresh"):
                                    chk.violation("C05.O2", "%s:reset-cache:in=%s" % (tag, cat), "%s: after reset event %s the cache is %r, expected Ok(None)%s"
                                                  % (tag, cat, pf, " or Err(e0)" if cat == "E" else ""), fn=up["pretty"], file=loc(up["span"]), path=leaf.pc)
                                    bad.add(keys["O2"])
                            elif pf != s0f and not interchangeable("fresh"):
                                chk.violation("C05.O2", "%s:reset-history:%s:in=%s" % (tag, n, cat),
                                              "%s: reset event %s leaves history field `%s` = %r, a fresh stream has %r" % (tag, cat, n, pf, s0f),
                                              fn=up["pretty"], file=loc(up["span"]), path=leaf.pc)
                                bad.add(keys["O2"])
                    # ---- O3 ignore absent
                    if cat == "N" and conf["absent"]:
                        changed = [i for i in range(len(names)) if post.fields[i] != pre.fields[i]]
                        for i in changed:
                            n, t = names[i]
                            pre_err = any(isinstance(pre.fields[c], Enum) and pre.fields[c].vname == "Err" for c in cache_idx)
                            if i in cache_idx:
                                pf = post.fields[i]
                                okc = pre_err and isinstance(pf, Enum) and pf.vname == "Ok" and isinstance(pf.fields[0], Enum) and pf.fields[0].vname == "None"
                            else:
                                okc = pre_err and post.fields[i] == s0.fields[i]
                            if not okc and not interchangeable("pre"):
                                chk.violation("C05.O3", "%s:absent-changes:%s" % (tag, n), "%s: an absent sample changes field `%s` from %r to %r"
                                              % (tag, n, pre.fields[i], post.fields[i]), fn=up["pretty"], file=loc(up["span"]), path=leaf.pc)
                                bad.add(keys["O3"])
                    chk.sample({"stream": tag, "input": cat, "pre_path": [list(p) for p in leaf.pc][:6], "update_returns": repr(ret)[:80]}, cap=14)
            # ---- O2'': a cached Err behaves like Ok(None) from the fresh state
            if ll in (None, 0):
                st0 = S.State()
                sv, names = self_struct(sim, st0, up, gargs, conf, ll)
                cache_idx = [i for i, (n, t) in enumerate(names) if is_cache_ty(t)]
                if cache_idx:
                    ci = cache_idx[0]
                    cty = names[ci][1]
                    svf = flat(sim, st0, sv)

                    def fresh(cache_val):
                        fs = []
                        for i, (n, t) in enumerate(names):
                            if i == ci:
                                fs.append(cache_val)
                            elif is_input_field(t) or is_adt(t, "SettableData") or depends_on_args(s0.fields[i]):
                                fs.append(svf.fields[i])
                            else:
                                fs.append(s0.fields[i] if not is_adt(t, "VecDeque") else M.mk_list([], t))
                        return unflat(sim, sv.ty, fs)
                    okn = sim.mk_enum(cty, "Ok", [sim.mk_enum(cty["args"][0], "None")])
                    err = sim.mk_enum(cty, "Err", [Sym("eold", cty["args"][1])])
                    for cat in ("E", "N", "S"):
                        outs = []
                        for cv in (okn, err):
                            ls, oid = run_update(sim, up, gargs, cat, fresh(cv))
                            o = set()
                            for l in ls:
                                chk.evaluated(1)
                                if l.kind == "return":
                                    o.add((repr(sim.final_value(l.state, l.value)), repr(sim.final_value(l.state, l.state.mem[oid]))))
                                else:
                                    o.add((l.kind, l.info.get("msg")))
                            outs.append(o)
                        if outs[0] != outs[1]:
                            chk.violation("C05.O2", "%s:err-vs-none:in=%s" % (tag, cat),
                                          "%s: from the freshly reset state, an update with input %s behaves differently when the cache holds a previous Err than when it holds Ok(None): %s vs %s"
                                          % (tag, cat, sorted(outs[1])[:2], sorted(outs[0])[:2]), fn=up["pretty"], file=loc(up["span"]))
                            bad.add(keys["O2"])
        # ---- O4 get is pure
        st = S.State()
        a0 = sim.make_arg(st, "self", subst(get["sig_inputs"][0], ggargs))
        init = st.mem[a0.ptr.obj]
        for gl in sim.run(get, ggargs, [a0], st):
            chk.evaluated(1, nontrivial=(tag + ":get", repr(gl.pc)))
            if gl.kind == "unsupported":
                chk.violation("analysis-incomplete", keys["O4"], "simulator cannot model get of %s: %s" % (tag, gl.info["msg"]))
                bad.add(keys["O4"])
            elif gl.kind == "return":
                if K.mutating_effects(gl.effects) or any(e[0] == "call" for e in gl.effects) or \
                        sim.final_value(gl.state, gl.state.mem[a0.ptr.obj]) != sim.final_value(gl.state, init):
                    chk.violation("C05.O4", tag + ":get-pure", "%s::get is not a pure function of the stream state: %s" % (tag, gl.effects[:3]), fn=get["pretty"], file=loc(get["span"]))
                    bad.add(keys["O4"])
        for k, v in keys.items():
            if v in chk.obligations and v not in bad:
                chk.discharge(v)


def check_passthrough(chk, prog, sim, name):
    for (up, get) in impl_pairs(prog, name):
        tag = name
        key = "O6:" + tag
        chk.obligation(key, "pass-through caching of " + tag)
        chk.analysed(up["pretty"])
        gargs, ggargs = sim.identity_gargs(up), sim.identity_gargs(get)
        ok = True
        for cat in ("E", "N", "S"):
            st0 = S.State()
            sv, names = self_struct(sim, st0, up, gargs, {})
            leaves, oid = run_update(sim, up, gargs, cat, sv)
            for leaf in leaves:
                chk.evaluated(1, nontrivial=(tag, cat, repr(leaf.pc)))
                if leaf.kind != "return":
                    chk.violation("analysis-incomplete" if leaf.kind == "unsupported" else "C05.O6", key, "%s update: %s %s" % (tag, leaf.kind, leaf.info.get("msg")))
                    ok = False
                    continue
                for gl in run_get_after(sim, get, ggargs, leaf, oid):
                    chk.evaluated(1)
                    if gl.kind != "return":
                        chk.violation("analysis-incomplete" if gl.kind == "unsupported" else "C05.O6", key, "%s get: %s %s" % (tag, gl.kind, gl.info.get("msg")))
                        ok = False
                        continue
                    polled_in_update = any(e[0] == "call" and e[2].split("::")[-1] == "get" for e in leaf.effects)
                    polls_in_get = [e for e in gl.effects if e[0] == "call"]
                    if polled_in_update and polls_in_get:
                        chk.violation("C05.O4", "%s:get-polls-input:in=%s" % (tag, cat), "%s caches its input in update() but get() also polls the input (%s) after an update with input %s: "
                                      "get() then reports what the input says NOW, not what it returned at the most recent update, and two get() calls can disagree" % (tag, polls_in_get[0][2], cat),
                                      fn=get["pretty"], file=loc(get["span"]))
                        ok = False
                    g = K.classify_output(sim, gl.state, gl.value)
                    good = False
                    if cat == "E":
                        good = g == ("E", Sym("e0"))
                    elif cat == "N":
                        good = g == ("N",)
                    else:
                        if g and g[0] == "S" and g[1] == Sym("t0"):
                            p = g[2]
                            if name == "FloatToQuantity":
                                from program import units_enabled
                                good = isinstance(p, Struct) and p.fields[0] == Sym("v0") and ("self.unit" in repr(p.fields[1]) or not units_enabled(prog))
                            else:
                                good = p == Sym("v0.value")
                    if not good:
                        chk.violation("C05.O6", "%s:in=%s" % (tag, cat), "%s: after an update with input %s, get() returns %r" % (tag, cat, g), fn=up["pretty"], file=loc(up["span"]))
                        ok = False
        if ok:
            chk.discharge(key)


def check_freeze(chk, prog, sim):
    name = "FreezeStream"
    (up, get), = impl_pairs(prog, name)
    key = "O5:FreezeStream"
    chk.obligation(key, "freeze state machine")
    chk.analysed(up["pretty"])
    gargs, ggargs = sim.identity_gargs(up), sim.identity_gargs(get)
    sty = subst(up["sig_inputs"][0], gargs)["ty"]
    order = K.field_order(sim, sty)
    if len(order) != 2:
        raise AnchorMissing("FreezeStream input fields")
    cond_l, in_l = order
    ok = True
    for ccat, cbool in (("E", None), ("N", None), ("S", True), ("S", False)):
        for icat in ("E", "N", "S"):
            st = S.State()
            sv = sim.expand(st, Sym("self", sty))
            oid = st.new_obj("self", sv)
            st.labels[oid] = "self"
            assign = {cond_l: {"cat": ccat, "tag": "c"}, in_l: {"cat": icat, "tag": "0"}}
            if cbool is not None:
                assign[cond_l]["value"] = Const(cbool, prim("bool"))

            def hook(sim_, st_, label, method, args, ret_ty, ver, assign=assign):
                a = assign.get(label)
                if a is None:
                    return None
                return K.build_output(sim_, ret_ty, a["cat"], a["tag"], a.get("value"))
            old = sim.oracle_hook
            sim.oracle_hook = hook
            leaves = sim.run(up, gargs, [Ref(Ptr(oid), True)], st)
            sim.oracle_hook = old
            for leaf in leaves:
                case = "cond=%s%s,input=%s" % (ccat, {True: "(true)", False: "(false)", None: ""}[cbool], icat)
                chk.evaluated(1, nontrivial=("freeze", case, repr(leaf.pc)))
                if leaf.kind != "return":
                    chk.violation("analysis-incomplete" if leaf.kind == "unsupported" else "C05.O5", key, "FreezeStream update %s: %s %s" % (case, leaf.kind, leaf.info.get("msg")))
                    ok = False
                    continue
                ret = K.classify_output(sim, leaf.state, leaf.value)
                polled_input = any(e[0] == "call" and e[1] == in_l for e in leaf.effects)
                for gl in run_get_after(sim, get, ggargs, leaf, oid):
                    chk.evaluated(1)
                    if gl.kind != "return":
                        ok = False
                        chk.violation("analysis-incomplete", key, "FreezeStream get: %s" % gl.info.get("msg"))
                        continue
                    g = K.classify_output(sim, gl.state, gl.value)
                    prev = sim.final_value(gl.state, Sym("self.freeze_value"))
                    if ccat == "E":
                        good = g == ("E", Sym("ec")) and ret == ("E", Sym("ec"))
                    elif ccat == "N":
                        good = g == ("N",) and ret == ("U",)
                    elif cbool:
                        # frozen: cache unchanged, whatever it was
                        got_full = sim.final_value(gl.state, gl.value)
                        cachef = [f for f in sim.final_value(gl.state, gl.state.mem[oid]).fields if isinstance(f, (Enum, Sym)) and "freeze" in repr(f) or True]
                        good = ret == ("U",) and not polled_input and sim.final_value(gl.state, gl.state.mem[oid]) == sim.final_value(gl.state, sv)
                    else:
                        exp = {"E": ("E", Sym("e0")), "N": ("N",), "S": ("S", Sym("t0"), Sym("v0"))}[icat]
                        good = g == exp and ret == (("E", Sym("e0")) if icat == "E" else ("U",))
                    if not good:
                        chk.violation("C05.O5", "freeze:" + case, "FreezeStream: with %s, update returns %r and get() then returns %r" % (case, ret, g),
                                      fn=up["pretty"], file=loc(up["span"]))
                        ok = False
    if ok:
        chk.discharge(key)


def run(chk):
    prog = load_config("K1")
    chk.configs.append("K1")
    chk.rule("C05.O1", "get()/update() return Err(x) only if this update's input returned Err(x) (checked from an arbitrary symbolic pre-state)")
    chk.rule("C05.O2", "documented reset events restore constructor values of all history fields; cached Err == Ok(None) for the next update")
    chk.rule("C05.O3", "absent samples change nothing except clearing a cached error")
    chk.rule("C05.O4", "get performs no oracle call, no mutation, and leaves self unchanged")
    chk.rule("C05.O5", "freeze: cond Err -> cache Err; cond None -> None; cond true -> unchanged, input not polled; cond false -> cache := input outcome")
    chk.rule("C05.O6", "pass-through converters cache exactly the mapped input outcome")
    sim = S.Sim(prog)
    n = 0
    for name, conf in STREAMS.items():
        if not prog.has_adt(name):
            raise AnchorMissing("stream type " + name)
        check_stream(chk, prog, sim, name, conf)
        n += 1
    for name in PASS:
        check_passthrough(chk, prog, sim, name)
        n += 1
    check_freeze(chk, prog, sim)
    n += 1
    if n < 12:
        chk.violation("floor", "C05.streams", "expected 12 stateful stream types, analysed %d" % n)
    chk.assume("CommandPID analysed with following = None (the property's event alphabet)",
               "MovingAverageStream pre-state queue lengths bounded (0..2 quick, 0..3 thorough); other fields fully symbolic",
               "pre-states are arbitrary (not only reachable): O1 is checked for a superset of reachable states")
    chk.extra["std_models"] = sorted(sim.stats["models_used"])
    return ("Abstract Mealy-machine extraction: update() of each stateful stream interpreted from a symbolic pre-state under each input "
            "category; get() interpreted on every post-state; constructor interpreted for the fresh state. Obligations O1-O6 compared on the "
            "resulting transition leaves.")
