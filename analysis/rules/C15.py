"""C15: Settable bookkeeping, following, history adapters, constant/time getters map values and time exactly.

  B  Settable::set (provided method, analysed generically over Self): last_request is stored only after impl_set
     succeeded, with the argument; the failing path stores nothing and returns impl_set's error.
  W  who-may-write: the fields of SettableData are stored only by set / follow / stop_following / the constructor.
  F  update_following_data table: not following -> nothing; getter Err -> propagated, nothing set; None -> nothing;
     Some(d) -> exactly one set(d.value), its error propagated.  follow / stop_following / get_last_request.
  H  GetterFromHistory: get queries the history at (now + delta) and restamps with now; constructors / set_delta /
     set_time fix delta so that now0 + delta is the chosen history time (integer linear algebra on Time).
  T  TimeGetterFromGetter: timestamp of a present value, FromNone error for absent, errors propagated, no panic;
     Time is its own time getter.
"""
from values import *
from program import load_config, subst, ty_str, is_adt, prim, AnchorMissing, loc
import sim as S
import streamkit as K
import mirwalk as W
import devkit as D


def trait_default(prog, trait, name):
    fs = [f for f in prog.by_name.get(name, []) if f.get("trait_default") and f.get("trait", "").split("::")[-1] == trait]
    if len(fs) != 1:
        raise AnchorMissing("%s::%s provided method" % (trait, name))
    return fs[0]


def overflow_panic(leaf):
    return leaf.kind == "panic" and str(leaf.info.get("kind", "")).startswith("assert:Overflow")


def sd_states(kit):
    """the four kinds of SettableData state: following nothing / a getter  x  no request / a request"""
    import sdkit
    ffn = sdkit.trait_default(kit.prog, "Settable", "follow")
    sfn = sdkit.trait_default(kit.prog, "Settable", "set")
    gty = subst(ffn["sig_inputs"][1], kit.sim.identity_gargs(ffn))
    vty = subst(sfn["sig_inputs"][1], kit.sim.identity_gargs(sfn))
    ty = kit.base().ty
    out = []
    for f in (None, Sym("g_old", gty)):
        for r in (None, Sym("r_old", vty)):
            out.append((f, r, kit.make(ty, following=f, request=r)))
    return out, gty, vty


def sd_sanity(chk, kit, key):
    """the built patterns must actually contain what set / follow were given (otherwise nothing is stored at all)"""
    import sdkit
    ok = True
    if sdkit.PH_V not in repr(kit.pattern(False, True)) or kit.pattern(False, True) == kit.pattern(False, False):
        chk.violation("C15.B", key + ":store", "a successful set on a new SettableData stores nothing: get_last_request can never return the argument")
        ok = False
    if sdkit.PH_G not in repr(kit.pattern(True, False)) or kit.pattern(True, False) == kit.pattern(False, False):
        chk.violation("C15.F", key + ":follow", "follow must store following = Some(getter): on a new SettableData it stores nothing")
        ok = False
    return ok


def check_set(chk, prog, sim):
    key = "B:Settable::set"
    chk.obligation(key, "last_request stored only after impl_set succeeded")
    import sdkit
    kit = sdkit.kit(sim, prog)
    fn = trait_default(prog, "Settable", "set")
    chk.analysed(fn["pretty"])
    try:
        ok = sd_sanity(chk, kit, key)
        states, gty, vty = sd_states(kit)
    except S.Unsupported as e:
        chk.violation("analysis-incomplete", key, "SettableData states could not be built through new/set/follow: %s" % e)
        return
    val = Sym("value", vty)
    seen = set()
    for f, r, sd0 in states:
        for impl_ok in (True, False):
            leaves, oid, _ = kit.run_provided("set", sd0, [val], impl_set_ok=impl_ok)
            for leaf in leaves:
                chk.evaluated(1, nontrivial=(key, repr(f), repr(r), impl_ok, repr(leaf.pc)))
                case = "data(following=%r, request=%r), impl_set -> %s" % (f, r, "Ok" if impl_ok else "Err(eset)")
                if leaf.kind != "return":
                    chk.violation("analysis-incomplete" if leaf.kind == "unsupported" else "C15.B", key, "Settable::set [%s]: %s %s" % (case, leaf.kind, leaf.info.get("msg")))
                    ok = False
                    continue
                stl = leaf.state
                ret = sim.final_value(stl, leaf.value)
                calls = [e for e in leaf.effects if e[0] == "call" and e[2].split("::")[-1] not in ("get_settable_data_mut", "get_settable_data_ref")]
                impl = [e for e in calls if e[2].endswith("::impl_set")]
                post = sim.final_value(stl, stl.mem[oid])
                pf, pr = kit.read(None, post)
                if len(impl) != 1 or impl[0][3] != (val,) or calls[0] is not impl[0]:
                    chk.violation("C15.B", key + ":impl_set", "set must call impl_set exactly once, first, with (a clone of) its argument; calls: %s" % ([c[2:] for c in calls],), fn=fn["pretty"], file=loc(fn["span"]))
                    ok = False
                if impl_ok:
                    seen.add("ok")
                    if not (isinstance(ret, Enum) and ret.vname == "Ok") or pr != val or pf != f:
                        chk.violation("C15.B", key + ":store", "successful set must store Some(value) in last_request after impl_set (and leave the follow link alone) [%s]; returned %r, data afterwards: following=%r request=%r"
                                      % (case, ret, pf, pr), fn=fn["pretty"], file=loc(fn["span"]))
                        ok = False
                else:
                    seen.add("err")
                    if post != sd0:
                        chk.violation("C15.B", key + ":failed-set-stores", "a failed set (impl_set returned Err) changes the settable data [%s]: following=%r request=%r" % (case, pf, pr), fn=fn["pretty"], file=loc(fn["span"]))
                        ok = False
                    if not (isinstance(ret, Enum) and ret.vname == "Err" and ret.fields[0] == Sym("eset")):
                        chk.violation("C15.B", key + ":error", "set must return impl_set's own error, got %r [%s]" % (ret, case), fn=fn["pretty"])
                        ok = False
                chk.sample({"fn": "Settable::set", "case": case, "returns": repr(ret), "effects": [c[2] for c in calls]}, cap=4)
    if seen != {"ok", "err"}:
        chk.violation("C15.B", key + ":paths", "set must have a succeeding and a failing path, saw %s" % seen)
        ok = False
    if ok:
        chk.discharge(key)


def check_writers(chk, prog):
    key = "W:SettableData-writers"
    chk.obligation(key, "only set/follow/stop_following/constructor write SettableData")
    sd = prog.adt_by_name("SettableData")
    ok = True
    for fi, fld in enumerate(sd["variants"][0]["fields"]):
        allowed = {"last_request": {"set", "new"}, "following": {"follow", "stop_following", "new"}}.get(fld["name"])
        if allowed is None:
            continue
        writers = set()
        for fn, kind, span in W.field_write_sites(prog, sd["did"], fi):
            writers.add(fn["name"])
            chk.evaluated(1, nontrivial=(key, fld["name"], fn["pretty"]))
            def base_ok(f, allowed=allowed):
                return f["name"] in allowed and (f.get("trait", "").endswith("Settable") or is_adt(f.get("impl_self") or {}, "SettableData"))
            if not base_ok(fn) and W.private_helper_of(prog, fn, base_ok):
                writers |= W.helper_roots(prog, fn, base_ok)     # the helper writes on behalf of these allowed functions
            if not (base_ok(fn) or W.private_helper_of(prog, fn, base_ok)):
                chk.violation("C15.W", "writer:%s:%s" % (fld["name"], fn["pretty"]), "%s (%s) writes SettableData::%s (%s); only %s may" % (fn["pretty"], loc(span), fld["name"], kind, sorted(allowed)),
                              fn=fn["pretty"], file=loc(span))
                ok = False
        if not (allowed - {"new"}) <= writers:
            chk.violation("C15.W", "writers-missing:" + fld["name"], "expected writers %s of SettableData::%s, found %s" % (sorted(allowed), fld["name"], sorted(writers)))
            ok = False
    if ok:
        chk.discharge(key)


def check_following(chk, prog, sim):
    key = "F:update_following_data"
    chk.obligation(key, "following table")
    import sdkit
    kit = sdkit.kit(sim, prog)
    fn = trait_default(prog, "Settable", "update_following_data")
    chk.analysed(fn["pretty"])
    try:
        ok = sd_sanity(chk, kit, key)
        states, gty, vty = sd_states(kit)
    except S.Unsupported as e:
        chk.violation("analysis-incomplete", key, "SettableData states could not be built through new/set/follow: %s" % e)
        return
    for f, r, sd0 in states:
        for cat in ("E", "N", "S"):
            leaves, oid, _ = kit.run_provided("update_following_data", sd0, follow_cat=cat)
            for leaf in leaves:
                chk.evaluated(1, nontrivial=(key, cat, repr(f), repr(r), repr(leaf.pc)))
                if leaf.kind != "return":
                    chk.violation("analysis-incomplete" if leaf.kind == "unsupported" else "C15.F", key, "update_following_data: %s %s" % (leaf.kind, leaf.info.get("msg")))
                    ok = False
                    continue
                ret = sim.final_value(leaf.state, leaf.value)
                following = ["None" if f is None else "Some"]
                sets = [e for e in leaf.effects if e[0] == "call" and e[2].endswith("Settable::set")]
                gets = [e for e in leaf.effects if e[0] == "call" and e[2].endswith("Getter::get")]
                rok = isinstance(ret, Enum) and ret.vname == "Ok"
                if f is None:
                    good = rok and not sets and not gets
                    what = "not following: nothing happens"
                elif len(gets) != 1 or f.name not in gets[0][1]:
                    good = False
                    what = "following %s: exactly that getter is polled once (polled: %s)" % (f.name, [g_[1] for g_ in gets])
                elif cat == "E":
                    good = (not rok) and isinstance(ret, Enum) and ret.fields[0] == Sym("e0") and not sets
                    what = "followed getter errs: propagate, set nothing"
                elif cat == "N":
                    good = rok and not sets
                    what = "followed getter absent: set nothing"
                else:
                    good = len(sets) == 1 and sets[0][3] == (Sym("v0"),)
                    set_failed = [p for p in leaf.pc if p[0] == "variant" and ".set()" in p[1] and p[2] == "Err"]
                    if isinstance(ret, Sym) and ".set()" in ret.name:
                        pass   # the outcome of set() is returned as is: propagated by construction
                    elif set_failed:
                        good = good and not rok
                    else:
                        good = good and rok
                    what = "followed getter present: exactly one set(value), its error propagated"
                if sim.final_value(leaf.state, leaf.state.mem[oid]) != sd0:
                    good = False
                    what += "; the settable data itself is left alone (only set() stores)"
                # the followed getter must not stay borrowed while set() runs (set may itself reach that getter: a queue it pops, a lock it takes)
                live = []
                for e in leaf.effects:
                    if e[0] in ("ref_borrow", "ref_borrow_mut"):
                        live.append(e[1])
                    elif e[0] == "ref_release" and e[1] in live:
                        live.remove(e[1])
                    elif e[0] == "call" and e[2].endswith("Settable::set") and live:
                        chk.violation("C15.F", "%s:borrow-across-set" % key, "update_following_data calls set() while the followed getter (%s) is still borrowed: a settable whose set touches that getter panics (RefCell) or deadlocks (Mutex) instead of receiving the value"
                                      % live[-1], fn=fn["pretty"], file=loc(fn["span"]))
                        ok = False
                        break
                if not good:
                    chk.violation("C15.F", "%s:%s:%s" % (key, cat, following), "update_following_data with followed getter %s (%s): returns %r, set calls %s" % (cat, what, ret, sets),
                                  fn=fn["pretty"], file=loc(fn["span"]), path=leaf.pc)
                    ok = False
    # follow / stop_following / get_last_request
    for name, expect in (("follow", "Some"), ("stop_following", "None")):
        f_ = trait_default(prog, "Settable", name)
        chk.analysed(f_["pretty"])
        newg = Sym("getter", gty)
        for f, r, sd0 in states:
            leaves, oid, _ = kit.run_provided(name, sd0, [newg] if name == "follow" else [])
            for leaf in leaves:
                chk.evaluated(1, nontrivial=(key, name, repr(f), repr(r)))
                extra = [e for e in leaf.effects if e[0] == "call" and e[2].split("::")[-1] not in ("get_settable_data_mut", "get_settable_data_ref")]
                if extra:
                    chk.violation("C15.F", "%s:%s:side-effect" % (key, name), "%s does more than store the link: it calls %s (nothing may be forwarded, polled or set outside update)"
                                  % (name, [e[2] for e in extra][:3]), fn=f_["pretty"], file=loc(f_["span"]))
                    ok = False
                pf, pr = kit.read(None, sim.final_value(leaf.state, leaf.state.mem[oid])) if leaf.kind == "return" else ("?", "?")
                good = leaf.kind == "return" and pf == (newg if expect == "Some" else None) and pr == r
                if not good:
                    chk.violation("C15.F", key + ":" + name, "%s must store following = %s and nothing else; from data(following=%r, request=%r) it leaves following=%r request=%r"
                                  % (name, expect, f, r, pf, pr), fn=f_["pretty"], file=loc(f_["span"]))
                    ok = False
    f_ = trait_default(prog, "Settable", "get_last_request")
    chk.analysed(f_["pretty"])
    for f, r, sd0 in states:
        leaves, oid, _ = kit.run_provided("get_last_request", sd0)
        for leaf in leaves:
            chk.evaluated(1, nontrivial=(key, "get_last_request", repr(f), repr(r)))
            got = sim.final_value(leaf.state, leaf.value) if leaf.kind == "return" else None
            same = isinstance(got, Enum) and ((r is None and got.vname == "None") or (r is not None and got.vname == "Some" and got.fields[0] == r))
            if not same or sim.final_value(leaf.state, leaf.state.mem[oid]) != sd0:
                chk.violation("C15.F", key + ":get_last_request", "get_last_request returns %r, not the stored last_request (%r)" % (got, r), fn=f_["pretty"])
                ok = False
    if ok:
        chk.discharge(key)


PROVIDED = ("set", "follow", "stop_following", "update_following_data", "get_last_request")


def check_no_overrides(chk, prog):
    """The tables B and F are established for the PROVIDED bodies of Settable's methods.  An implementor that overrides one of
    them replaces that behaviour for its type, so the override is outside what was decided: reported (fail closed) unless the
    implementor list changes the rule."""
    key = "F:provided-methods-not-overridden"
    chk.obligation(key, "no Settable implementor overrides set / follow / stop_following / update_following_data / get_last_request")
    ok = True
    n = 0
    for imp in prog.facts["impls"]:
        if (imp.get("trait") or "").split("::")[-1] != "Settable":
            continue
        n += 1
        chk.evaluated(1, nontrivial=(key, imp.get("trait_ref", "")))
        for it in imp.get("items", []):
            if it["name"] in PROVIDED:
                f = prog.fns.get(it["did"]) or {}
                chk.violation("C15.F", "override:%s:%s" % (ty_str(imp["self"]), it["name"]), "%s overrides the provided method Settable::%s (%s): bookkeeping / following for this type is whatever the override does, "
                              "not the behaviour established for the provided body (exactly one impl_set per set, forwarding exactly the followed getter's present values, ...)"
                              % (imp.get("trait_ref", ty_str(imp["self"])), it["name"], loc(f.get("span"))), fn=f.get("pretty"), file=loc(f.get("span")))
                ok = False
    if n < 4:
        chk.violation("floor", "C15.settable-impls", "expected >= 4 Settable impls, found %d" % n)
        ok = False
    if ok:
        chk.discharge(key)


def check_update_calls(chk, prog, sim):
    """U: 'while following a getter each update forwards ...' needs every Updatable::update of a Settable type to run
    update_following_data (the trait documentation says so: it cannot be done for the implementor).  For each type with
    Settable impls, update is interpreted from a symbolic pre-state with update_following_data kept opaque (logged effect,
    symbolic Result); every path that returns Ok must have called it once per Settable impl of the type, before returning."""
    key = "U:update-calls-update_following_data"
    chk.obligation(key, "every Updatable::update of a Settable type calls update_following_data for each of its Settable impls on every Ok path")
    by_type = {}
    for imp in prog.facts["impls"]:
        if (imp.get("trait") or "").split("::")[-1] == "Settable" and imp["self"].get("k") == "adt":
            by_type.setdefault(imp["self"]["name"], []).append(ty_str(imp["trait_args"][1]) if len(imp.get("trait_args", [])) > 1 else "?")
    ok = True
    n = 0
    sim.inline_filter = lambda f: f["name"] != "update_following_data"
    try:
        for tname, insts in sorted(by_type.items()):
            ups = prog.find_fns(name="update", self_name=tname, trait="Updatable")
            if not ups:
                chk.note("Settable type %s has no Updatable impl in this configuration" % tname) if hasattr(chk, "note") else None
                continue
            up = ups[0]
            chk.analysed(up["pretty"])
            n += 1
            st = S.State()
            g = sim.identity_gargs(up)
            a0 = sim.make_arg(st, "self", subst(up["sig_inputs"][0], g))
            leaves = sim.run(up, g, [a0], st)
            for leaf in leaves:
                chk.evaluated(1, nontrivial=(key, tname, repr(leaf.pc)))
                if leaf.kind == "unsupported":
                    chk.violation("analysis-incomplete", "%s:%s" % (key, tname), "simulator cannot model %s: %s" % (up["pretty"], leaf.info.get("msg")), fn=up["pretty"])
                    ok = False
                    continue
                if leaf.kind != "return":
                    continue
                ret = sim.final_value(leaf.state, leaf.value)
                if isinstance(ret, Enum) and ret.vname == "Err":
                    continue
                failed = [p for p in leaf.pc if p[0] == "variant" and "update_following_data()" in str(p[1]) and p[2] == "Err"]
                if failed:
                    chk.violation("C15.U", "update-swallows-following-error:%s" % tname,
                                  "%s (%s) returns Ok on a path where update_following_data returned Err (%s): a followed getter's error (or a failing set) is not propagated"
                                  % (up["pretty"], loc(up["span"]), failed[0][1]), fn=up["pretty"], file=loc(up["span"]))
                    ok = False
                    break
                calls = [e[2] for e in leaf.effects if e[0] == "call" and e[2].endswith("::update_following_data")]
                if len(calls) < len(insts):
                    chk.violation("C15.U", "update-skips-following:%s" % tname,
                                  "%s (%s) can return Ok having called update_following_data %d time(s) for %d Settable impl(s) [%s]: a followed getter's values are not forwarded on that path (path %s)"
                                  % (up["pretty"], loc(up["span"]), len(calls), len(insts), ", ".join(insts), K.pc_str(leaf.pc) if hasattr(K, "pc_str") else repr(leaf.pc)[:200]),
                                  fn=up["pretty"], file=loc(up["span"]))
                    ok = False
                    break
    finally:
        sim.inline_filter = None
    if n < 3:
        chk.violation("floor", "C15.settable-updatables", "expected >= 3 Settable types with an Updatable impl (ConstantGetter, Terminal, CommandPID), found %d" % n)
        ok = False
    chk.extra["settable_updatables"] = n
    if ok:
        chk.discharge(key)


def extra_arith(sim, leaf, wanted):
    """overflow-guarded integer operations of a path whose result is not the value the function is there to produce: each is an
    additional way to overflow (panic in debug builds) for arguments whose result is perfectly representable"""
    out = []
    for (op, a, b), r in zip(leaf.state.arith, leaf.state.arith_results):
        if sim.resolve(leaf.state, r) != wanted:
            out.append("%s(%s%s)" % (op, a, (", " + b) if b else ""))
    return out


def check_history_adapter(chk, prog, sim):
    key = "H:GetterFromHistory"
    chk.obligation(key, "history adapter time algebra")
    ok = True
    name = "GetterFromHistory"
    get = prog.find_fn(name="get", self_name=name, trait="Getter")
    chk.analysed(get["pretty"])
    gargs = sim.identity_gargs(get)
    for tcat in ("E", "S"):
        for hcat in ("N", "S"):
            def hook(sim_, st_, label, method, args, ret_ty, ver, tcat=tcat, hcat=hcat):
                if method.endswith("TimeGetter::get"):
                    return K.build_output(sim_, ret_ty, tcat, "now")
                if method.endswith("History::get"):
                    if hcat == "N":
                        return sim_.mk_enum(ret_ty, "None")
                    dty = ret_ty["args"][0]
                    fs = sim_.adt_fields(dty)
                    return sim_.mk_enum(ret_ty, "Some", [Struct(dty, (Struct(fs[0][1], (Sym("th", prim("i64")),)), Sym("vh", fs[1][1])))])
                return None
            sim.oracle_hook = hook
            st = S.State()
            a0 = sim.make_arg(st, "self", subst(get["sig_inputs"][0], gargs))
            leaves = sim.run(get, gargs, [a0], st)
            sim.oracle_hook = None
            for leaf in leaves:
                chk.evaluated(1, nontrivial=(key, tcat, hcat, repr(leaf.pc)))
                if overflow_panic(leaf):
                    continue
                if leaf.kind != "return":
                    chk.violation("analysis-incomplete" if leaf.kind == "unsupported" else "C15.H", key, "GetterFromHistory::get: %s %s" % (leaf.kind, leaf.info.get("msg")))
                    ok = False
                    continue
                g = K.classify_output(sim, leaf.state, leaf.value)
                hq = [e for e in leaf.effects if e[0] == "call" and e[2].endswith("History::get")]
                if tcat == "E":
                    good = g == ("E", Sym("enow")) and not hq
                else:
                    q = sim.final_value(leaf.state, hq[0][3][0]) if len(hq) == 1 else None
                    qt = q.fields[0] if isinstance(q, Struct) and len(q.fields) == 1 else None
                    exp_q = int_add(Sym("tnow"), Sym("self.time_delta.0"))
                    good = qt == exp_q and (g == ("N",) if hcat == "N" else g == ("S", Sym("tnow"), Sym("vh"))) and not extra_arith(sim, leaf, exp_q)
                if not good:
                    chk.violation("C15.H", key + ":get:%s%s" % (tcat, hcat), "GetterFromHistory::get (clock %s, history %s): history queried at %s, returns %r; expected query at now + delta, restamped with now"
                                  % (tcat, hcat, [sim.final_value(leaf.state, e[3][0]) for e in hq], g), fn=get["pretty"], file=loc(get["span"]))
                    ok = False
    # constructors and setters: now0 + delta == chosen
    def delta_of(v, stl):
        v = sim.final_value(stl, v)
        if isinstance(v, Enum) and v.vname == "Ok":
            v = v.fields[0]
        if isinstance(v, Struct):
            names = [n for n, _ in sim.adt_fields(v.ty)]
            d = v.fields[names.index("time_delta")]
            return d.fields[0] if isinstance(d, Struct) else d
        return None
    table = {"new_no_delta": lambda: Const(0), "new_start_at_zero": lambda: int_neg(Sym("tnow")),
             "new_custom_start": lambda: int_sub(Sym("start.0"), Sym("tnow")), "new_custom_delta": lambda: Sym("time_delta.0")}
    for cname, exp in table.items():
        fs = [f for f in prog.find_fns(name=cname, self_name=name) if not f.get("impl_trait")]
        if len(fs) != 1:
            raise AnchorMissing("GetterFromHistory::" + cname)
        f = fs[0]
        chk.analysed(f["pretty"])
        g = sim.identity_gargs(f)

        def hook(sim_, st_, label, method, args, ret_ty, ver):
            if method.endswith("TimeGetter::get"):
                return K.build_output(sim_, ret_ty, "S", "now")
            return None
        sim.oracle_hook = hook
        st = S.State()
        argn = [x["name"] for x in f["body"]["names"]]
        args = []
        for i, t in enumerate(f["sig_inputs"]):
            nm = argn[i] if i < len(argn) else "arg%d" % i
            args.append(Sym(nm, subst(t, g)))
        leaves = sim.run(f, g, args, st)
        sim.oracle_hook = None
        rets = [l for l in leaves if l.kind == "return"]
        for leaf in leaves:
            chk.evaluated(1, nontrivial=(key, cname, repr(leaf.pc)))
            if overflow_panic(leaf):
                continue
            if leaf.kind != "return":
                chk.violation("analysis-incomplete" if leaf.kind == "unsupported" else "C15.H", key, "%s: %s %s" % (cname, leaf.kind, leaf.info.get("msg")))
                ok = False
                continue
            d = delta_of(leaf.value, leaf.state)
            if d != exp():
                chk.violation("C15.H", key + ":" + cname, "%s sets the offset to %r, expected %r (so that the construction instant maps to the chosen history time)" % (cname, d, exp()),
                              fn=f["pretty"], file=loc(f["span"]))
                ok = False
            elif extra_arith(sim, leaf, d):
                chk.violation("C15.H", key + ":" + cname + ":intermediate", "%s computes the offset %r through intermediate integer results %s: it overflows for instants whose offset is representable"
                              % (cname, d, extra_arith(sim, leaf, d)), fn=f["pretty"], file=loc(f["span"]))
                ok = False
    for sname, exp in (("set_delta", lambda: Sym("time_delta.0")), ("set_time", lambda: int_sub(Sym("time.0"), Sym("tnow")))):
        fs = [f for f in prog.find_fns(name=sname, self_name=name) if not f.get("impl_trait")]
        if len(fs) != 1:
            raise AnchorMissing("GetterFromHistory::" + sname)
        f = fs[0]
        chk.analysed(f["pretty"])
        g = sim.identity_gargs(f)

        def hook(sim_, st_, label, method, args, ret_ty, ver):
            if method.endswith("TimeGetter::get"):
                return K.build_output(sim_, ret_ty, "S", "now")
            return None
        sim.oracle_hook = hook
        st = S.State()
        a0 = sim.make_arg(st, "self", subst(f["sig_inputs"][0], g))
        argn = [x["name"] for x in f["body"]["names"]]
        arg = Sym(argn[1] if len(argn) > 1 else "arg", subst(f["sig_inputs"][1], g))
        leaves = sim.run(f, g, [a0, arg], st)
        sim.oracle_hook = None
        for leaf in leaves:
            chk.evaluated(1, nontrivial=(key, sname, repr(leaf.pc)))
            if overflow_panic(leaf):
                continue
            if leaf.kind != "return":
                chk.violation("analysis-incomplete" if leaf.kind == "unsupported" else "C15.H", key, "%s: %s %s" % (sname, leaf.kind, leaf.info.get("msg")))
                ok = False
                continue
            d = delta_of(leaf.state.mem[a0.ptr.obj], leaf.state)
            if d != exp():
                chk.violation("C15.H", key + ":" + sname, "%s sets the offset to %r, expected %r" % (sname, d, exp()), fn=f["pretty"], file=loc(f["span"]))
                ok = False
            elif extra_arith(sim, leaf, d):
                chk.violation("C15.H", key + ":" + sname + ":intermediate", "%s computes the offset %r through intermediate integer results %s: it overflows (panics in a debug build) for instants whose offset is representable"
                              % (sname, d, extra_arith(sim, leaf, d)), fn=f["pretty"], file=loc(f["span"]))
                ok = False
    if ok:
        chk.discharge(key)


def check_time_getters(chk, prog, sim):
    key = "T:time-getters"
    chk.obligation(key, "TimeGetterFromGetter and Time as TimeGetter")
    ok = True
    fn = prog.find_fn(name="get", self_name="TimeGetterFromGetter", trait="TimeGetter")
    chk.analysed(fn["pretty"])
    gargs = sim.identity_gargs(fn)
    for cat in ("E", "N", "S"):
        def hook(sim_, st_, label, method, args, ret_ty, ver, cat=cat):
            return K.build_output(sim_, ret_ty, cat, "0")
        sim.oracle_hook = hook
        st = S.State()
        a0 = sim.make_arg(st, "self", subst(fn["sig_inputs"][0], gargs))
        leaves = sim.run(fn, gargs, [a0], st)
        sim.oracle_hook = None
        for leaf in leaves:
            chk.evaluated(1, nontrivial=(key, cat, repr(leaf.pc)))
            if leaf.kind != "return":
                chk.violation("analysis-incomplete" if leaf.kind == "unsupported" else "C15.T", key + ":" + cat, "TimeGetterFromGetter::get with input %s: %s %s" % (cat, leaf.kind, leaf.info.get("msg")),
                              fn=fn["pretty"], file=loc(fn["span"]))
                ok = False
                continue
            r = sim.final_value(leaf.state, leaf.value)
            if cat == "E":
                good = isinstance(r, Enum) and r.vname == "Err" and r.fields[0] == Sym("e0")
            elif cat == "N":
                good = isinstance(r, Enum) and r.vname == "Err" and isinstance(r.fields[0], Enum) and r.fields[0].vname == "FromNone"
            else:
                good = isinstance(r, Enum) and r.vname == "Ok" and isinstance(r.fields[0], Struct) and r.fields[0].fields == (Sym("t0"),)
            if not good:
                chk.violation("C15.T", key + ":" + cat, "TimeGetterFromGetter::get with input %s returns %r" % (cat, r), fn=fn["pretty"], file=loc(fn["span"]))
                ok = False
    ft = prog.find_fn(name="get", self_name="Time", trait="TimeGetter")
    st = S.State()
    g = sim.identity_gargs(ft)
    for leaf in sim.run(ft, g, [sim.make_arg(st, "self", subst(ft["sig_inputs"][0], g))], st):
        chk.evaluated(1, nontrivial=(key, "Time"))
        r = sim.final_value(leaf.state, leaf.value) if leaf.kind == "return" else None
        if not (isinstance(r, Enum) and r.vname == "Ok" and isinstance(r.fields[0], Struct) and r.fields[0].fields == (Sym("self.0"),)):
            chk.violation("C15.T", key + ":Time", "<Time as TimeGetter>::get returns %r" % (r,), fn=ft["pretty"])
            ok = False
    # ConstantGetter's Settable impl: impl_set stores the value
    fi = prog.find_fn(name="impl_set", self_name="ConstantGetter", trait="Settable")
    g = sim.identity_gargs(fi)
    st = S.State()
    a0 = sim.make_arg(st, "self", subst(fi["sig_inputs"][0], g))
    for leaf in sim.run(fi, g, [a0, Sym("value", subst(fi["sig_inputs"][1], g))], st):
        chk.evaluated(1, nontrivial=(key, "ConstantGetter::impl_set"))
        post = sim.final_value(leaf.state, leaf.state.mem[a0.ptr.obj]) if leaf.kind == "return" else None
        names = [n for n, _ in sim.adt_fields(post.ty)] if isinstance(post, Struct) else []
        if not (post is not None and Sym("value") in post.fields and isinstance(sim.final_value(leaf.state, leaf.value), Enum)):
            chk.violation("C15.T", key + ":ConstantGetter::impl_set", "ConstantGetter::impl_set does not store its argument: %r" % (post,), fn=fi["pretty"])
            ok = False
    if ok:
        chk.discharge(key)


def run(chk):
    prog = load_config("K1")
    chk.configs.append("K1")
    chk.rule("C15.B", "Settable::set: exactly one impl_set(value); on Ok store Some(value) afterwards; on Err store nothing and return that error")
    chk.rule("C15.W", "field-write index of SettableData")
    chk.rule("C15.F", "update_following_data / follow / stop_following / get_last_request tables")
    chk.rule("C15.U", "every Updatable::update of a Settable type runs update_following_data (once per Settable impl) on every path that returns Ok")
    chk.rule("C15.H", "GetterFromHistory: query at now + delta, restamp with now; constructors fix delta by integer linear algebra")
    chk.rule("C15.T", "time getter adapters")
    sim = S.Sim(prog)
    check_set(chk, prog, sim)
    check_writers(chk, prog)
    check_following(chk, prog, sim)
    check_update_calls(chk, prog, sim)
    check_no_overrides(chk, prog)
    check_history_adapter(chk, prog, sim)
    check_time_getters(chk, prog, sim)
    import selftest
    selftest.expect(chk, "C15", check_writers, "C15.W", "a free function storing SettableData::last_request", "rogue_request")
    chk.assume("i64 overflow of clock/offset arithmetic not modelled (overflow-assert panic leaves ignored)",
               "Settable::set etc. analysed generically over Self: required methods (impl_set, get_settable_data_*) are oracles")
    chk.extra["std_models"] = sorted(sim.stats["models_used"])
    return ("Provided methods of Settable analysed once, generically over Self, with the required methods as oracles and effect logs; history adapter "
            "time handling decided by integer linear normal forms; SettableData writers by a crate-wide field-write index.")
