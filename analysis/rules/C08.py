"""C08: device update projects the states read at its terminals onto the mechanical constraint.

For Invert, GearTrain, Axle<N> (N = 0..3 quick, 0..4 thorough) and Differential x 4 trust modes, every presence
pattern of states at the terminals (own slots; plus a partnered configuration where a read is the mean of two
terminals) is abstractly interpreted on an explicit heap; the states written to the device's own terminals are turned
into rational functions (engine D) and must satisfy, as identities over the reals:
  constraint   side2 = -side1 / side2 = ratio*side1 / all equal / side1 + side2 = sum;
  projection   the residual (written - read) is orthogonal to the constraint set (normal equations), i.e. the written
               states are THE least-squares projection (this also gives 'already consistent states are unchanged');
  propagation  a terminal without information receives the value implied by the others, the informed one is untouched;
               a differential writes nothing unless every trusted branch has data, and a distrusted branch is recomputed
               from the other two (which stay untouched);
  timestamps   every written state carries the newest contributing read time (ties: either);
  ratio        GearTrain::new(teeth) has ratio first/last * (-1)^(N-1) for N = 2..6.
"""
import itertools
import sympy as sp
from values import *
from program import load_config, subst, ty_str, is_adt, prim, AnchorMissing, loc
import sim as S
import streamkit as K
import devkit as D
import devrules as R
import algebra as A


def read_exprs(prog, conf, i):
    """(list of time syms, dict field -> sympy expr) of the state read at terminal i before the update; None if no data."""
    c = R.read_expectation(conf[i], i, "state")
    if not c:
        return None
    names = R.state_names(prog)
    vals = {}
    for f in names:
        e = sum(A.sym("%s.%s" % (pref, f)) for _, pref in c) / len(c)
        vals[f] = e
    return [t for t, _ in c], vals


def written(sim, prog, dh, leaf, pre, i):
    """Post-update own state slot of terminal i as (time, dict field -> sympy) and whether it changed."""
    post = dh.own_slot(leaf.state, i, "state")
    before = sim.final_value(leaf.state, dh.own_slot(pre, i, "state"))
    d = D.opt_datum(post)
    if d is None:
        return None, post != before
    t, payload = d
    payload = sim.final_value(leaf.state, payload)
    names = R.state_names(prog)
    vals = {}
    if isinstance(payload, Struct):
        for f, v in zip(names, payload.fields):
            vals[f] = A.to_sympy(v)
    else:
        return (t, None), post != before
    return (t, vals), post != before


def configs_for(nt):
    out = []
    for pat in itertools.product((False, True), repeat=nt):
        out.append([dict(state=p) for p in pat])
    # partnered configurations, for EVERY terminal: the data may arrive only through the connected terminal (the device must read the
    # terminal, i.e. the mean of own and partner, not its own slot), or through both
    for k in range(nt):
        out.append([dict(state=True, partner=(dict(state=True) if i == k else None)) for i in range(nt)])
        out.append([dict(state=(i != k), partner=(dict(state=True) if i == k else None)) for i in range(nt)])
        if nt >= 2:
            out.append([dict(state=False, partner=(dict(state=True) if i == k else None)) for i in range(nt)])
    return out


def time_ok(sim, st, t, cands):
    from rules.C03 import rel_allowed
    is_cand = t in cands or any(rel_allowed(sim, st, t, c) <= {"="} for c in cands)
    return is_cand and K.no_candidate_newer(sim, st, t, cands)


def check_device(chk, prog, sim, dev, n=None, mode=None):
    nt = n if dev == "Axle" else R.NTERMS[dev]
    tag = dev + ("<N=%d>" % n if dev == "Axle" else "") + (":" + mode if mode else "")
    key = "project:" + tag
    chk.obligation(key, "projection / propagation / timestamps of " + tag)
    names = R.state_names(prog)
    ok = True
    r = A.sym("self.ratio")

    def viol(rule, sub, msg, fn):
        nonlocal ok
        ok = False
        chk.violation(rule, "%s:%s" % (key, sub), msg, fn=fn["pretty"], file=loc(fn["span"]))

    for conf in configs_for(nt):
        fn, leaves, dh, pre = R.run_update(sim, prog, dev, conf, n, mode)
        chk.analysed(fn["pretty"])
        case = "%s states=%s" % (tag, ["%s%s" % ("s" if c.get("state") else "-", "+p" if c.get("partner") else "") for c in conf])
        reads = [read_exprs(prog, conf, i) for i in range(nt)]
        have = [i for i in range(nt) if reads[i] is not None]
        for leaf in leaves:
            chk.evaluated(1, nontrivial=(key, case, repr([p for p in leaf.pc if p[0] == "rel"])))
            if leaf.kind != "return":
                chk.violation("analysis-incomplete" if leaf.kind == "unsupported" else "C08.update", key + ":" + leaf.kind,
                              "%s update: %s %s (%s)" % (case, leaf.kind, leaf.info.get("msg"), K.leaf_site(leaf)), fn=fn["pretty"])
                ok = False
                continue
            try:
                w = [written(sim, prog, dh, leaf, pre, i) for i in range(nt)]
            except ValueError as e:
                viol("C08.update", "nonarith", "%s: written state is not arithmetic: %s" % (case, e), fn)
                continue
            vals = [x[0] for x in w]
            changed = [x[1] for x in w]
            alltimes = [t for i in have for t in reads[i][0]]
            # ---------------- expectations per device
            if dev in ("Invert", "GearTrain", "Axle"):
                if not have:
                    if any(changed):
                        viol("C08.propagate", "nodata", "%s: no terminal has data but a state slot changed" % case, fn)
                    continue
                # which terminals must be written
                if dev == "Axle" or len(have) == nt:
                    must_write = list(range(nt))
                else:
                    must_write = [i for i in range(nt) if i not in have]
                for i in range(nt):
                    if i in must_write:
                        if vals[i] is None or vals[i][1] is None:
                            viol("C08.propagate", "missing", "%s: terminal %d receives no state although the others determine it" % (case, i), fn)
                            continue
                        if not time_ok(sim, leaf.state, vals[i][0], alltimes):
                            viol("C08.time", "time:terminal%d" % i, "%s (path %s): terminal %d is stamped %r, not the newest contributing time of %s" % (case, [p for p in leaf.pc if p[0] == "rel"], i, vals[i][0], alltimes), fn)
                    elif changed[i] and not (dev != "Axle" and len(have) < nt):
                        pass
                    if i not in must_write and changed[i]:
                        viol("C08.propagate", "informed-overwritten", "%s: terminal %d already has information but its slot is overwritten" % (case, i), fn)
                good_vals = all(vals[i] is not None and vals[i][1] is not None for i in must_write)
                if not good_vals:
                    continue
                # effective values after update: written where written, else the read
                eff = []
                for i in range(nt):
                    eff.append(vals[i][1] if i in must_write else reads[i][1])
                for f in names:
                    if dev == "Invert":
                        if not A.equal(eff[1][f], -eff[0][f]):
                            viol("C08.constraint", "constraint", "%s: %s of side2 (%s) != -side1 (%s)" % (case, f, A.show(eff[1][f]), A.show(eff[0][f])), fn)
                        if len(have) == 2:
                            res = (eff[0][f] - reads[0][1][f]) * 1 + (eff[1][f] - reads[1][1][f]) * (-1)
                            if not A.equal(res, 0):
                                viol("C08.projection", "projection", "%s: written %s is not the least-squares projection of the reads onto side2 = -side1 (residual . (1,-1) = %s)" % (case, f, A.show(res)), fn)
                    elif dev == "GearTrain":
                        if not A.equal(eff[1][f], r * eff[0][f]):
                            viol("C08.constraint", "constraint", "%s: %s of side2 (%s) != ratio * side1 (%s)" % (case, f, A.show(eff[1][f]), A.show(eff[0][f])), fn)
                        if len(have) == 2:
                            res = (eff[0][f] - reads[0][1][f]) * 1 + (eff[1][f] - reads[1][1][f]) * r
                            if not A.equal(res, 0):
                                viol("C08.projection", "projection", "%s: written %s is not the least-squares projection onto side2 = ratio*side1 (residual . (1,ratio) = %s)" % (case, f, A.show(res)), fn)
                    else:
                        for i in range(1, nt):
                            if not A.equal(eff[i][f], eff[0][f]):
                                viol("C08.constraint", "constraint", "%s: %s differs between axle terminals 0 and %d" % (case, f, i), fn)
                        res = sum(eff[0][f] - reads[i][1][f] for i in have)
                        if not A.equal(res, 0):
                            viol("C08.projection", "projection", "%s: axle %s is not the mean of the terminals that have data (sum of residuals = %s)" % (case, f, A.show(res)), fn)
            else:  # Differential
                trusted = {"Side1": [1, 2], "Side2": [0, 2], "Sum": [0, 1], "Equal": [0, 1, 2]}[mode]
                target = {"Side1": [0], "Side2": [1], "Sum": [2], "Equal": [0, 1, 2]}[mode]
                if not all(i in have for i in trusted):
                    if any(changed):
                        viol("C08.propagate", "premature", "%s: differential writes a state although a trusted branch has no data" % case, fn)
                    continue
                for i in range(3):
                    if i in target:
                        if vals[i] is None or vals[i][1] is None:
                            viol("C08.propagate", "missing", "%s: branch %d not written" % (case, i), fn)
                        elif not time_ok(sim, leaf.state, vals[i][0], [t for j in trusted for t in reads[j][0]]):
                            viol("C08.time", "time:branch%d" % i, "%s (path %s): branch %d is stamped %r, not the newest contributing time" % (case, [p for p in leaf.pc if p[0] == "rel"], i, vals[i][0]), fn)
                    elif changed[i]:
                        viol("C08.propagate", "trusted-overwritten", "%s: trusted branch %d is overwritten" % (case, i), fn)
                if any(vals[i] is None or vals[i][1] is None for i in target):
                    continue
                eff = [vals[i][1] if i in target else reads[i][1] for i in range(3)]
                for f in names:
                    if not A.equal(eff[0][f] + eff[1][f], eff[2][f]):
                        viol("C08.constraint", "constraint", "%s: side1 + side2 != sum for %s after update" % (case, f), fn)
                    if mode == "Equal":
                        d = [eff[i][f] - reads[i][1][f] for i in range(3)]
                        if not (A.equal(d[0], d[1]) and A.equal(d[0], -d[2])):
                            viol("C08.projection", "projection", "%s: written %s is not the least-squares projection onto side1+side2=sum (residual %s not parallel to (1,1,-1))" % (case, f, [A.show(x) for x in d]), fn)
            if len(chk.samples) < 8:
                chk.sample({"device": tag, "config": case, "written": [None if v is None else (repr(v[0]), {k: A.show(e) for k, e in list((v[1] or {}).items())[:1]}) for v in vals]})
    if ok:
        chk.discharge(key)


def check_ratio(chk, prog, sim):
    key = "ratio:GearTrain::new"
    chk.obligation(key, "ratio from tooth counts = first/last * (-1)^(N-1)")
    fn = [f for f in prog.find_fns(name="new", self_name="GearTrain") if not f.get("impl_trait")]
    if len(fn) != 1:
        raise AnchorMissing("GearTrain::new")
    fn = fn[0]
    chk.analysed(fn["pretty"])
    ok = True
    for n in range(1, 7):
        consts = {g["name"]: n for g in fn["generics"] if g["kind"] == "const"}
        gargs = K.gargs_with_consts(sim, fn, consts)
        teeth = Array([Sym("teeth%d" % i, prim("f32")) for i in range(n)], subst(fn["sig_inputs"][0], gargs))
        leaves = sim.run(fn, gargs, [teeth], S.State())
        for leaf in leaves:
            chk.evaluated(1, nontrivial=(key, n))
            if n < 2:
                if leaf.kind != "panic":
                    chk.violation("C08.ratio", key + ":small", "GearTrain::new with %d gears does not panic" % n, fn=fn["pretty"])
                    ok = False
                continue
            if leaf.kind != "return":
                chk.violation("analysis-incomplete" if leaf.kind == "unsupported" else "C08.ratio", key, "GearTrain::new N=%d: %s %s" % (n, leaf.kind, leaf.info.get("msg")), fn=fn["pretty"])
                ok = False
                continue
            v = sim.final_value(leaf.state, leaf.value)
            ratio = [f for f in v.fields if not (isinstance(f, Opaque))]
            try:
                e = A.to_sympy(ratio[-1])
            except Exception as ex:
                chk.violation("C08.ratio", key, "GearTrain::new N=%d: ratio not arithmetic: %r" % (n, ratio))
                ok = False
                continue
            exp = A.sym("teeth0") / A.sym("teeth%d" % (n - 1)) * (-1) ** (n - 1)
            if not A.equal(e, exp):
                chk.violation("C08.ratio", "%s:N=%d" % (key, n), "GearTrain::new with %d gears has ratio %s, expected %s" % (n, A.show(e), A.show(exp)), fn=fn["pretty"], file=loc(fn["span"]))
                ok = False
    if ok:
        chk.discharge(key)


def check_all(chk, prog, sim):
    maxn = 3 if chk.tier == "quick" else 4
    check_device(chk, prog, sim, "Invert")
    check_device(chk, prog, sim, "GearTrain")
    for n in range(0, maxn + 1):
        check_device(chk, prog, sim, "Axle", n)
    for mode in ("Side1", "Side2", "Sum", "Equal"):
        check_device(chk, prog, sim, "Differential", None, mode)
    check_ratio(chk, prog, sim)


def run(chk):
    prog = load_config("K1")
    chk.configs.append("K1")
    chk.rule("C08.constraint", "written states satisfy the device constraint identically (rational-function identity)")
    chk.rule("C08.projection", "residual orthogonal to the constraint set: the written states are the least-squares projection")
    chk.rule("C08.propagate", "who gets written in which presence pattern; informed / trusted terminals untouched")
    chk.rule("C08.time", "written states carry the newest contributing read time")
    chk.rule("C08.ratio", "tooth-count constructor")
    chk.rule("C08.reads", "terminal links stay a symmetric matching under connect/disconnect (table shared with C09)")
    sim = S.Sim(prog)
    check_all(chk, prog, sim)
    # release profile (K6 = default features, --release): debug_assert!(..) and its argument are compiled out, so a write or a
    # call moved inside one silently disappears; the same tables must hold there
    import report as _report
    _p6 = load_config("K6")
    chk.configs.append("K6")
    _sub6 = _report.Check("C08", chk.tier)
    _s6 = S.Sim(_p6)
    check_all(_sub6, _p6, _s6)
    chk.evaluations += _sub6.evaluations
    for _v in _sub6.violations:
        if _v["rule"] == "floor":
            continue
        chk.violation(_v["rule"], _v["key"] + "@K6", "[release profile] " + _v["what"], **_v["detail"])
    # link structure relied upon (connect keeps the terminals a symmetric matching): the inductive step is C09's table, evaluated here too
    import rules.C09 as C09
    import report
    key = "links:matching-preserved-by-connect"
    chk.obligation(key, "connect/disconnect keep terminal links a symmetric matching (shared with C09)")
    sub = report.Check("C08", chk.tier)
    C09.check_links(sub, prog, sim)
    chk.evaluations += sub.evaluations
    bad = [v for v in sub.violations]
    for v in bad:
        chk.violation("C08.reads" if v["rule"].startswith("C09") else v["rule"], "links:" + v["key"], "the states a device reads at its terminals are its own and its CURRENT partners': after re-wiring, a stale link keeps averaging in a terminal that is no longer connected: " + v["what"], **v["detail"])
    if not bad:
        chk.discharge(key)
    chk.assume("real-arithmetic model (f32 rounding not decided)", "terminals do not follow getters", "axle arity bounded (N<=3 quick, <=4 thorough)",
               "multi-round sequences: each round is the same function of the reads, so the per-round result is what is decided")
    chk.extra["std_models"] = sorted(sim.stats["models_used"])
    return ("Device updates abstractly interpreted on explicit heaps; written states converted to rational functions and the constraint / normal-equation "
            "identities decided by polynomial normalisation; presence tables and timestamps compared per leaf.")
