"""C12: EWMA and moving average are time-weighted convex averages and never panic.

EWMA (both impls): step from a symbolic predecessor equals prev*(1-L) + new*L with L = 1-(1-s)^dt (rational/power
identity, engine D); weights sum to 1 (constant input -> constant); the first sample is returned unchanged (dt = 0);
the state invariant 'cache present => update time present' is inductive over every update leaf and holds initially, and
the only panic site (the expect on the update time) is reachable only from states violating it.
Moving average (both impls): for queue lengths 0..3 (quick) / 0..4 (thorough) with non-decreasing timestamps and a
positive window the update is interpreted with symbolic times: no leaf panics; the output is sum v_i*(e_i - s_i)/window
with s_0 = t - window, s_i = e_{i-1} over the samples kept; each weight is provably non-negative under the leaf's path
condition and the weights sum to the window (constant input -> constant).
The generic and Quantity variants of each filter yield the same rational functions.
Not decided: convexity bounds in f32, L in [0,1] (needs smoothing in [0,1]: runtime value), i64 overflow of t - window.
"""
import sympy as sp
from values import *
from program import load_config, subst, ty_str, is_adt, prim, AnchorMissing, loc
import sim as S
import streamkit as K
import dimkit as Q
import numkit as N
import algebra as A
import models as M
from rules.C05 import impl_pairs
from rules.C03 import rel_allowed


def is_quantity_impl(fn):
    return "Quantity" in ty_str(fn["impl_self"]["args"][0]) if fn["impl_self"]["args"] else False


def payload_expr(v):
    """sympy expression of a payload that is either a raw value/term or a Quantity struct."""
    if isinstance(v, Struct) and len(v.fields) == 2 and v.ty and v.ty.get("name") == "Quantity":
        return A.to_sympy(v.fields[0])
    return A.to_sympy(v)


def sample_value(sim, prog, fn, tag):
    if is_quantity_impl(fn):
        return Struct(Q.quantity_ty(prog), (Sym("v" + tag, prim("f32")), Q.unit_value(sim, prog, 1, 0)))
    return None


def check_ewma_histories(chk, prog, sim, up, get, key, depth=3):
    """Representation-independent EWMA rule: every input history of length <= depth from the constructor state, observed
    only through get(), against the reference recurrence.  Returns (ok, expression of the second present sample)."""
    import itertools
    ug, gg = sim.identity_gargs(up), sim.identity_gargs(get)
    news = [f for f in prog.find_fns(name="new", self_name="EWMAStream") if not f.get("impl_trait")]
    if not news:
        raise AnchorMissing("constructor of EWMAStream")
    nnames = [x["name"] for x in news[0]["body"]["names"]]
    av = {}
    for i, t in enumerate(news[0]["sig_inputs"]):
        if t.get("k") == "prim" and t.get("name") == "f32" and i < len(nnames):
            av[nnames[i]] = Sym("self.smoothing_constant", prim("f32"))
    st0, oid, _ = N.fresh_object(sim, prog, "EWMAStream", new_fn=news[0], arg_values=av)
    s = A.sym("self.smoothing_constant")
    ok = True
    second = None
    for hist in itertools.product(("E", "N", "S"), repeat=depth):
        # frontier: (state, reference state, reference output)
        frontier = [(st0, None, ("N",))]
        for k, cat in enumerate(hist):
            tag = "h%d" % k
            nxt = []
            for (st, ref, refout) in frontier:
                if cat == "E":
                    ref2, out2 = None, ("E", Sym("e" + tag))
                elif cat == "N":
                    ref2, out2 = ref, (("N",) if refout[0] == "E" else refout)
                else:
                    x, t = A.sym("v" + tag), A.sym("t" + tag)
                    if ref is None:
                        val = x
                    else:
                        lam = 1 - sp.Pow(1 - s, (t - ref[0]) / 10**9)
                        val = ref[1] * (1 - lam) + x * lam
                    ref2, out2 = (t, val), ("S", Sym("t" + tag), val)
                for leaf in N.update_with(sim, up, ug, st, oid, cat, tag, value=sample_value(sim, prog, up, tag)):
                    chk.evaluated(1, nontrivial=(key, "hist", hist[:k + 1], repr(leaf.pc)))
                    if leaf.kind == "unsupported":
                        chk.violation("analysis-incomplete", key, "EWMA update after history %s: %s" % ("".join(hist[:k + 1]), leaf.info["msg"]), site=K.leaf_site(leaf))
                        ok = False
                        continue
                    if leaf.kind == "panic" and is_quantity_impl(up) and "eq_assume_true" in str(leaf.info.get("msg")):
                        continue
                    if leaf.kind != "return":
                        chk.violation("C12.panic", "%s:panic:history" % key, "EWMAStream::update %s (%s at %s) after the input history %s from a new stream"
                                      % (leaf.kind, leaf.info.get("msg"), K.leaf_site(leaf), "".join(hist[:k + 1])), fn=up["pretty"], file=loc(up["span"]))
                        ok = False
                        continue
                    for gl in N.get_on(sim, get, gg, leaf.state, oid):
                        chk.evaluated(1)
                        if gl.kind != "return":
                            chk.violation("analysis-incomplete" if gl.kind == "unsupported" else "C12.panic", key + ":get", "EWMAStream::get %s after history %s: %s"
                                          % (gl.kind, "".join(hist[:k + 1]), gl.info.get("msg")), fn=get["pretty"])
                            ok = False
                            continue
                        out = K.classify_output(sim, gl.state, gl.value)
                        good = False
                        try:
                            if out and out[0] == out2[0]:
                                if out[0] == "N":
                                    good = True
                                elif out[0] == "E":
                                    good = sim.final_value(gl.state, out[1]) == sim.final_value(gl.state, Sym(out2[1].name, getattr(out[1], "ty", None)))
                                else:
                                    got = payload_expr(out[2])
                                    good = out[1] == out2[1] and A.equal(got, out2[2])
                                    if good and hist[:2] == ("S", "S") and k == 1:
                                        second = got
                        except Exception:
                            good = False
                        if not good:
                            chk.violation("C12.value", "%s:history:%s" % (key, "".join(hist[:k + 1])), "after the input history %s a new EWMAStream's get() returns %r, the recurrence gives %s"
                                          % ("".join(hist[:k + 1]), out, (out2[0],) + tuple(A.show(x) if hasattr(x, "free_symbols") else x for x in out2[1:])), fn=up["pretty"], file=loc(up["span"]))
                            ok = False
                    nxt.append((leaf.state, ref2, out2))
            frontier = nxt
    return ok, second


def check_ewma(chk, prog, sim):
    exprs = {}
    for (up, get) in impl_pairs(prog, "EWMAStream"):
        variant = "Quantity" if is_quantity_impl(up) else "generic"
        key = "ewma:" + variant
        chk.obligation(key, "EWMA step, first sample, invariant, panic sites (%s impl)" % variant)
        chk.analysed(up["pretty"])
        ug, gg = sim.identity_gargs(up), sim.identity_gargs(get)
        sty = subst(up["sig_inputs"][0], ug)["ty"]
        names = [n for n, _ in sim.adt_fields(sty)]
        vis = [i for i, (n, t) in enumerate(sim.adt_fields(sty)) if is_adt(t, "Result")]
        tis = [i for i, (n, t) in enumerate(sim.adt_fields(sty)) if is_adt(t, "Option")]
        hok, second = check_ewma_histories(chk, prog, sim, up, get, key)
        if len(vis) != 1 or len(tis) != 1:
            # the state is not (cached output, update time): the inductive rules below are written for that representation;
            # the history rule above is the whole verdict, and the float-cast rule runs on every reachable state it saw
            if second is not None:
                exprs[variant] = second
            if hok:
                chk.discharge(key)
            continue
        ok = hok
        vi, ti = vis[0], tis[0]

        def inv(val):
            v, t = val.fields[vi], val.fields[ti]
            some = isinstance(v, Enum) and v.vname == "Ok" and isinstance(v.fields[0], Enum) and v.fields[0].vname == "Some"
            return (not some) or (isinstance(t, Enum) and t.vname == "Some")
        # ---- all transitions from a symbolic pre-state
        import itertools
        vty, tty = sim.adt_fields(sty)[vi][1], sim.adt_fields(sty)[ti][1]
        oty = vty["args"][0]
        dty = oty["args"][0]
        dfs = sim.adt_fields(dty)
        shapes_v = {
            "Err": sim.mk_enum(vty, "Err", [Sym("eold", vty["args"][1])]),
            "None": sim.mk_enum(vty, "Ok", [sim.mk_enum(oty, "None")]),
            "Some": sim.mk_enum(vty, "Ok", [sim.mk_enum(oty, "Some", [Struct(dty, (Struct(dfs[0][1], (Sym("tprev", prim("i64")),)),
                                                                                 sample_value(sim, prog, up, "prev") or Sym("vprev", dfs[1][1])))])]),
        }
        shapes_t = {"None": sim.mk_enum(tty, "None"), "Some": sim.mk_enum(tty, "Some", [Struct(tty["args"][0], (Sym("tupd", prim("i64")),))])}
        for cat, (sv_name, st_name) in itertools.product(("E", "N", "S"), itertools.product(shapes_v, shapes_t)):
            if sv_name == "Some" and st_name == "None":
                continue   # violates the invariant: not a reachable state
            st = S.State()
            sv0 = sim.expand(st, Sym("self", sty))
            fs0 = list(sv0.fields)
            fs0[vi], fs0[ti] = shapes_v[sv_name], shapes_t[st_name]
            sv = Struct(sty, fs0)
            oid = st.new_obj("self", sv)
            st.labels[oid] = "self"
            for leaf in N.update_with(sim, up, ug, st, oid, cat, "n", value=sample_value(sim, prog, up, "n")):
                chk.evaluated(1, nontrivial=(key, cat, repr(leaf.pc)))
                pre = sim.final_value(leaf.state, sv)
                if leaf.kind == "unsupported":
                    chk.violation("analysis-incomplete", key, "EWMA update: " + leaf.info["msg"], site=K.leaf_site(leaf))
                    ok = False
                    continue
                if leaf.kind == "panic":
                    if is_quantity_impl(up) and "eq_assume_true" in str(leaf.info.get("msg")):
                        continue   # unit mismatch between the stored value and the new sample: outside the property (same unit throughout)
                    if inv(pre):
                        chk.violation("C12.panic", "%s:panic:%s" % (key, cat), "EWMAStream::update can panic (%s at %s) from a state satisfying 'cache present => update time present', input %s"
                                      % (leaf.info.get("msg"), K.leaf_site(leaf), cat), fn=up["pretty"], file=loc(up["span"]))
                        ok = False
                    continue
                if leaf.kind != "return":
                    chk.violation("C12.panic", "%s:%s" % (key, leaf.kind), "EWMA update %s: %s" % (leaf.kind, leaf.info.get("msg")), fn=up["pretty"])
                    ok = False
                    continue
                post = sim.final_value(leaf.state, leaf.state.mem[oid])
                if inv(pre) and not inv(post):
                    chk.violation("C12.invariant", "%s:invariant:%s" % (key, cat), "EWMAStream::update (input %s) breaks 'cache present => update time present': %r -> %r; the next present sample would hit the expect()"
                                  % (cat, pre, post), fn=up["pretty"], file=loc(up["span"]), path=leaf.pc)
                    ok = False
                # step identity on the path with a previous value
                if cat == "S":
                    pv = pre.fields[vi]
                    has_prev = isinstance(pv, Enum) and pv.vname == "Ok" and isinstance(pv.fields[0], Enum) and pv.fields[0].vname == "Some"
                    out = K.classify_output(sim, leaf.state, post.fields[vi])
                    try:
                        s = A.sym("self.smoothing_constant")
                        x = A.sym("vn")
                        if has_prev and isinstance(pre.fields[ti], Enum) and pre.fields[ti].vname == "Some":
                            prevd = pv.fields[0].fields[0]
                            p = payload_expr(prevd.fields[1])
                            tp = A.to_sympy(pre.fields[ti].fields[0].fields[0])
                            dt = (A.sym("tn") - tp) / 10**9
                        else:
                            p, dt = x, sp.Integer(0)
                        lam = 1 - sp.Pow(1 - s, dt)
                        exp = p * (1 - lam) + x * lam
                        got = payload_expr(out[2]) if out and out[0] == "S" else None
                        good = got is not None and out[1] == Sym("tn") and A.equal(got, exp)
                        if good and has_prev:
                            exprs[variant] = got
                            const = got.subs({x: sp.Symbol("c"), p: sp.Symbol("c")}, simultaneous=True) if isinstance(p, sp.Symbol) else None
                            if const is not None and not A.equal(const, sp.Symbol("c")):
                                chk.violation("C12.weights", key + ":sum", "EWMA weights do not sum to 1: constant input gives %s" % A.show(const), fn=up["pretty"])
                                ok = False
                    except Exception as e:
                        good = False
                    if not good:
                        chk.violation("C12.value", "%s:step:%s" % (key, "prev" if has_prev else "first"), "EWMAStream::update on a present sample (%s) yields %r, expected prev*(1-L)+new*L with L=1-(1-s)^dt%s"
                                      % ("with a previous value" if has_prev else "first sample", out, "" if has_prev else " (= the sample itself)"), fn=up["pretty"], file=loc(up["span"]))
                        ok = False
                    post_t = post.fields[ti]
                    if not (isinstance(post_t, Enum) and post_t.vname == "Some" and post_t.fields[0].fields[0] == Sym("tn")):
                        chk.violation("C12.value", key + ":update-time", "EWMA update time after a present sample is %r, expected the sample's time" % (post_t,), fn=up["pretty"])
                        ok = False
                    bad = N.absolute_time_casts(post, N.time_atom_pred(["tn", "tupd", "tprev"]))
                    if bad:
                        chk.violation("C12.shift", key + ":absolute-time", "EWMA converts an absolute timestamp to float: %r" % (bad[0],), fn=up["pretty"], file=loc(up["span"]))
                        ok = False
        # constructor satisfies the invariant
        st0, oid0, v0 = N.fresh_object(sim, prog, "EWMAStream")
        if not inv(v0):
            chk.violation("C12.invariant", key + ":initial", "constructor state violates the invariant: %r" % (v0,))
            ok = False
        if ok:
            chk.discharge(key)
    key = "ewma:variants-agree"
    chk.obligation(key, "generic and Quantity EWMA compute the same rational function")
    if len(exprs) == 2:
        pass
    if len(exprs) == 2 and A.equal(exprs["generic"], exprs["Quantity"]):
        chk.discharge(key)
    else:
        chk.violation("C12.siblings", key, "generic and Quantity EWMA steps differ or could not be extracted: %s" % {k: A.show(v) for k, v in exprs.items()})


def check_moving_average(chk, prog, sim, maxlen):
    per_variant = {}
    for (up, get) in impl_pairs(prog, "MovingAverageStream"):
        variant = "Quantity" if is_quantity_impl(up) else "generic"
        key = "ma:" + variant
        chk.obligation(key, "moving average weights, value, no panic (%s impl)" % variant)
        chk.analysed(up["pretty"])
        ug = sim.identity_gargs(up)
        sty = subst(up["sig_inputs"][0], ug)["ty"]
        import layout
        ok = True
        per_variant[variant] = {}
        # where the stream keeps its queue(s) and its window, whatever the layout: one queue of Datum<T>, or parallel queues of
        # timestamps and of payloads; the window is the Time leaf
        lv = layout.leaves(sim, sty, stop=("Reference", "VecDeque", "Time", "Result"))
        qs = [(n, t, p) for (n, t, p) in lv if is_adt(t, "VecDeque")]
        ws = [(n, t, p) for (n, t, p) in lv if is_adt(t, "Time")]
        if len(ws) != 1 or not qs:
            raise AnchorMissing("MovingAverageStream window / queue")
        qdatum = [q for q in qs if is_adt(q[1]["args"][0], "Datum")]
        qtime = [q for q in qs if is_adt(q[1]["args"][0], "Time")]
        qpay = [q for q in qs if q not in qdatum and q not in qtime]
        if not ((len(qdatum) == 1 and len(qs) == 1) or (len(qtime) == 1 and len(qpay) == 1 and len(qs) == 2)):
            raise AnchorMissing("MovingAverageStream queue layout (one queue of Datum, or one of Time and one of payloads)")
        wsym = Sym("self.%s.0" % ws[0][0], prim("i64"))
        time_ty = ws[0][1]

        def read_queue(val):
            """[(timestamp i64 value, payload)] of the queued samples of a (resolved) stream value"""
            if qdatum:
                q = layout.get_path(sim, None, val, qdatum[0][2])
                return [(el.fields[0].fields[0], el.fields[1]) for el in q.data[0]]
            qt = layout.get_path(sim, None, val, qtime[0][2])
            qp = layout.get_path(sim, None, val, qpay[0][2])
            if len(qt.data[0]) != len(qp.data[0]):
                raise S.Unsupported("the timestamp queue and the payload queue have different lengths: %d / %d" % (len(qt.data[0]), len(qp.data[0])))
            return [(t_.fields[0], v_) for t_, v_ in zip(qt.data[0], qp.data[0])]
        for k in range(0, maxlen + 1):
            st = S.State()
            sv = sim.expand(st, Sym("self", sty))
            samples = []
            for j in range(k):
                pty = (sim.adt_fields(qdatum[0][1]["args"][0])[1][1] if qdatum else qpay[0][1]["args"][0])
                val = sample_value(sim, prog, up, "q%d" % j) or Sym("vq%d" % j, pty)
                samples.append((Struct(time_ty, (Sym("tq%d" % j, prim("i64")),)), val))
            if qdatum:
                ety = qdatum[0][1]["args"][0]
                sv = layout.set_path(sim, st, sv, qdatum[0][2], M.mk_list([Struct(ety, (t_, v_)) for t_, v_ in samples], qdatum[0][1]))
            else:
                sv = layout.set_path(sim, st, sv, qtime[0][2], M.mk_list([t_ for t_, _v in samples], qtime[0][1]))
                sv = layout.set_path(sim, st, sv, qpay[0][2], M.mk_list([v_ for _t, v_ in samples], qpay[0][1]))
            oid = st.new_obj("self", sv)
            st.labels[oid] = "self"
            sim.assume_int_rel(st, wsym, Const(0), ">")
            times = [Sym("tq%d" % j) for j in range(k)] + [Sym("tn")]
            for a, b in zip(times, times[1:]):
                sim.assume_int_rel(st, a, b, "<=")
            for leaf in N.update_with(sim, up, ug, st, oid, "S", "n", value=sample_value(sim, prog, up, "n")):
                kept = None
                chk.evaluated(1, nontrivial=(key, k, repr(leaf.pc)))
                if leaf.kind == "unsupported":
                    chk.violation("analysis-incomplete", key, "moving average update (queue length %d): %s" % (k, leaf.info["msg"]), site=K.leaf_site(leaf))
                    ok = False
                    continue
                if leaf.kind != "return":
                    chk.violation("C12.panic", "%s:panic" % key, "MovingAverageStream::update panics with %d queued samples, positive window, non-decreasing timestamps: %s (%s) on path %s"
                                  % (k, leaf.info.get("msg"), K.leaf_site(leaf), [p for p in leaf.pc if p[0] == "rel"]), fn=up["pretty"], file=loc(leaf.info.get("span")))
                    ok = False
                    continue
                thr = sorted(n for n in leaf.state.notes if str(n).startswith("length-threshold:"))
                if thr:
                    chk.violation("C12.weights", "%s:length-threshold" % key, "MovingAverageStream::update compares the number of queued samples with %s, beyond every queue length explored here: the average is no longer a "
                                  "function of the samples inside the window alone once that many samples are queued (e.g. a cap that drops in-window samples)" % thr[0].split(":")[1],
                                  fn=up["pretty"], file=loc(up["span"]))
                    ok = False
                    continue
                post = sim.final_value(leaf.state, leaf.state.mem[oid])
                try:
                    kept = read_queue(post)
                except S.Unsupported as e:
                    chk.violation("C12.value", key + ":queues", "moving average after a present sample: %s" % e, fn=up["pretty"], file=loc(up["span"]))
                    ok = False
                    continue
                gls = [g_ for g_ in N.get_on(sim, get, sim.identity_gargs(get), leaf.state, oid)]
                out = K.classify_output(sim, gls[0].state, gls[0].value) if len(gls) == 1 and gls[0].kind == "return" else None
                if not (out and out[0] == "S" and out[1] == Sym("tn")):
                    chk.violation("C12.value", key + ":output", "moving average output after a present sample is %r" % (out,), fn=up["pretty"], file=loc(up["span"]))
                    ok = False
                    continue
                # which samples survive: the new one, and exactly those queued samples that are not older than the window start (tn - window);
                # decided per sample from the leaf's path condition
                kept_times = [repr(sim.resolve(leaf.state, el[0])) for el in kept]
                membership_bad = None
                if "tn" not in kept_times:
                    membership_bad = "the new sample is not in the queue after the update"
                # equalities of two timestamps on this path (ties) are applied by substitution before the lookup
                eqs = {}
                for rk, ral in leaf.state.rels.items():
                    if ral == frozenset("=") and isinstance(rk, Lin) and len(rk.terms) == 2 and rk.c == 0 and sorted(c for _, c in rk.terms) == [-1, 1]:
                        pos = [a for a, c in rk.terms if c == 1][0]
                        neg = [a for a, c in rk.terms if c == -1][0]
                        eqs[pos] = neg

                def subst_eq(x):
                    for _ in range(4):
                        if isinstance(x, Lin):
                            y = Const(x.c)
                            for a, c in x.terms:
                                y = int_add(y, int_mul(Const(c), eqs.get(a, a)))
                            if y == x:
                                break
                            x = y
                    return x
                for j in range(k):
                    d = subst_eq(int_add(int_sub(Sym("tq%d" % j), Sym("tn")), wsym))      # t_j - (tn - window)
                    al = rel_allowed(sim, leaf.state, d, Const(0))
                    inq = ("tq%d" % j) in kept_times
                    if al <= {">", "="} and not inq:
                        membership_bad = "queued sample %d lies inside the window on this path but was dropped" % j
                    elif al <= {"<"} and inq:
                        membership_bad = "queued sample %d is older than the window start on this path but was kept" % j
                if membership_bad:
                    chk.violation("C12.weights", "%s:membership:k=%d" % (key, k), "moving average with %d queued samples on path %s: %s (the output is no longer the average over the samples inside the window)"
                                  % (k, [p for p in leaf.pc if p[0] == "rel"], membership_bad), fn=up["pretty"], file=loc(up["span"]))
                    ok = False
                    continue
                # expected: sum v_i (e_i - s_i) / window over kept samples
                try:
                    got = payload_expr(out[2])
                    w = A.to_sympy(wsym)
                    tn = A.sym("tn")
                    exp = 0
                    starts = [tn - w]
                    ends = []
                    for el in kept:
                        e_i = A.to_sympy(el[0])
                        ends.append(e_i)
                    starts += ends[:-1]
                    weights_num = []
                    for el, e_i, s_i in zip(kept, ends, starts):
                        exp += payload_expr(el[1]) * ((e_i - s_i) / 10**9)
                        weights_num.append((el[0], e_i - s_i))
                    exp = exp / (w / 10**9)
                    good = A.equal(got, exp)
                except Exception as ex:
                    good = False
                    got = None
                if not good:
                    chk.violation("C12.value", "%s:formula:k=%d" % (key, k), "moving average with %d queued samples (kept %d): output %s is not sum v_i*(e_i-s_i)/window"
                                  % (k, len(kept), A.show(got) if got is not None else out), fn=up["pretty"], file=loc(up["span"]))
                    ok = False
                    continue
                per_variant[variant][(k, repr([p for p in leaf.pc if p[0] == "rel"]))] = got
                # constant input -> constant (weights sum to the window)
                vs = {}
                for el in kept:
                    for s_ in payload_expr(el[1]).free_symbols:
                        vs[s_] = sp.Symbol("c")
                if not A.equal(got.subs(vs, simultaneous=True), sp.Symbol("c")):
                    chk.violation("C12.weights", "%s:sum:k=%d" % (key, k), "moving average weights do not sum to the window (constant input gives %s)" % A.show(got.subs(vs, simultaneous=True)), fn=up["pretty"])
                    ok = False
                # non-negativity of each weight under the path condition
                prev_t = None
                for idx, el in enumerate(kept):
                    t_i = el[0]
                    if idx == 0:
                        d = int_add(int_sub(t_i, Sym("tn")), wsym)     # e_0 - (t - window)
                        al = rel_allowed(sim, leaf.state, d, Const(0))
                    else:
                        al = rel_allowed(sim, leaf.state, t_i, prev_t)
                    if not al <= {">", "="}:
                        chk.violation("C12.weights", "%s:negative:k=%d" % (key, k), "moving average weight of kept sample %d may be negative on path %s (its start lies after its end: a sample outside the window was kept)"
                                      % (idx, [p for p in leaf.pc if p[0] == "rel"]), fn=up["pretty"], file=loc(up["span"]))
                        ok = False
                    prev_t = t_i
                if len(chk.samples) < 6:
                    chk.sample({"filter": "MovingAverage/" + variant, "queued": k, "kept": len(kept), "path": [list(p) for p in leaf.pc if p[0] == "rel"], "output": A.show(got)[:160]})
        # event structure (error / absent) per variant, for the sibling comparison below
        ev = per_variant[variant].setdefault("__events__", {})
        for k in range(0, 3):
            for cat in ("E", "N"):
                st = S.State()
                sv = sim.expand(st, Sym("self", sty))      # the cached output stays symbolic: update / get fork on it themselves
                if qdatum:
                    ety = qdatum[0][1]["args"][0]
                    sv = layout.set_path(sim, st, sv, qdatum[0][2], M.mk_list([Sym("q%d" % j, ety) for j in range(k)], qdatum[0][1]))
                else:
                    sv = layout.set_path(sim, st, sv, qtime[0][2], M.mk_list([Sym("qt%d" % j, qtime[0][1]["args"][0]) for j in range(k)], qtime[0][1]))
                    sv = layout.set_path(sim, st, sv, qpay[0][2], M.mk_list([Sym("qv%d" % j, qpay[0][1]["args"][0]) for j in range(k)], qpay[0][1]))
                oid = st.new_obj("self", sv)
                st.labels[oid] = "self"
                outs = set()
                for leaf in N.update_with(sim, up, ug, st, oid, cat, "n"):
                    chk.evaluated(1)
                    if leaf.kind != "return":
                        outs.add((leaf.kind,))
                        continue
                    post = sim.final_value(leaf.state, leaf.state.mem[oid])
                    try:
                        qlen = len(read_queue(post))
                    except S.Unsupported:
                        qlen = "?"
                    kinds = []
                    for g_ in N.get_on(sim, get, sim.identity_gargs(get), leaf.state, oid):
                        c = K.classify_output(sim, g_.state, g_.value) if g_.kind == "return" else None
                        kinds.append(c[0] if c else g_.kind)
                    outs.add((qlen, tuple(sorted(kinds))))
                ev[(k, cat)] = outs
        if ok:
            chk.discharge(key)
    ea, eb = per_variant.get("generic", {}).pop("__events__", {}), per_variant.get("Quantity", {}).pop("__events__", {})
    kev = "ma:variants-agree-on-events"
    chk.obligation(kev, "generic and Quantity moving averages treat error / absent events identically (queue and cache)")
    diff = [c for c in sorted(set(ea) | set(eb)) if ea.get(c) != eb.get(c)]
    if diff or not ea:
        chk.violation("C12.siblings", kev, "the two moving-average variants handle events differently: (queue length, input, cache) %s: generic %s vs Quantity %s"
                      % (diff[:2], [ea.get(c) for c in diff[:2]], [eb.get(c) for c in diff[:2]]))
    else:
        chk.discharge(kev)
    key = "ma:variants-agree"
    chk.obligation(key, "generic and Quantity moving averages compute the same rational functions on the same cases")
    a, b = per_variant.get("generic", {}), per_variant.get("Quantity", {})
    good = bool(a) and set(a) == set(b) and all(A.equal(a[c], b[c]) for c in a)
    if good:
        chk.discharge(key)
    else:
        diff = [c for c in set(a) | set(b) if c not in a or c not in b or not A.equal(a[c], b[c])]
        chk.violation("C12.siblings", key, "generic and Quantity moving averages differ on cases %s" % diff[:3])


def check_powf_providers(chk):
    """The EWMA weight is 1 - (1 - smoothing)^dt through the crate's own powf(x, y) wrapper, which exists once per float
    provider (std, micromath; libm re-exports its function).  Each local wrapper must compute x^y in operand order."""
    import dimkit as Q
    for cfg in ("K1", "K2", "K3"):
        p = load_config(cfg)
        if cfg not in chk.configs:
            chk.configs.append(cfg)
        key = "ewma:powf-provider@" + cfg
        chk.obligation(key, "powf wrapper of configuration " + cfg)
        ok = True
        s2 = S.Sim(p)
        for f in [f for f in p.by_name.get("powf", []) if f["kind"] == "Fn"]:
            chk.analysed(f["pretty"] + "@" + cfg)
            ls = Q.run_simple(s2, f, [Sym("x", prim("f32")), Sym("y", prim("f32"))])
            chk.evaluated(len(ls), nontrivial=(key, f["pretty"]))
            r = s2.resolve(ls[0].state, ls[0].value) if len(ls) == 1 and ls[0].kind == "return" else None
            if r != Term("powf", (Sym("x"), Sym("y"))):
                chk.violation("C12.value", "ewma:powf-provider@%s" % cfg, "[configuration %s] the crate's power function (EWMA weight 1 - (1 - smoothing)^dt, exponent stream) computes %r, expected powf(x, y)" % (cfg, r),
                              fn=f["pretty"], file=loc(f["span"]))
                ok = False
        if ok:
            chk.discharge(key)


def run(chk):
    prog = load_config("K1")
    chk.configs.append("K1")
    chk.rule("C12.value", "EWMA step / moving-average formula as rational (power) functions over the reals")
    chk.rule("C12.weights", "weights sum to 1 / to the window; moving-average weights non-negative under each path condition")
    chk.rule("C12.invariant", "EWMA: 'cache present => update time present' holds initially and is preserved by every update leaf")
    chk.rule("C12.panic", "no panic leaf from states satisfying the invariant (EWMA) / with positive window and non-decreasing timestamps (moving average)")
    chk.rule("C12.siblings", "f32 and Quantity variants agree")
    chk.rule("C12.shift", "affine-time typing")
    sim = S.Sim(prog)
    check_ewma(chk, prog, sim)
    check_moving_average(chk, prog, sim, 3 if chk.tier == "quick" else 4)
    check_powf_providers(chk)
    # 'the samples inside its window' / 'prev': what the filters remember across absent and error events is C05's transition
    # table for them, and dt is Quantity::from(Time) - C18's conversion table (both shared, evaluated here too)
    from rules import C05, C18
    for name in ("EWMAStream", "MovingAverageStream"):
        C05.check_stream(chk, prog, sim, name, C05.STREAMS[name])
    C18.check_conversions(chk, prog, sim, tag=":filters")
    chk.assume("real-arithmetic model; powf as real power", "moving-average queue length bounded in the pre-state (the trimming loop then runs on concrete lists)",
               "timestamps non-decreasing, window > 0 (the property's own preconditions)", "convexity bounds in f32 and L in [0,1] are not decided")
    chk.extra["std_models"] = sorted(sim.stats["models_used"])
    return ("EWMA: transitions from a symbolic pre-state, inductive invariant discharging the expect(); moving average: bounded queue unrolling with symbolic "
            "times, weights extracted and checked for formula, sum and sign under each path condition; variants compared as rational functions.")
