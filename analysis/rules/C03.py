"""C03: combined data carry the newest contributing timestamp; selection picks newest; replace helpers.

Decides, for all i64 timestamps and all payload types at once (payload type is a generic parameter of the analysed
MIR; timestamps are order atoms forked on demand):
  a. the 34 core::ops impls on Datum<_>: two-datum forms -> result time is one of the operand times and no operand is
     strictly newer; scalar and unary forms -> time unchanged;
  b. replace_if_older_than / replace_if_none_or_older_than(_option): replace iff empty or candidate strictly newer,
     returned bool == replaced; latest(): result is a candidate, none strictly newer;
  c. stream-level merges/selections (shared tables with C02), terminal reads and device updates (devkit).
"""
from values import *
from program import load_config, subst, ty_str, is_adt, prim, AnchorMissing, loc
import sim as S
import streamkit as K

# every binary / assign operator trait of core::ops: the timestamp rule holds for "every operator form", including forms added later
OPS2 = {"Add": "add", "Sub": "sub", "Mul": "mul", "Div": "div", "Rem": "rem", "BitAnd": "bitand", "BitOr": "bitor", "BitXor": "bitxor", "Shl": "shl", "Shr": "shr"}
OPSA = {"AddAssign": "add_assign", "SubAssign": "sub_assign", "MulAssign": "mul_assign", "DivAssign": "div_assign", "RemAssign": "rem_assign",
        "BitAndAssign": "bitand_assign", "BitOrAssign": "bitor_assign", "BitXorAssign": "bitxor_assign", "ShlAssign": "shl_assign", "ShrAssign": "shr_assign"}
OPS1 = {"Neg": "neg", "Not": "not"}
OPNAME = {"Neg": "Neg", "Not": "Not"}
for _t in list(OPS2):
    OPNAME[_t] = _t
    OPNAME[_t + "Assign"] = _t


def rel_allowed(sim, st, a, b):
    """Possible relations of a vs b (ints) under st's path condition."""
    d = int_sub(a, b)
    if isinstance(d, Const):
        return {"<" if d.val < 0 else ("=" if d.val == 0 else ">")}
    key, flip = sim.canon_int(d)
    al = set(sim.int_allowed(st, key))
    if flip:
        al = {{"<": ">", ">": "<", "=": "="}[x] for x in al}
    return al


def datum_parts(sim, st, v):
    v = sim.final_value(st, v)
    if isinstance(v, Struct) and len(v.fields) == 2:
        t = v.fields[0]
        t = t.fields[0] if isinstance(t, Struct) and len(t.fields) == 1 else t
        return t, v.fields[1]
    return None, None


def check_datum_ops(chk, prog, sim):
    n = 0
    for imp in prog.impls:
        tr = imp.get("trait", "").split("::")[-1]
        if not is_adt(imp["self"], "Datum") or tr not in list(OPS2) + list(OPSA) + list(OPS1):
            continue
        mname = {**OPS2, **OPSA, **OPS1}[tr]
        it = [i for i in imp["items"] if i["name"] == mname]
        if not it:
            continue
        fn = prog.fns[it[0]["did"]]
        n += 1
        rhs = imp["trait_args"][1] if len(imp["trait_args"]) > 1 else None
        two = rhs is not None and is_adt(rhs, "Datum")
        unary = tr in OPS1
        key = "datum-op:%s" % imp["trait_ref"]
        chk.obligation(key, "timestamp rule of " + imp["trait_ref"])
        chk.analysed(fn["pretty"])
        st = S.State()
        gargs = sim.identity_gargs(fn)
        a0 = sim.make_arg(st, "a", subst(fn["sig_inputs"][0], gargs))
        args = [a0]
        if not unary:
            args.append(sim.make_arg(st, "b", subst(fn["sig_inputs"][1], gargs)))
        leaves = sim.run(fn, gargs, args, st)
        ok = True
        at, bt = Sym("a.time.0"), Sym("b.time.0")
        for leaf in leaves:
            chk.evaluated(1, nontrivial=(key, repr(leaf.pc)) if leaf.pc else None)
            if leaf.kind != "return":
                rule = "analysis-incomplete" if leaf.kind == "unsupported" else "C03.datum-op"
                chk.violation(rule, key, "%s: %s %s" % (imp["trait_ref"], leaf.kind, leaf.info.get("msg")), site=K.leaf_site(leaf))
                ok = False
                continue
            ta = K.time_arith(leaf)
            if ta:
                chk.violation("C03.datum-op", key + ":time-arithmetic", "%s does integer arithmetic on a timestamp (%s %s %s) instead of comparing: overflows for near-extreme timestamps" % ((imp["trait_ref"],) + tuple(ta[0])),
                              fn=fn["pretty"], file=loc(fn["span"]))
                ok = False
            res = leaf.state.mem[a0.ptr.obj] if tr in OPSA else leaf.value
            t, p = datum_parts(sim, leaf.state, res)
            if t is None:
                chk.violation("C03.datum-op", key, "%s: result is not a datum: %r" % (imp["trait_ref"], res))
                ok = False
                continue
            if two:
                if t not in (at, bt) or not K.no_candidate_newer(sim, leaf.state, t, [at, bt]):
                    chk.violation("C03.datum-op", key, "%s: result time %r is not the newest of the two operand times on path %s" % (imp["trait_ref"], t, leaf.pc),
                                  fn=fn["pretty"], file=loc(fn["span"]), path=leaf.pc)
                    ok = False
            else:
                if t != at or any(x[0] == 'rel' for x in leaf.pc):
                    chk.violation("C03.datum-op", key, "%s: scalar/unary form must leave the timestamp unchanged (got %r, path %s)" % (imp["trait_ref"], t, leaf.pc),
                                  fn=fn["pretty"], file=loc(fn["span"]))
                    ok = False
            # payload provenance for the generic impls: the same operator on the payloads in operand order
            if imp["self"]["args"] and imp["self"]["args"][0].get("k") == "param":
                bv = Sym("b.value") if two else Sym("b")
                exp = Term(OPNAME[tr], (Sym("a.value"),) if unary else (Sym("a.value"), bv))
                if p != exp:
                    chk.violation("C03.datum-op-payload", key, "%s: payload %r is not %r" % (imp["trait_ref"], p, exp), fn=fn["pretty"], file=loc(fn["span"]))
                    ok = False
            chk.sample({"impl": imp["trait_ref"], "path": [list(x) for x in leaf.pc], "result": repr(sim.final_value(leaf.state, res))}, cap=6)
        if ok:
            chk.discharge(key)
    if n < 34:
        chk.violation("floor", "C03.datum-ops", "expected >= 34 core::ops impls on Datum<_>, found %d" % n)
    return n


def check_helpers(chk, prog, sim):
    # replace_if_older_than(&mut self, cand) -> bool
    def run_replace(fn, self_opt, cand_opt, key, gargs=None):
        chk.obligation(key, fn["pretty"])
        chk.analysed(fn["pretty"])
        st = S.State()
        gargs = gargs if gargs is not None else sim.identity_gargs(fn)
        a0 = sim.make_arg(st, "slot", subst(fn["sig_inputs"][0], gargs))
        c0 = sim.make_arg(st, "cand", subst(fn["sig_inputs"][1], gargs))
        init = st.mem[a0.ptr.obj]
        leaves = sim.run(fn, gargs, [a0, c0], st)
        ok = True
        for leaf in leaves:
            chk.evaluated(1, nontrivial=(key, repr(leaf.pc)))
            if leaf.kind != "return":
                chk.violation("analysis-incomplete" if leaf.kind == "unsupported" else "C03.replace", key, "%s: %s %s" % (fn["name"], leaf.kind, leaf.info.get("msg")))
                ok = False
                continue
            ta = K.time_arith(leaf)
            if ta:
                chk.violation("C03.replace", key + ":time-arithmetic", "%s does integer arithmetic on a timestamp (%s %s %s) instead of comparing: overflows for near-extreme timestamps" % ((fn["name"],) + tuple(ta[0])),
                              fn=fn["pretty"], file=loc(fn["span"]))
                ok = False
            ret = sim.resolve(leaf.state, leaf.value)
            if not isinstance(ret, Const):
                chk.violation("C03.replace", key, "%s: returned flag undetermined" % fn["name"])
                ok = False
                continue
            stl = leaf.state
            slot_before = sim.final_value(stl, init)
            slot_after = sim.final_value(stl, stl.mem[a0.ptr.obj])
            cand = sim.final_value(stl, c0)
            # unwrap options
            cand_d = cand
            if cand_opt:
                if isinstance(cand, Enum) and cand.vname == "None":
                    if ret.val or slot_after != slot_before:
                        chk.violation("C03.replace", key, "%s: absent candidate must not replace (ret=%r)" % (fn["name"], ret))
                        ok = False
                    continue
                cand_d = cand.fields[0]
            exp_after = (sim.mk_enum(slot_before.ty if isinstance(slot_before, Enum) else subst(fn["sig_inputs"][0], gargs)["ty"], "Some", [cand_d])
                         if self_opt else cand_d)
            if self_opt and isinstance(slot_before, Enum) and slot_before.vname == "None":
                if not ret.val or slot_after != exp_after:
                    chk.violation("C03.replace", key, "%s: empty slot must be filled and report true (ret=%r after=%r)" % (fn["name"], ret, slot_after))
                    ok = False
                continue
            if self_opt and not isinstance(slot_before, Enum):
                # the path decided its answer without looking at the slot at all (with a present candidate)
                chk.violation("C03.replace", key, "%s: reports %r for a present candidate without inspecting the slot (path %s): the flag cannot be truthful for both an older and a newer candidate"
                              % (fn["name"], ret.val, [p_ for p_ in leaf.pc][:3]), fn=fn["pretty"], file=loc(fn["span"]), path=leaf.pc)
                ok = False
                continue
            cur = slot_before.fields[0] if self_opt else slot_before
            ct, _ = datum_parts(sim, stl, cand_d)
            st_, _ = datum_parts(sim, stl, cur)
            al = rel_allowed(sim, stl, ct, st_)
            if ret.val:
                good = slot_after == exp_after and al <= {">"}
            else:
                good = slot_after == slot_before and al <= {"<", "="}
            if not good:
                chk.violation("C03.replace", key, "%s: must replace exactly when the candidate is strictly newer and report it truthfully "
                              "(ret=%r, candidate-vs-slot order %s, slot after=%r)" % (fn["name"], ret.val, sorted(al), slot_after),
                              fn=fn["pretty"], file=loc(fn["span"]), path=leaf.pc)
                ok = False
            chk.sample({"helper": fn["name"], "path": [list(x) for x in leaf.pc], "ret": ret.val, "after": repr(slot_after)}, cap=10)
        if ok:
            chk.discharge(key)

    f1 = prog.find_fn(name="replace_if_older_than", self_name="Datum")
    run_replace(f1, False, False, "helper:replace_if_older_than")
    def ext_method(name):
        """the impl's method, or - when the trait provides it - the provided body instantiated at the implementing type"""
        fi = [f for f in prog.by_name.get(name, []) if (f.get("impl_trait") or "").endswith("OptionDatumExt")]
        if len(fi) == 1:
            return fi[0], None
        fd = [f for f in prog.by_name.get(name, []) if f.get("trait_default") and (f.get("trait") or "").endswith("OptionDatumExt")]
        imps = [i for i in prog.impls if (i.get("trait") or "").endswith("OptionDatumExt")]
        if len(fd) == 1 and len(imps) == 1:
            g = sim.identity_gargs(fd[0])
            return fd[0], [imps[0]["self"]] + list(g[1:])
        raise AnchorMissing("OptionDatumExt impl methods")
    f2, g2 = ext_method("replace_if_none_or_older_than")
    f3, g3 = ext_method("replace_if_none_or_older_than_option")
    run_replace(f2, True, False, "helper:replace_if_none_or_older_than", g2)
    run_replace(f3, True, True, "helper:replace_if_none_or_older_than_option", g3)
    # latest
    fl = [f for f in prog.by_name.get("latest", []) if f["kind"] == "Fn"]
    if len(fl) != 1:
        raise AnchorMissing("fn latest")
    fl = fl[0]
    key = "helper:latest"
    chk.obligation(key, fl["pretty"])
    chk.analysed(fl["pretty"])
    st = S.State()
    gargs = sim.identity_gargs(fl)
    a = sim.make_arg(st, "a", subst(fl["sig_inputs"][0], gargs))
    b = sim.make_arg(st, "b", subst(fl["sig_inputs"][1], gargs))
    ok = True
    for leaf in sim.run(fl, gargs, [a, b], st):
        chk.evaluated(1, nontrivial=(key, repr(leaf.pc)))
        if leaf.kind != "return":
            chk.violation("analysis-incomplete" if leaf.kind == "unsupported" else "C03.latest", key, "latest: %s %s" % (leaf.kind, leaf.info.get("msg")))
            ok = False
            continue
        ta = K.time_arith(leaf)
        if ta:
            chk.violation("C03.latest", key + ":time-arithmetic", "latest() does integer arithmetic on a timestamp (%s %s %s) instead of comparing: overflows for near-extreme timestamps" % tuple(ta[0]), fn=fl["pretty"], file=loc(fl["span"]))
            ok = False
        r = sim.final_value(leaf.state, leaf.value)
        fa, fb = sim.final_value(leaf.state, a), sim.final_value(leaf.state, b)
        t, _ = datum_parts(sim, leaf.state, r)
        if r not in (fa, fb) or not K.no_candidate_newer(sim, leaf.state, t, [Sym("a.time.0"), Sym("b.time.0")]):
            chk.violation("C03.latest", key, "latest(): result %r is not a candidate with no strictly newer candidate (path %s)" % (r, leaf.pc), fn=fl["pretty"], file=loc(fl["span"]))
            ok = False
    if ok:
        chk.discharge(key)


def run(chk):
    prog = load_config("K1")
    chk.configs.append("K1")
    chk.rule("C03.datum-op", "two-datum operator forms yield the newest operand time; scalar/unary forms keep the time")
    chk.rule("C03.replace", "replace helpers replace iff empty or strictly newer and return exactly that")
    chk.rule("C03.latest", "latest() returns a candidate; no candidate strictly newer")
    chk.rule("C03.device", "device updates stamp written states with the newest contributing read time")
    chk.rule("C03.stream", "stream-level merges/selections: output time is the newest contributing time (tables shared with C02)")
    sim = S.Sim(prog)
    n = check_datum_ops(chk, prog, sim)
    check_helpers(chk, prog, sim)
    # stream-level obligations (tables shared with C02; only timestamp-bearing streams)
    import rules.C02 as C02
    maxn = 3 if chk.tier == "quick" else 5
    sub = __import__("report").Check("C03", chk.tier)
    for name in ["DifferenceStream", "QuotientStream", "ExponentStream", "AndStream", "OrStream", "Sum2", "Product2"]:
        C02.run_stream(sub, prog, sim, name)
    for name in ["SumStream", "ProductStream", "Latest"]:
        for k in range(1, maxn + 1):
            C02.run_stream(sub, prog, sim, name, k)
    # a float-provider-specific fast path must keep the timestamp rule: the two-input streams again on K3 (micromath only)
    p3 = load_config("K3")
    chk.configs.append("K3")
    s3 = S.Sim(p3)
    sub3 = __import__("report").Check("C03", chk.tier)
    for name in ["DifferenceStream", "QuotientStream", "ExponentStream", "Sum2", "Product2"]:
        if p3.has_adt(name):
            C02.run_stream(sub3, p3, s3, name)
    chk.evaluations += sub3.evaluations
    for v in sub3.violations:
        if v["rule"] == "C02.pure":
            continue
        chk.violation("C03.stream" if v["rule"].startswith("C02") else v["rule"], v["key"] + "@K3", "[no_std + micromath] " + v["what"], **v["detail"])
    for k, d in sub.obligations.items():
        chk.obligation("stream-" + k, d)
        if k in sub.discharged:
            chk.discharge("stream-" + k)
    chk.evaluations += sub.evaluations
    chk.nontrivial |= sub.nontrivial
    chk.functions |= sub.functions
    for v in sub.violations:
        if v["rule"] == "C02.pure":
            continue
        chk.violation("C03.stream" if v["rule"].startswith("C02") else v["rule"], v["key"], v["what"], **v["detail"])
        # a failed stream table that is not about time still leaves the obligation undischarged (fail closed)
    # terminal reads and device updates
    try:
        import devkit
        devkit.check_c03(chk, prog, sim)
        # the selections must not depend on the profile: in a release build debug_assert!(..) and its argument are gone, so a
        # store wrapped in one silently disappears (K6 = default features, --release)
        import report
        p6 = load_config("K6")
        chk.configs.append("K6")
        sub6 = report.Check("C03", chk.tier)
        devkit.check_c03(sub6, p6, S.Sim(p6))
        check_helpers(sub6, p6, S.Sim(p6))
        chk.evaluations += sub6.evaluations
        for v in sub6.violations:
            chk.violation(v["rule"], v["key"] + "@K6", "[release profile] " + v["what"], **v["detail"])
    except ImportError:
        chk.notes.append("devkit not available: terminal/device obligations not evaluated")
    # device updates also SELECT: the command a device relays is the newest of those at its terminals (table shared with C13)
    import rules.C13 as C13
    subd = __import__("report").Check("C03", chk.tier)
    for dev, n in (("Invert", None), ("GearTrain", None), ("Axle", 2)):
        C13.check_device(subd, prog, sim, dev, n)
    chk.evaluations += subd.evaluations
    keyd = "device-selection:commands"
    chk.obligation(keyd, "the command selected by a device update is a candidate with no strictly newer candidate (shared with C13)")
    for v in subd.violations:
        chk.violation("C03.device" if v["rule"].startswith("C13") else v["rule"], "select:" + v["key"], "device update selects a command that is not the newest candidate: " + v["what"], **v["detail"])
    if not subd.violations:
        chk.discharge(keyd)
    # device updates: written states carry the newest contributing time (shared simulation with C08)
    import rules.C08 as C08
    import report as _r
    sub2 = _r.Check("C03", chk.tier)
    C08.check_all(sub2, prog, sim)
    dev_bad = set()
    for v in sub2.violations:
        if v["rule"] in ("C08.time", "analysis-incomplete"):
            chk.violation("C03.device" if v["rule"] == "C08.time" else v["rule"], v["key"], v["what"], **v["detail"])
            dev_bad.add(v["key"].split(":time")[0])
    for k, d in sub2.obligations.items():
        if k.startswith("project:"):
            chk.obligation("device-time:" + k[8:], "newest contributing timestamp in " + k[8:])
            if k not in dev_bad:
                chk.discharge("device-time:" + k[8:])
    chk.evaluations += sub2.evaluations
    chk.nontrivial |= sub2.nontrivial
    chk.functions |= sub2.functions
    chk.assume("Time's PartialOrd/PartialEq impls are derived (checked in facts)", "no i64 overflow in timestamp arithmetic")
    if not (prog.is_derived_impl("PartialOrd", "Time") and prog.is_derived_impl("PartialEq", "Time")):
        chk.violation("C03.time-order", "Time", "Time's comparison impls are not derived: order reasoning is unsound for this tree")
    chk.extra["datum_ops_impls"] = n
    chk.extra["std_models"] = sorted(sim.stats["models_used"])
    return ("Every operator impl on Datum<_>, the replace helpers, latest(), and the timestamp-bearing streams are abstractly "
            "interpreted with symbolic timestamps; order relations are forked on demand and each leaf is checked against "
            "'newest contributing time' under its path condition (all models of the order constraints).")
