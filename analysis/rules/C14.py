"""C14: State kinematics and State/Command/Quantity conversions.

  K  State::update over the reals equals (p + v dt + a dt^2/2, v + a dt), acceleration untouched, dt = 0 identity
     (value graph -> rational function, engine D);
  S  setters: a store happens only on the path where the argument's unit equals the right constant, higher derivatives are
     zeroed there, and the rejecting path (Err) leaves the state untouched; raw setters likewise without a gate;
  F  Command::from(State) is the lowest non-zero derivative (decision tree over f32 == 0.0 atoms);
  A  accessor / constructor / conversion tables over the three command kinds (mutually consistent, round trip);
  O  State and Command arithmetic is component-wise; Command Add/Sub panic iff the kinds differ, keep the kind otherwise.
"""
import itertools
from values import *
from program import load_config, subst, ty_str, is_adt, prim, AnchorMissing, loc
import sim as S
import streamkit as K
import dimkit as Q
import devkit as D
import algebra as A
from rules.C01 import forced_equal, possibly_equal, sym_unit
from program import units_enabled

KINDS = ["Position", "Velocity", "Acceleration"]
KIND_UNIT = {"Position": (1, 0), "Velocity": (1, -1), "Acceleration": (1, -2)}


def adt_ty(prog, name):
    a = prog.adt_by_name(name)
    return {"k": "adt", "did": a["did"], "name": name, "args": []}


def state_fields(prog):
    return [f["name"] for f in prog.adt_by_name("State")["variants"][0]["fields"]]


def check_update(chk, prog, sim):
    key = "K:State::update"
    chk.obligation(key, "closed-form constant-acceleration update over the reals")
    fn = [f for f in prog.find_fns(name="update", self_name="State") if not f.get("impl_trait")]
    if len(fn) != 1:
        raise AnchorMissing("State::update")
    fn = fn[0]
    chk.analysed(fn["pretty"])
    st = S.State()
    gargs = sim.identity_gargs(fn)
    a0 = sim.make_arg(st, "s", subst(fn["sig_inputs"][0], gargs))
    dt = Sym("dt", subst(fn["sig_inputs"][1], gargs))
    leaves = [l for l in sim.run(fn, gargs, [a0, dt], st)]
    rets = [l for l in leaves if l.kind == "return"]
    ok = len(rets) >= 1
    for leaf in leaves:
        chk.evaluated(1, nontrivial=(key, repr(leaf.pc)))
        if leaf.kind == "unsupported":
            chk.violation("analysis-incomplete", key, "State::update: " + leaf.info["msg"])
            ok = False
        elif leaf.kind == "panic":
            # internal unit assertions must be infeasible: units are constants here, so a panic leaf is a real mismatch
            chk.violation("C14.K", key + ":panic", "State::update can panic: %s (%s)" % (leaf.info.get("msg"), K.leaf_site(leaf)), fn=fn["pretty"])
            ok = False
    for leaf in rets:
        post = sim.final_value(leaf.state, leaf.state.mem[a0.ptr.obj])
        names = state_fields(prog)
        vals = dict(zip(names, post.fields))
        p, v, a = A.sym("s.position"), A.sym("s.velocity"), A.sym("s.acceleration")
        t = A.sym("dt.0") / 10**9
        try:
            gp, gv = A.to_sympy(vals["position"]), A.to_sympy(vals["velocity"])
        except ValueError as e:
            chk.violation("C14.K", key, "State::update: value graph not arithmetic: %s" % e)
            ok = False
            continue
        if not A.equal(gp, p + v * t + a * t * t / 2):
            chk.violation("C14.K", key + ":position", "State::update position = %s, expected p + v*dt + a*dt^2/2" % A.show(gp), fn=fn["pretty"], file=loc(fn["span"]))
            ok = False
        if not A.equal(gv, v + a * t):
            chk.violation("C14.K", key + ":velocity", "State::update velocity = %s, expected v + a*dt" % A.show(gv), fn=fn["pretty"], file=loc(fn["span"]))
            ok = False
        import numkit as _N
        lossy = _N.lossy_ops(post)
        if lossy:
            chk.violation("C14.K", key + ":lossy", "State::update's value graph contains a truncating integer operation %r: the time step is divided/truncated as an integer before the conversion to seconds" % (lossy[0],),
                          fn=fn["pretty"], file=loc(fn["span"]))
            ok = False
        if vals["acceleration"] != Sym("s.acceleration"):
            chk.violation("C14.K", key + ":acceleration", "State::update writes the acceleration: %r" % (vals["acceleration"],), fn=fn["pretty"], file=loc(fn["span"]))
            ok = False
        chk.sample({"fn": "State::update", "position": A.show(gp), "velocity": A.show(gv)}, cap=2)
    if ok:
        chk.discharge(key)


def check_setters(chk, prog, sim, tag=""):
    names = state_fields(prog)
    table = {"set_constant_acceleration": ("acceleration", []), "set_constant_velocity": ("velocity", ["acceleration"]),
             "set_constant_position": ("position", ["velocity", "acceleration"])}
    for sname, (target, zeroed) in table.items():
        for raw in (False, True):
            fname = sname + ("_raw" if raw else "")
            key = "S:State::" + fname + tag
            chk.obligation(key, "setter semantics of " + fname)
            fs = [f for f in prog.find_fns(name=fname, self_name="State") if not f.get("impl_trait")]
            if len(fs) != 1:
                raise AnchorMissing("State::" + fname)
            fn = fs[0]
            chk.analysed(fn["pretty"])
            st = S.State()
            gargs = sim.identity_gargs(fn)
            a0 = sim.make_arg(st, "s", subst(fn["sig_inputs"][0], gargs))
            arg = Sym("x", subst(fn["sig_inputs"][1], gargs))
            pre = sim.final_value(st, st.mem[a0.ptr.obj])
            want_unit = KIND_UNIT[target.capitalize()]
            ok = True
            n_ok = n_err = 0
            for leaf in sim.run(fn, gargs, [a0, arg], st):
                chk.evaluated(1, nontrivial=(key, repr(leaf.pc)))
                if leaf.kind != "return":
                    chk.violation("analysis-incomplete" if leaf.kind == "unsupported" else "C14.S", key, "%s: %s %s" % (fname, leaf.kind, leaf.info.get("msg")), fn=fn["pretty"])
                    ok = False
                    continue
                stl = leaf.state
                post = sim.final_value(stl, stl.mem[a0.ptr.obj])
                r = sim.final_value(stl, leaf.value)
                accepted = raw or (isinstance(r, Enum) and r.vname == "Ok")
                if not raw and units_enabled(prog):
                    u = sym_unit("x.unit")
                    same = forced_equal(sim, stl, u[0], Const(want_unit[0])) and forced_equal(sim, stl, u[1], Const(want_unit[1]))
                    maybe = possibly_equal(sim, stl, u[0], Const(want_unit[0])) and possibly_equal(sim, stl, u[1], Const(want_unit[1]))
                    if accepted and not same:
                        chk.violation("C14.S", key + ":gate", "%s accepts an argument whose unit may differ from %s (path %s)" % (fname, want_unit, leaf.pc), fn=fn["pretty"], file=loc(fn["span"]))
                        ok = False
                    if not accepted and maybe:
                        chk.violation("C14.S", key + ":gate", "%s rejects an argument whose unit may be %s (path %s)" % (fname, want_unit, leaf.pc), fn=fn["pretty"], file=loc(fn["span"]))
                        ok = False
                if accepted:
                    n_ok += 1
                    exp = dict(zip(names, pre.fields))
                    exp[target] = Sym("x") if raw else Sym("x.value")
                    for z in zeroed:
                        exp[z] = Const(0.0, prim("f32"))
                    got = dict(zip(names, post.fields))
                    if got != exp:
                        chk.violation("C14.S", key + ":store", "%s stores %r, expected %r" % (fname, got, exp), fn=fn["pretty"], file=loc(fn["span"]))
                        ok = False
                else:
                    n_err += 1
                    if post != pre:
                        chk.violation("C14.S", key + ":untouched", "%s rejects the argument (Err) but changes the state from %r to %r" % (fname, pre, post), fn=fn["pretty"], file=loc(fn["span"]))
                        ok = False
            if not units_enabled(prog) and n_err:
                chk.violation("C14.S", key + ":rejects-unchecked", "%s rejects an argument although dimension checking is compiled out" % fname, fn=fn["pretty"], file=loc(fn["span"]))
                ok = False
            if n_ok == 0 or (not raw and n_err == 0 and units_enabled(prog)):
                chk.violation("C14.S", key + ":paths", "%s: expected both an accepting and a rejecting path (got %d/%d)" % (fname, n_ok, n_err), fn=fn["pretty"])
                ok = False
            if ok:
                chk.discharge(key)


def check_command_from_state(chk, prog, sim):
    key = "F:Command::from(State)"
    chk.obligation(key, "lowest non-zero derivative")
    fn = Q.find_from(prog, "Command", "State")
    chk.analysed(fn["pretty"])
    ok = True
    seen = set()
    for leaf in Q.run_simple(sim, fn, [Sym("s", adt_ty(prog, "State"))]):
        chk.evaluated(1, nontrivial=(key, repr(leaf.pc)))
        if leaf.kind != "return":
            chk.violation("analysis-incomplete" if leaf.kind == "unsupported" else "C14.F", key, "Command::from(State): %s %s" % (leaf.kind, leaf.info.get("msg")))
            ok = False
            continue
        r = sim.final_value(leaf.state, leaf.value)
        # decode zero tests from the path
        zero = {}
        for p in leaf.pc:
            if p[0] == "frel":
                lhs, rhs = p[1].split(" ? ")
                f = lhs if lhs.startswith("s.") else rhs
                zero[f.split(".")[1]] = (p[2] == "=")
        if zero.get("acceleration") is False:
            exp = ("Acceleration", Sym("s.acceleration"))
        elif zero.get("acceleration") is True and zero.get("velocity") is False:
            exp = ("Velocity", Sym("s.velocity"))
        elif zero.get("acceleration") is True and zero.get("velocity") is True:
            exp = ("Position", Sym("s.position"))
        else:
            exp = None
        seen.add(exp[0] if exp else None)
        if exp is None or not (isinstance(r, Enum) and r.vname == exp[0] and r.fields[0] == exp[1]):
            chk.violation("C14.F", key, "Command::from(State) on path %s (zero tests %s) gives %r, expected %s" % (leaf.pc, zero, r, exp), fn=fn["pretty"], file=loc(fn["span"]))
            ok = False
    if seen != set(KINDS):
        chk.violation("C14.F", key + ":coverage", "Command::from(State) does not produce all three kinds: %s" % seen)
        ok = False
    if ok:
        chk.discharge(key)


def unit_is(sim, prog, stx, unit_val, want):
    if not units_enabled(prog):
        return True
    ex = Q.unit_exps(sim, stx, unit_val)
    return bool(ex) and tuple(getattr(e, "val", None) for e in ex) == want


def check_accessors(chk, prog, sim, tag=""):
    key = "A:command-tables" + tag
    chk.obligation(key, "Command constructor/accessors/conversions are mutually consistent")
    cty, pdty, qty = adt_ty(prog, "Command"), adt_ty(prog, "PositionDerivative"), Q.quantity_ty(prog)
    ok = True

    def one(fn, args):
        ls = Q.run_simple(sim, fn, args)
        chk.evaluated(1, nontrivial=(key, fn["pretty"], repr(args)))
        if len(ls) != 1 or ls[0].kind != "return":
            return None, None
        return sim.final_value(ls[0].state, ls[0].value), ls[0].state

    def inh(name, self_name="Command"):
        fs = [f for f in prog.find_fns(name=name, self_name=self_name) if not f.get("impl_trait")]
        if len(fs) != 1:
            raise AnchorMissing("%s::%s" % (self_name, name))
        chk.analysed(fs[0]["pretty"])
        return fs[0]
    new, gp, gv, ga = inh("new"), inh("get_position"), inh("get_velocity"), inh("get_acceleration")
    pd_from = Q.find_from(prog, "PositionDerivative", "Command")
    f32_from = Q.find_from(prog, "f32", "Command")
    q_from = Q.find_from(prog, "Quantity", "Command")
    x = Sym("x", prim("f32"))
    for k in KINDS:
        c = sim.mk_enum(cty, k, [x])
        r, _ = one(new, [sim.mk_enum(pdty, k), x])
        if r != c:
            chk.violation("C14.A", "Command::new:" + k, "Command::new(%s, x) = %r" % (k, r), fn=new["pretty"], file=loc(new["span"]))
            ok = False
        r, _ = one(pd_from, [c])
        if not (isinstance(r, Enum) and r.vname == k):
            chk.violation("C14.A", "PositionDerivative::from:" + k, "PositionDerivative::from(Command::%s) = %r" % (k, r), fn=pd_from["pretty"])
            ok = False
        r, _ = one(f32_from, [c])
        if r != x:
            chk.violation("C14.A", "f32::from:" + k, "f32::from(Command::%s(x)) = %r" % (k, r), fn=f32_from["pretty"])
            ok = False
        r, stq = one(q_from, [c])
        if not (isinstance(r, Struct) and len(r.fields) == 2 and r.fields[0] == x and unit_is(sim, prog, stq, r.fields[1], KIND_UNIT[k])):
            chk.violation("C14.A", "Quantity::from:" + k, "Quantity::from(Command::%s(x)) = %r" % (k, r), fn=q_from["pretty"])
            ok = False
        # accessors (take &self)
        def acc(fn):
            st = S.State()
            oid = st.new_obj("c", c)
            ls = sim.run(fn, sim.identity_gargs(fn), [Ref(Ptr(oid))], st)
            chk.evaluated(1, nontrivial=(key, fn["name"], k))
            if len(ls) != 1 or ls[0].kind != "return":
                return None
            return sim.final_value(ls[0].state, ls[0].value), ls[0].state

        def q_is(v, stx, val, unit):
            if not (isinstance(v, Struct) and len(v.fields) == 2):
                return False
            return v.fields[0] == val and unit_is(sim, prog, stx, v.fields[1], unit)
        zero = Const(0.0, prim("f32"))
        rp = acc(gp)
        rv = acc(gv)
        ra = acc(ga)
        exp_p = x if k == "Position" else None
        exp_v = zero if k == "Position" else (x if k == "Velocity" else None)
        exp_a = x if k == "Acceleration" else zero
        checks = [("get_position", rp, exp_p, (1, 0), True), ("get_velocity", rv, exp_v, (1, -1), True), ("get_acceleration", ra, exp_a, (1, -2), False)]
        for name, res, exp, unit, optional in checks:
            if res is None:
                ok = False
                chk.violation("C14.A", "%s:%s" % (name, k), "Command::%s on %s could not be evaluated" % (name, k))
                continue
            v, stx = res
            if optional:
                good = (exp is None and isinstance(v, Enum) and v.vname == "None") or (exp is not None and isinstance(v, Enum) and v.vname == "Some" and q_is(v.fields[0], stx, exp, unit))
            else:
                good = q_is(v, stx, exp, unit)
            if not good:
                chk.violation("C14.A", "%s:%s" % (name, k), "Command::%s(x).%s() = %r, expected %s" % (k, name, v, exp), file=loc(gp["span"]))
                ok = False
    # State::new / accessors
    snew = inh("new", "State")
    args = [Struct(qty, (Sym(n, prim("f32")), Q.unit_value(sim, prog, *KIND_UNIT[kk]))) for n, kk in zip(("p", "v", "a"), KINDS)]
    r, _ = one(snew, args)
    if not (isinstance(r, Struct) and r.fields == (Sym("p"), Sym("v"), Sym("a"))):
        chk.violation("C14.A", "State::new", "State::new(p mm, v mm/s, a mm/s^2) = %r" % (r,), fn=snew["pretty"])
        ok = False
    gvl = inh("get_value", "State")
    for k in KINDS:
        st = S.State()
        oid = st.new_obj("s", Sym("s", adt_ty(prog, "State")))
        ls = sim.run(gvl, sim.identity_gargs(gvl), [Ref(Ptr(oid)), sim.mk_enum(pdty, k)], st)
        chk.evaluated(1, nontrivial=(key, "get_value", k))
        v = sim.final_value(ls[0].state, ls[0].value) if len(ls) == 1 and ls[0].kind == "return" else None
        if not (isinstance(v, Struct) and len(v.fields) == 2 and v.fields[0] == Sym("s." + k.lower()) and unit_is(sim, prog, ls[0].state, v.fields[1], KIND_UNIT[k])):
            chk.violation("C14.A", "State::get_value:" + k, "State::get_value(%s) = %r" % (k, v), fn=gvl["pretty"], file=loc(gvl["span"]))
            ok = False
    if ok:
        chk.discharge(key)


def check_command_eq(chk, prog, sim, tag=""):
    """A command's kind is part of its identity: commands of different kinds are never equal (CommandPID decides 'a new
    command arrived' with !=), commands of one kind compare their values - in every configuration; an equality routed through
    a unit comparison loses the kind when units are compiled out."""
    key = "A:command-eq" + tag
    chk.obligation(key, "Command equality distinguishes kinds" + tag)
    eqs = [f for f in prog.find_fns(name="eq", self_name="Command") if (f.get("impl_trait") or "").endswith("PartialEq")]
    if len(eqs) != 1:
        raise AnchorMissing("PartialEq::eq for Command")
    eq = eqs[0]
    chk.analysed(eq["pretty"] + tag)
    cty = adt_ty(prog, "Command")
    ok = True
    for k1 in KINDS:
        for k2 in KINDS:
            st = S.State()
            o1 = st.new_obj("a", sim.mk_enum(cty, k1, [Sym("x", prim("f32"))]))
            o2 = st.new_obj("b", sim.mk_enum(cty, k2, [Sym("y", prim("f32"))]))
            ls = sim.run(eq, sim.identity_gargs(eq), [Ref(Ptr(o1), False), Ref(Ptr(o2), False)], st)
            chk.evaluated(len(ls), nontrivial=(key, k1, k2))
            outs = []
            for l in ls:
                if l.kind != "return":
                    outs.append((l.kind, l.info.get("msg")))
                else:
                    outs.append(sim.final_value(l.state, l.value))
            if any(isinstance(o, tuple) for o in outs):
                chk.violation("analysis-incomplete" if any(o[0] == "unsupported" for o in outs if isinstance(o, tuple)) else "C14.A", "%s:%s:%s" % (key, k1, k2),
                              "Command::eq(%s(x), %s(y)) does not simply return: %s" % (k1, k2, outs), fn=eq["pretty"], file=loc(eq["span"]))
                ok = False
                continue
            if k1 != k2:
                good = all(isinstance(o, Const) and o.val in (False, 0) for o in outs)
            else:
                good = not all(isinstance(o, Const) for o in outs) or {bool(o.val) for o in outs} == {True, False}
            if not good:
                chk.violation("C14.A", "%s:%s:%s" % (key, k1, k2), "Command::eq(%s(x), %s(y)) = %s: %s" % (k1, k2, outs,
                              "commands of different kinds can compare equal" if k1 != k2 else "does not depend on the values"), fn=eq["pretty"], file=loc(eq["span"]))
                ok = False
    if ok:
        chk.discharge(key)


def check_two_command_api(chk, prog, sim, tag=""):
    """Every exported fn that takes two Commands (by value or reference) combines or compares them: unless it is equality, it must
    panic when the kinds differ - whatever it is called.  (An inherent `Command::add` shadows the checked operator for method-call
    syntax; a helper `Command::max` orders a position against a velocity.)"""
    key = "O:two-command-api" + tag
    chk.obligation(key, "no exported fn combines two commands of different kinds without a panic" + tag)
    cty = adt_ty(prog, "Command")
    ok = True
    n = 0

    def is_c(t):
        return ty_str(t) == "Command" or (t.get("k") == "ref" and ty_str(t["ty"]) == "Command")
    for f in prog.facts["fns"]:
        if f.get("kind") not in ("Fn", "AssocFn") or "body" not in f or not f.get("exported", True) or f.get("unsafe"):
            continue
        ins = f.get("sig_inputs", [])
        if len(ins) != 2 or not all(is_c(t) for t in ins):
            continue
        tr = (f.get("impl_trait") or "").split("::")[-1]
        if tr in ("PartialEq",):
            continue
        n += 1
        chk.analysed(f["pretty"] + tag)
        for k1 in KINDS:
            for k2 in KINDS:
                if k1 == k2:
                    continue
                st = S.State()
                args = []
                for nm, knd, t in (("x", k1, ins[0]), ("y", k2, ins[1])):
                    v = sim.mk_enum(cty, knd, [Sym(nm, prim("f32"))])
                    if t.get("k") == "ref":
                        o = st.new_obj(nm, v)
                        args.append(Ref(Ptr(o), bool(t.get("mut"))))
                    else:
                        args.append(v)
                ls = sim.run(f, sim.identity_gargs(f), args, st)
                chk.evaluated(len(ls), nontrivial=(key, f["pretty"], k1, k2))
                if any(l.kind == "unsupported" for l in ls):
                    chk.violation("analysis-incomplete", key + ":" + f["pretty"], "cannot model %s: %s" % (f["pretty"], [l.info.get("msg") for l in ls if l.kind == "unsupported"][:1]))
                    ok = False
                    break
                if any(l.kind == "return" for l in ls):
                    chk.violation("C14.O", "two-command-api:%s:%s:%s%s" % (f["pretty"], k1, k2, tag), "%s (%s) applied to %s(x) and %s(y) returns normally: commands of different kinds are combined without a panic"
                                  % (f["pretty"], loc(f["span"]), k1, k2), fn=f["pretty"], file=loc(f["span"]))
                    ok = False
                    break
            else:
                continue
            break
    chk.extra["two_command_fns" + tag] = n
    if n < 2:
        chk.violation("floor", "C14.two-command-fns" + tag, "expected >= 2 exported fns with two Command operands (Add, Sub, their assign forms), found %d" % n)
        ok = False
    if ok:
        chk.discharge(key)


def check_arith(chk, prog, sim, tag=""):
    names = state_fields(prog)
    n = 0
    for imp in prog.impls:
        tr = imp.get("trait", "").split("::")[-1]
        if tr not in Q.ALLOPS or imp["self"].get("k") != "adt" or imp["self"]["name"] not in ("State", "Command"):
            continue
        it = [i for i in imp["items"] if i["name"] == Q.ALLOPS[tr]]
        fn = prog.fns[it[0]["did"]]
        n += 1
        key = "O:" + imp["trait_ref"] + tag
        chk.obligation(key, "component-wise arithmetic of " + imp["trait_ref"])
        chk.analysed(fn["pretty"])
        st = S.State()
        gargs = sim.identity_gargs(fn)
        unary = tr == "Neg"
        a0 = sim.make_arg(st, "a", subst(fn["sig_inputs"][0], gargs))
        args = [a0] + ([] if unary else [sim.make_arg(st, "b", subst(fn["sig_inputs"][1], gargs))])
        base = Q.BASE[tr]
        is_state = imp["self"]["name"] == "State"
        rhs = imp["trait_args"][1] if len(imp["trait_args"]) > 1 else None
        scalar = rhs is not None and ty_str(rhs) == "f32"
        ok = True
        npanic = 0
        for leaf in sim.run(fn, gargs, args, st):
            chk.evaluated(1, nontrivial=(key, repr(leaf.pc)))
            stl = leaf.state
            ka = [p[2] for p in leaf.pc if p[0] == "variant" and p[1] == "a"]
            kb = [p[2] for p in leaf.pc if p[0] == "variant" and p[1] == "b"]
            if leaf.kind == "unsupported":
                chk.violation("analysis-incomplete", key, "%s: %s" % (imp["trait_ref"], leaf.info["msg"]))
                ok = False
                continue
            if leaf.kind == "panic":
                npanic += 1
                if is_state or scalar or unary or (ka and kb and ka[0] == kb[0]):
                    chk.violation("C14.O", key + ":panic", "%s panics on kinds %s/%s: %s" % (imp["trait_ref"], ka, kb, leaf.info.get("msg")), fn=fn["pretty"], file=loc(fn["span"]))
                    ok = False
                continue
            res = sim.final_value(stl, stl.mem[a0.ptr.obj] if tr in Q.OPSA else leaf.value)
            if is_state:
                exp = []
                for f in names:
                    if unary:
                        exp.append(Term("Neg", (Sym("a." + f),)))
                    elif scalar:
                        exp.append(Term(base, (Sym("a." + f), Sym("b"))))
                    else:
                        exp.append(Term(base, (Sym("a." + f), Sym("b." + f))))
                if not (isinstance(res, Struct) and list(res.fields) == exp):
                    chk.violation("C14.O", key, "%s = %r, expected component-wise %s" % (imp["trait_ref"], res, exp), fn=fn["pretty"], file=loc(fn["span"]))
                    ok = False
            else:
                k = ka[0] if ka else None
                if not scalar and not unary and kb and k != kb[0]:
                    chk.violation("C14.O", key + ":kinds", "%s returns %r for commands of different kinds %s/%s (must panic)" % (imp["trait_ref"], res, k, kb[0]), fn=fn["pretty"], file=loc(fn["span"]))
                    ok = False
                    continue
                av = Sym("a.%s.0" % k)
                if unary:
                    ev = Term("Neg", (av,))
                elif scalar:
                    ev = Term(base, (av, Sym("b")))
                else:
                    ev = Term(base, (av, Sym("b.%s.0" % k)))
                if not (isinstance(res, Enum) and res.vname == k and res.fields[0] == ev):
                    chk.violation("C14.O", key, "%s on kind %s = %r, expected %s(%r)" % (imp["trait_ref"], k, res, k, ev), fn=fn["pretty"], file=loc(fn["span"]))
                    ok = False
        if not is_state and not scalar and not unary and npanic == 0:
            chk.violation("C14.O", key + ":kinds", "%s never panics: adding/subtracting commands of different kinds is not rejected" % imp["trait_ref"], fn=fn["pretty"], file=loc(fn["span"]))
            ok = False
        if ok:
            chk.discharge(key)
    if n < 18 and not tag:
        chk.violation("floor", "C14.arith", "expected >= 18 operator impls on State/Command, found %d" % n)


def run(chk):
    prog = load_config("K1")
    chk.configs.append("K1")
    chk.rule("C14.K", "State::update value graph == (p + v dt + a dt^2/2, v + a dt) as rational functions; acceleration not written")
    chk.rule("C14.S", "setters store only under the unit gate, zero higher derivatives, Err path leaves the state untouched")
    chk.rule("C14.F", "Command::from(State) decision tree = lowest non-zero derivative")
    chk.rule("C14.A", "accessor / conversion tables over the three kinds")
    chk.rule("C14.O", "component-wise arithmetic; Command Add/Sub panic iff kinds differ")
    sim = S.Sim(prog)
    check_update(chk, prog, sim)
    check_setters(chk, prog, sim)
    # the same setters with dimension checking compiled out (K4): a gate written with the assume-false family is invisible
    # in K1 and rejects every argument there ("rejected" must mean "wrongly dimensioned", never "always")
    p4 = load_config("K4")
    chk.configs.append("K4")
    before = len(chk.violations)
    check_setters(chk, p4, S.Sim(p4), "@K4")
    for v in chk.violations[before:]:
        v["key"] += "@K4"
        v["what"] = "[dimension checking compiled out] " + v["what"]
    # adding / subtracting commands of different kinds panics in every configuration (a kind check delegated to the unit check
    # vanishes with the units)
    before = len(chk.violations)
    check_command_eq(chk, p4, S.Sim(p4), "@K4")
    check_arith(chk, p4, S.Sim(p4), "@K4")
    check_two_command_api(chk, p4, S.Sim(p4), "@K4")
    # the kind / value / per-derivative accessor tables with the units compiled out: an accessor that re-derives the kind from a
    # unit comparison answers for every kind there
    check_accessors(chk, p4, S.Sim(p4), "@K4")
    for v in chk.violations[before:]:
        v["key"] += "@K4"
        v["what"] = "[dimension checking compiled out] " + v["what"]
    # ... and in the release profile (K6): a kind check downgraded to debug_assert! disappears there
    p6 = load_config("K6")
    chk.configs.append("K6")
    before = len(chk.violations)
    check_arith(chk, p6, S.Sim(p6), "@K6")
    check_accessors(chk, p6, S.Sim(p6), "@K6")
    for v in chk.violations[before:]:
        v["key"] += "@K6"
        v["what"] = "[release profile] " + v["what"]
    # "a wrongly dimensioned argument is rejected" also in the release profile with dim_check_release (K7)
    p7 = load_config("K7")
    chk.configs.append("K7")
    before = len(chk.violations)
    check_setters(chk, p7, S.Sim(p7), "@K7")
    for v in chk.violations[before:]:
        v["key"] += "@K7"
        v["what"] = "[release profile with dim_check_release] " + v["what"]
    check_command_from_state(chk, prog, sim)
    check_accessors(chk, prog, sim)
    check_command_eq(chk, prog, sim)
    check_two_command_api(chk, prog, sim)
    import rules.C01 as C01
    import report as _rp
    subc = _rp.Check("C14", chk.tier)
    from program import units_enabled
    if units_enabled(prog):      # the table is about units; with checking compiled out there is nothing to tabulate
        C01.check_conversions(subc, prog, sim)
    chk.evaluations += subc.evaluations
    keyc = "A:command-quantity-round-trip"
    chk.obligation(keyc, "Command <-> Quantity conversions keep kind and value over the unit grid (table shared with C01)")
    bc = [v for v in subc.violations if "Command" in v["key"] or v["rule"] == "analysis-incomplete"]
    for v in bc:
        chk.violation("C14.A" if v["rule"].startswith("C01") else v["rule"], "conv:" + v["key"], "a command's kind / quantity no longer round-trip: " + v["what"], **v["detail"])
    if not bc:
        chk.discharge(keyc)
    check_arith(chk, prog, sim)
    chk.assume("real-arithmetic model for State::update (rounding not decided)", "f32 == 0.0 tests are opaque atoms")
    chk.extra["std_models"] = sorted(sim.stats["models_used"])
    return ("Abstract interpretation of State/Command code: update's value graph normalised as a rational function and compared with the closed form; "
            "setters, conversions, accessors and arithmetic compared leaf by leaf with their tables, with symbolic units for the gates.")
