"""C11: CommandPID integrates its PID output 0, 1 or 2 times, by command kind.

For each command kind the controller is abstractly interpreted from its constructor through chains of events; after each
update get() is normalised as a rational function and compared with the reference: error against the matching state
component, gains selected by kind, trapezoidal error integral, backward-difference derivative, PID law, trapezoidal
integral and double integral of the output; absent for exactly the first 0/1/2 samples; an absent input resets, an error
is reported until the next present sample which starts afresh; impl_set: equal command -> nothing changes, different
command (kind OR value) -> computation restarts and the command is stored; timestamps as in C04 (affine-time typing).
"""
import sympy as sp
from values import *
from program import load_config, subst, ty_str, is_adt, prim, AnchorMissing, loc
import sim as S
import streamkit as K
import numkit as N
import algebra as A

NAME = "CommandPID"
KINDS = ["Position", "Velocity", "Acceleration"]
DEPTH = {"Position": 0, "Velocity": 1, "Acceleration": 2}


def reference(kind, tags):
    """Expected get() payload (sympy) or None after the run of present samples `tags`."""
    comp = kind.lower()
    kp, ki, kd = [A.sym("kvalues.%s.%s" % (comp, g)) for g in ("kp", "ki", "kd")]
    cmd = A.sym("cmd")
    outs, out_int, oii, err_int = [], None, None, None
    prev_e = None
    for i, t in enumerate(tags):
        e = cmd - A.sym("s%s.%s" % (t, comp))
        if i == 0:
            out = kp * e
        else:
            dt = (A.sym("t" + t) - A.sym("t" + tags[i - 1])) / 10**9
            D = (e - prev_e) / dt
            add = (prev_e + e) / 2 * dt
            err_int = add if err_int is None else err_int + add
            out = kp * e + ki * err_int + kd * D
            new_out_int = (outs[-1] + out) / 2 * dt if out_int is None else out_int + (outs[-1] + out) / 2 * dt
            if out_int is not None:
                a2 = (out_int + new_out_int) / 2 * dt
                oii = a2 if oii is None else oii + a2
            out_int = new_out_int
        outs.append(out)
        prev_e = e
    if not tags:
        return None
    return {"Position": outs[-1], "Velocity": out_int, "Acceleration": oii}[kind]


def fresh(sim, prog, kind):
    cmd_adt = prog.adt_by_name("Command")
    cty = {"k": "adt", "did": cmd_adt["did"], "name": "Command", "args": []}
    return N.fresh_object(sim, prog, NAME, arg_values={"command": sim.mk_enum(cty, kind, [Sym("cmd", prim("f32"))])})


def state_sample(prog, tag):
    a = prog.adt_by_name("State")
    return Sym("s" + tag, {"k": "adt", "did": a["did"], "name": "State", "args": []})


def run_script(chk, prog, sim, up, get, kind, script, key):
    ug, gg = sim.identity_gargs(up), sim.identity_gargs(get)
    st0, oid, _ = fresh(sim, prog, kind)
    frontier = [st0]
    hist = []
    ok = True
    is_time = N.time_atom_pred(["t" + t for _, t in script])
    for cat, tag in script:
        hist = hist + [tag] if cat == "S" else []
        nxt = []
        for st in frontier:
            for leaf in N.update_with(sim, up, ug, st, oid, cat, tag, value=state_sample(prog, tag) if cat == "S" else None):
                chk.evaluated(1, nontrivial=(key, tag, repr(leaf.pc)))
                if leaf.kind != "return":
                    chk.violation("analysis-incomplete" if leaf.kind == "unsupported" else "C11.panic", "%s:%s" % (key, leaf.kind),
                                  "CommandPID(%s) fed %s: update %s %s (%s)" % (kind, script, leaf.kind, leaf.info.get("msg"), K.leaf_site(leaf)), fn=up["pretty"])
                    ok = False
                    continue
                nxt.append(leaf.state)
                post = sim.final_value(leaf.state, leaf.state.mem[oid])
                lossy = N.lossy_ops(post)
                if lossy:
                    chk.violation("C11.value", "lossy-op", "update stores a value computed with a truncating integer operation %r (integer division/truncation of nanoseconds before the conversion to seconds)" % (lossy[0],),
                                  fn=up["pretty"], file=loc(up["span"]))
                    ok = False
                bad = N.absolute_time_casts(post, is_time)
                if bad:
                    chk.violation("C11.shift", "absolute-time", "CommandPID::update converts an absolute timestamp to float (%r)" % (bad[0],), fn=up["pretty"], file=loc(up["span"]))
                    ok = False
                for gl in N.get_on(sim, get, gg, leaf.state, oid):
                    chk.evaluated(1)
                    if gl.kind != "return":
                        chk.violation("analysis-incomplete" if gl.kind == "unsupported" else "C11.panic", "%s:get:%s" % (key, gl.kind), "CommandPID(%s)::get: %s %s" % (kind, gl.kind, gl.info.get("msg")), fn=get["pretty"])
                        ok = False
                        continue
                    g = K.classify_output(sim, gl.state, gl.value)
                    if cat == "E":
                        good, exp_s = g == ("E", Sym("e" + tag)), "Err(e)"
                    elif cat == "N":
                        good, exp_s = g == ("N",), "None"
                    else:
                        exp = reference(kind, hist) if len(hist) > DEPTH[kind] else None
                        if exp is None:
                            good, exp_s = g == ("N",), "None (first %d samples after a start/reset are absent for a %s command)" % (DEPTH[kind], kind)
                        else:
                            exp_s = None
                            good = bool(g) and g[0] == "S" and g[1] == Sym("t" + tag)
                            if good:
                                try:
                                    good = A.equal(A.to_sympy(g[2]), exp)
                                except Exception:
                                    good = False
                    if not good:
                        if exp_s is None:
                            exp_s = A.show(exp)
                        chk.violation("C11.value", "%s:after-%s" % (key, tag), "CommandPID(%s) fed %s: after %s:%s get() returns %r, expected %s"
                                      % (kind, [c + ":" + t for c, t in script], cat, tag, g, exp_s[:300]), fn=up["pretty"], file=loc(up["span"]))
                        ok = False
                    elif cat == "S" and len(chk.samples) < 6 and g and g[0] == "S":
                        chk.sample({"kind": kind, "script": [c + ":" + t for c, t in script], "after": tag, "output": A.show(A.to_sympy(g[2]))[:200]})
        frontier = nxt
        if not ok:
            break      # the script has failed; later steps would only repeat the report (and can be very slow on a wrong formula)
    return ok


def check_follow_kind_change(chk, prog, sim, up, get):
    """A followed command of another kind arriving IN an update: update_following_data sets it first (restart), and the very sample of
    that update is already evaluated under the new command - error against the new kind's state component, gains of the new kind."""
    key = "follow:kind-change"
    chk.obligation(key, "a followed command of a different kind takes effect (value, component, gains) in the same update")
    ug, gg = sim.identity_gargs(up), sim.identity_gargs(get)
    st0, oid, _ = fresh(sim, prog, "Velocity")
    obj = sim.expand(st0, st0.mem[oid])
    names = sim.adt_fields(obj.ty)
    fs = list(obj.fields)
    done = False
    import sdkit
    kit = sdkit.kit(sim, prog)
    ffn = sdkit.trait_default(prog, "Settable", "follow")
    gty = subst(ffn["sig_inputs"][1], sim.identity_gargs(ffn))
    for i, (n, t) in enumerate(names):
        if is_adt(t, "SettableData"):
            # the constructor's SettableData, now following a symbolic getter (built by the crate's own follow())
            f0, r0 = kit.read(st0, fs[i])
            fs[i] = kit.make(t, following=Sym("followed", gty), request=None if r0 in (None, "?") else r0)
            done = True
    if not done:
        raise AnchorMissing("CommandPID settable data / following")
    st0.mem[oid] = Struct(obj.ty, fs)
    cmd_adt = prog.adt_by_name("Command")
    cty = {"k": "adt", "did": cmd_adt["did"], "name": "Command", "args": []}
    newcmd = sim.mk_enum(cty, "Position", [Sym("cnew", prim("f32"))])
    st2 = st0.copy()
    st2.frames, st2.effects, st2.oracle = [], [], {}

    def hook(sim_, st_, label, method, args, ret_ty, ver):
        if "followed" in label:
            return K.build_output(sim_, ret_ty, "S", "f", newcmd, None)
        return K.build_output(sim_, ret_ty, "S", "a", state_sample(prog, "a"), None)
    old = sim.oracle_hook
    sim.oracle_hook = hook
    try:
        leaves = sim.run(up, ug, [Ref(Ptr(oid), True)], st2)
    finally:
        sim.oracle_hook = old
    ok = True
    n = 0
    kp = A.sym("kvalues.position.kp")
    exp = kp * (A.sym("cnew") - A.sym("sa.position"))
    for leaf in leaves:
        chk.evaluated(1, nontrivial=(key, repr(leaf.pc)))
        if leaf.kind != "return":
            chk.violation("analysis-incomplete" if leaf.kind == "unsupported" else "C11.panic", key + ":" + leaf.kind, "update while following: %s %s" % (leaf.kind, leaf.info.get("msg")), fn=up["pretty"])
            ok = False
            continue
        ret = sim.final_value(leaf.state, leaf.value)
        if isinstance(ret, Enum) and ret.vname == "Err":
            continue
        for gl in N.get_on(sim, get, gg, leaf.state, oid):
            chk.evaluated(1)
            g = K.classify_output(sim, gl.state, gl.value) if gl.kind == "return" else None
            n += 1
            good = bool(g) and g[0] == "S" and g[1] == Sym("ta")
            if good:
                try:
                    good = A.equal(A.to_sympy(g[2]), exp)
                except Exception:
                    good = False
            if not good:
                chk.violation("C11.gains", key, "a controller commanded Velocity that follows a getter presenting Position(cnew): after the update get() returns %r, expected %s stamped with the sample time "
                              "(the followed command must already govern this sample: its value, the position component and the POSITION gains)" % (g, A.show(exp)), fn=up["pretty"], file=loc(up["span"]))
                ok = False
    if n == 0:
        chk.violation("C11.gains", key + ":vacuous", "no returning path explored for the followed kind change")
        ok = False
    if ok:
        chk.discharge(key)


def check_impl_set(chk, prog, sim):
    key = "impl_set"
    chk.obligation(key, "equal command changes nothing; different command restarts and is stored")
    fn = prog.find_fn(name="impl_set", self_name=NAME, trait="Settable")
    chk.analysed(fn["pretty"])
    g = sim.identity_gargs(fn)
    ok = True
    cmd_adt = prog.adt_by_name("Command")
    cty = {"k": "adt", "did": cmd_adt["did"], "name": "Command", "args": []}
    fresh_v = None
    for kcur in KINDS:
        for knew in KINDS:
            st = S.State()
            sty = subst(fn["sig_inputs"][0], g)["ty"]
            sv = sim.expand(st, Sym("self", sty))
            names = [n for n, _ in sim.adt_fields(sty)]
            fs = list(sv.fields)
            ci = [i for i, (n, t) in enumerate(sim.adt_fields(sty)) if is_adt(t, "Command")][0]
            fs[ci] = sim.mk_enum(cty, kcur, [Sym("cur", prim("f32"))])
            sv = Struct(sty, fs)
            oid = st.new_obj("self", sv)
            newc = sim.mk_enum(cty, knew, [Sym("new", prim("f32"))])
            for leaf in sim.run(fn, g, [Ref(Ptr(oid), True), newc], st):
                chk.evaluated(1, nontrivial=(key, kcur, knew, repr(leaf.pc)))
                if leaf.kind != "return":
                    chk.violation("analysis-incomplete" if leaf.kind == "unsupported" else "C11.set", key + ":" + leaf.kind, "impl_set: %s %s" % (leaf.kind, leaf.info.get("msg")), fn=fn["pretty"])
                    ok = False
                    continue
                post = sim.final_value(leaf.state, leaf.state.mem[oid])
                pre = sim.final_value(leaf.state, sv)
                same_val = [p for p in leaf.pc if p[0] == "frel"]
                equal = (kcur == knew) and same_val and same_val[0][2] == "="
                if equal:
                    if post != pre:
                        chk.violation("C11.set", key + ":equal-changes", "setting a command equal to the current one changes the controller state: %r -> %r" % (pre, post), fn=fn["pretty"], file=loc(fn["span"]))
                        ok = False
                else:
                    # restarted = every field that the constructor does not take from its arguments has its constructor value
                    # again (whatever the representation of the progress state is)
                    if fresh_v is None:
                        _st, _oid, fresh_v = fresh(sim, prog, "Position")
                        argn = [x["name"] for x in [f for f in prog.find_fns(name="new", self_name=NAME) if not f.get("impl_trait")][0]["body"]["names"]]
                    stale = []
                    for i, (n, t) in enumerate(sim.adt_fields(sty)):
                        if i == ci or is_adt(t, "SettableData"):
                            continue
                        ff = fresh_v.fields[i]
                        if any(a in repr(ff) for a in argn):
                            continue       # a constructor argument (input, gains)
                        if post.fields[i] != ff:
                            stale.append((n, post.fields[i], ff))
                    stored = post.fields[ci] == newc
                    if stale or not stored:
                        chk.violation("C11.set", "%s:different:%s->%s" % (key, kcur, knew), "setting a different command (%s(cur) -> %s(new), value relation %s) must restart the computation and store the command; "
                                      "fields not at their constructor value: %r; command=%r" % (kcur, knew, [p[2] for p in same_val], stale[:2], post.fields[ci]), fn=fn["pretty"], file=loc(fn["span"]))
                        ok = False
    if ok:
        chk.discharge(key)


def check_gain_selection(chk, prog, sim):
    key = "gains:get_k_values"
    chk.obligation(key, "gain selection by position derivative")
    fs = [f for f in prog.find_fns(name="get_k_values", self_name="PositionDerivativeDependentPIDKValues") if not f.get("impl_trait")]
    if len(fs) != 1:
        raise AnchorMissing("get_k_values")
    fn = fs[0]
    g = sim.identity_gargs(fn)
    pd = prog.adt_by_name("PositionDerivative")
    pdty = {"k": "adt", "did": pd["did"], "name": "PositionDerivative", "args": []}
    ok = True
    for k in KINDS:
        st = S.State()
        a0 = sim.make_arg(st, "k", subst(fn["sig_inputs"][0], g))
        ls = sim.run(fn, g, [a0, sim.mk_enum(pdty, k)], st)
        chk.evaluated(1, nontrivial=(key, k))
        r = sim.final_value(ls[0].state, ls[0].value) if len(ls) == 1 and ls[0].kind == "return" else None
        if not (isinstance(r, Struct) and all(repr(f).startswith("k.%s." % k.lower()) for f in r.fields)):
            chk.violation("C11.gains", key + ":" + k, "get_k_values(%s) returns %r" % (k, r), fn=fn["pretty"], file=loc(fn["span"]))
            ok = False
    if ok:
        chk.discharge(key)


def run(chk):
    prog = load_config("K1")
    chk.configs.append("K1")
    chk.rule("C11.value", "get() == reference (PID law on the matching component, integrated 0/1/2 times) as rational functions; absent for exactly the first 0/1/2 samples")
    chk.rule("C11.set", "impl_set: equal -> no change; different kind or value -> reset + store")
    chk.rule("C11.gains", "gain selection by kind")
    chk.rule("C11.shift", "affine-time typing")
    sim = S.Sim(prog)
    up = prog.find_fn(name="update", self_name=NAME, trait="Updatable")
    get = prog.find_fn(name="get", self_name=NAME, trait="Getter")
    chk.analysed(up["pretty"])
    chk.analysed(get["pretty"])
    scripts = [
        # six present samples: the steady-state (fourth-and-later) arm runs three times, so the state it STORES is observed
        # through the next outputs (error integral after one more step, output integral / double integral after two)
        [("S", "a"), ("S", "b"), ("S", "c"), ("S", "d"), ("S", "e"), ("S", "f")],
        [("S", "a"), ("S", "b"), ("N", "x"), ("S", "c"), ("S", "d"), ("S", "e")],
        [("S", "a"), ("S", "b"), ("E", "x"), ("S", "c"), ("S", "d"), ("S", "e")],
    ]
    if chk.tier == "thorough":
        scripts.append([("S", "a"), ("S", "b"), ("S", "c"), ("S", "d"), ("S", "e"), ("S", "f"), ("S", "g")])
        scripts.append([("E", "x"), ("S", "a"), ("N", "y"), ("S", "b"), ("S", "c"), ("S", "d")])
    for kind in KINDS:
        for script in scripts:
            key = "run:%s:%s" % (kind, "".join(c for c, _ in script))
            chk.obligation(key, "event script")
            if run_script(chk, prog, sim, up, get, kind, script, key):
                chk.discharge(key)
    # with dimension checking compiled out (K4) the controller must still compare against the matching state component (a selection made
    # by unit equality degenerates there: eq_assume_true is constantly true)
    import report as _rp
    p4 = load_config("K4")
    chk.configs.append("K4")
    s4 = S.Sim(p4)
    up4 = p4.find_fn(name="update", self_name=NAME, trait="Updatable")
    get4 = p4.find_fn(name="get", self_name=NAME, trait="Getter")
    for kind in ("Velocity", "Acceleration"):
        k4 = "run:%s:SSSS@K4" % kind
        chk.obligation(k4, "event script with checking compiled out")
        sub4 = _rp.Check("C11", chk.tier)
        g4 = run_script(sub4, p4, s4, up4, get4, kind, [("S", "a"), ("S", "b"), ("S", "c"), ("S", "d")], k4)
        chk.evaluations += sub4.evaluations
        for v in sub4.violations:
            chk.violation(v["rule"], v["key"] + "@K4", "[dimension checking compiled out] " + v["what"], **v["detail"])
        if g4 and not sub4.violations:
            chk.discharge(k4)
    check_impl_set(chk, prog, sim)
    check_gain_selection(chk, prog, sim)
    check_follow_kind_change(chk, prog, sim, up, get)
    # a followed-command change reaches the controller through SettableData::following: only follow / stop_following may write it
    # (a reset that rebuilds the SettableData silently stops following); the who-may-write table is shared with C15
    import rules.C15 as C15
    import report
    subw = report.Check("C11", chk.tier)
    C15.check_writers(subw, prog)
    chk.evaluations += subw.evaluations
    keyw = "set:following-link-writers"
    chk.obligation(keyw, "CommandPID never writes its SettableData outside set/follow/stop_following")
    badw = [v for v in subw.violations if "CommandPID" in v["key"] or "command_pid" in v["key"] or v["rule"] in ("analysis-incomplete",)]
    for v in badw:
        chk.violation("C11.set" if v["rule"].startswith("C15") else v["rule"], "following:" + v["key"], "a followed-command change can no longer restart the computation: " + v["what"], **v["detail"])
    if not badw:
        chk.discharge(keyw)
    # ... and arrives through Settable's provided methods: follow / update_following_data table (shared with C15)
    subf = report.Check("C11", chk.tier)
    C15.check_following(subf, prog, sim)
    chk.evaluations += subf.evaluations
    keyf = "set:follow-table"
    chk.obligation(keyf, "Settable::follow / update_following_data table (a followed command change reaches the controller through it) - shared with C15")
    for v in subf.violations:
        chk.violation("C11.set" if v["rule"].startswith("C15") else v["rule"], "follow:" + v["key"], "a followed-command change can no longer restart the computation: " + v["what"], **v["detail"])
    if not subf.violations:
        chk.discharge(keyf)
    chk.assume("real-arithmetic model (rounding not decided)", "following = None; a followed command change is a set() and is covered by impl_set + C15",
               "runs longer than the scripts follow the same recurrence (the third-sample-onward branch is exercised twice in the longest script)")
    chk.extra["std_models"] = sorted(sim.stats["models_used"])
    return ("Chained abstract interpretation of CommandPID per command kind over event scripts; get() payloads compared with the reference recurrence as rational "
            "functions; impl_set tabulated over kind pairs and value (in)equality.")
