"""C06: motion-profile accessors agree with each other at every instant.

For every weak ordering of {0, t1, t2, t3, t} consistent with 0 <= t1 <= t2 <= t3 (the constructor's guarantee) and every
kind of end command, get_piece / get_mode / get_acceleration / get_velocity / get_position / History::get are abstractly
interpreted on a symbolic profile; each must be deterministic under the ordering and agree with the region table; the
history's payload must be the very term the matching accessor returns (bit-identical by construction), stamped with t,
and its `expect`s must be unreachable.  Constructor: every returning path has asserted the three durations >= 0 and
builds t2 = t1 + d2, t3 = t2 + d3 through the same conversion (ordering then follows from monotonicity of f32 add /
convert - a stated lemma), and the end command is Command::from(end_state).
"""
import itertools
from values import *
from program import load_config, subst, ty_str, is_adt, prim, AnchorMissing, loc
import sim as S
import streamkit as K
import dimkit as Q

FIELD_UNITS = {}   # leaf name -> unit of the Quantity fields, learned from the constructor's returning paths
PIECES = ["BeforeStart", "InitialAcceleration", "ConstantVelocity", "EndAcceleration", "Complete"]
KINDS = ["Position", "Velocity", "Acceleration"]


def orderings():
    """Rank assignments (zero, t1, t2, t3, t) with zero <= t1 <= t2 <= t3."""
    out = []
    for r in S.weak_orderings(5):
        z, a, b, c, t = r
        if z <= a <= b <= c:
            out.append(r)
    return out


def region(r):
    z, a, b, c, t = r
    if t < z:
        return 0
    if t < a:
        return 1
    if t < b:
        return 2
    if t < c:
        return 3
    return 4


def mp_ty(prog):
    a = prog.adt_by_name("MotionProfile")
    return {"k": "adt", "did": a["did"], "name": "MotionProfile", "args": []}


def time_symbol_names(sim, prog):
    """names of the three phase-boundary symbols of a symbolic profile, in declaration order (wherever the profile keeps them:
    three fields, an array, a private sub-struct)"""
    import layout
    out = []

    def leaf(dotted, t):
        if is_adt(t, "Time"):
            out.append("self.%s.0" % dotted)
        return None
    layout.build_symbolic(sim, mp_ty(prog), leaf, stop=("Time", "Quantity", "Command"))
    if len(out) != 3:
        raise AnchorMissing("three Time fields of MotionProfile")
    return out


def setup(sim, prog, ranks, kind):
    import layout
    st = S.State()
    ty = mp_ty(prog)
    tnames = time_symbol_names(sim, prog)
    cmds = []

    def leaf(dotted, t):
        if is_adt(t, "Time"):
            return Struct(t, (Sym("self.%s.0" % dotted, prim("i64")),))
        if is_adt(t, "Command"):
            cmds.append(dotted)
            return sim.mk_enum(t, kind, [Sym("end", prim("f32"))])
        if is_adt(t, "Quantity") and dotted in FIELD_UNITS:
            return Struct(t, (Sym("self.%s.value" % dotted, prim("f32")), Q.unit_value(sim, prog, *FIELD_UNITS[dotted])))
        return None
    sv = layout.build_symbolic(sim, ty, leaf, stop=("Time", "Quantity", "Command"))
    if len(cmds) != 1:
        raise AnchorMissing("end command field of MotionProfile")
    names = [n for n, _ in sim.adt_fields(ty)]
    oid = st.new_obj("self", sv)
    st.labels[oid] = "self"
    atoms = [Const(0, prim("i64"))] + [Sym(n, prim("i64")) for n in tnames] + [Sym("t.0", prim("i64"))]
    for i in range(5):
        for j in range(i + 1, 5):
            sim.assume_int_rel(st, atoms[i], atoms[j], S.rel_of(ranks[i], ranks[j]))
    tty = {"k": "adt", "did": prog.adt_by_name("Time")["did"], "name": "Time", "args": []}
    return st, oid, Sym("t", tty), names


def run_accessor(sim, fn, st, oid, t):
    st2 = st.copy()
    leaves = sim.run(fn, sim.identity_gargs(fn), [Ref(Ptr(oid)), t], st2)
    return leaves


def check_accessors(chk, prog, sim):
    key = "accessors:agreement"
    chk.obligation(key, "piece/mode/acceleration/velocity/position/history agree for every ordering of {0,t1,t2,t3,t} x end kind")

    def inh(name):
        fs = [f for f in prog.find_fns(name=name, self_name="MotionProfile") if not f.get("impl_trait")]
        if len(fs) != 1:
            raise AnchorMissing("MotionProfile::" + name)
        chk.analysed(fs[0]["pretty"])
        return fs[0]
    f_piece, f_mode, f_acc, f_vel, f_pos = inh("get_piece"), inh("get_mode"), inh("get_acceleration"), inh("get_velocity"), inh("get_position")
    f_hist = prog.find_fn(name="get", self_name="MotionProfile", trait="History")
    chk.analysed(f_hist["pretty"])
    ok = True
    ords = orderings()
    chk.extra["orderings"] = len(ords)
    for ranks in ords:
        reg = region(ranks)
        for kind in KINDS:
            st, oid, t, names = setup(sim, prog, ranks, kind)
            case = "order(0,t1,t2,t3,t)=%s end=%s" % (ranks, kind)
            res = {}
            bad = False
            for nm, fn in (("piece", f_piece), ("mode", f_mode), ("acc", f_acc), ("vel", f_vel), ("pos", f_pos), ("hist", f_hist)):
                ls = run_accessor(sim, fn, st, oid, t)
                chk.evaluated(len(ls), nontrivial=(key, case, nm))
                if len(ls) != 1 or ls[0].kind != "return":
                    kinds = [(l.kind, l.info.get("msg")) for l in ls]
                    rule = "analysis-incomplete" if any(l.kind == "unsupported" for l in ls) else "C06.agree"
                    chk.violation(rule, "%s:%s" % (nm, "panic" if any(l.kind == "panic" for l in ls) else "nondet"),
                                  "%s with %s: expected one returning path, got %s" % (fn["pretty"], case, kinds), fn=fn["pretty"], file=loc(fn["span"]), case=case)
                    ok = False
                    bad = True
                    continue
                res[nm] = sim.final_value(ls[0].state, ls[0].value)
                if reg == 0:
                    touched = [a for a in ls[0].state.arith if "t.0" in a[1] or "t.0" in a[2]]
                    if touched:
                        chk.violation("C06.agree", "%s:arith-before-start" % nm, "%s with %s: overflow-checked arithmetic on the query time (%s) is evaluated although t < 0 must return immediately; "
                                      "it panics for times near i64::MIN instead of reporting 'before start'" % (fn["pretty"], case, touched[0]), fn=fn["pretty"], file=loc(fn["span"]), case=case)
                        ok = False
            if bad:
                continue
            problems = []
            # piece
            if not (isinstance(res["piece"], Enum) and res["piece"].vname == PIECES[reg]):
                problems.append(("piece", "get_piece = %r, expected %s" % (res["piece"], PIECES[reg])))
            # mode
            exp_mode = [None, "Acceleration", "Velocity", "Acceleration", kind][reg]
            m = res["mode"]
            got_mode = None if (isinstance(m, Enum) and m.vname == "None") else (m.fields[0].vname if isinstance(m, Enum) and m.fields else "?")
            if got_mode != exp_mode:
                problems.append(("mode", "get_mode = %r, expected %s" % (m, exp_mode)))

            def present(v):
                return isinstance(v, Enum) and v.vname == "Some"
            exp_present = {"acc": reg != 0, "vel": reg in (1, 2, 3) or (reg == 4 and kind in ("Position", "Velocity")),
                           "pos": reg in (1, 2, 3) or (reg == 4 and kind == "Position")}
            for nm in ("acc", "vel", "pos"):
                if present(res[nm]) != exp_present[nm]:
                    problems.append((nm, "%s is %s, expected %s" % (nm, "present" if present(res[nm]) else "absent", "present" if exp_present[nm] else "absent")))
            # history
            h = res["hist"]
            if reg == 0:
                if not (isinstance(h, Enum) and h.vname == "None"):
                    problems.append(("hist", "history must be absent before the start, got %r" % (h,)))
            else:
                if not (isinstance(h, Enum) and h.vname == "Some"):
                    problems.append(("hist", "history absent after the start"))
                else:
                    d = h.fields[0]
                    ht, hv = d.fields
                    if ht != sim.final_value(st, t):
                        problems.append(("hist", "history is stamped %r, not the query time" % (ht,)))
                    src = {"Position": "pos", "Velocity": "vel", "Acceleration": "acc"}.get(exp_mode)
                    if not (isinstance(hv, Enum) and hv.vname == exp_mode):
                        problems.append(("hist", "history command kind %r, expected %s" % (hv, exp_mode)))
                    elif src and present(res[src]):
                        q = res[src].fields[0]
                        if hv.fields[0] != q.fields[0]:
                            problems.append(("hist", "history value %r is not the value of the matching accessor %r" % (hv.fields[0], q.fields[0])))
                    elif src:
                        problems.append(("hist", "mode is %s but the matching accessor is absent" % exp_mode))
                    if reg == 4 and isinstance(hv, Enum) and hv.fields and hv.fields[0] != Sym("end") and not (kind != "Acceleration" and False):
                        problems.append(("hist", "after completion the history must return the end command's value, got %r" % (hv.fields[0],)))
            for nm, msg in problems:
                chk.violation("C06.agree", "%s:region=%s:end=%s" % (nm, PIECES[reg], kind), "%s: %s" % (case, msg), case=case)
                ok = False
            if len(chk.samples) < 6:
                chk.sample({"case": case, "piece": repr(res["piece"]), "mode": repr(res["mode"]), "history": repr(res["hist"])[:100]})
    if ok:
        chk.discharge(key)


def terms_in(v, acc):
    acc.add(v)
    if isinstance(v, Term):
        for a in v.args:
            terms_in(a, acc)
    return acc


def check_constructor(chk, prog, sim):
    key = "constructor:ordering"
    chk.obligation(key, "constructor panics or yields 0 <= t1 <= t2 <= t3 (structure), end command = Command::from(end_state)")
    fs = [f for f in prog.find_fns(name="new", self_name="MotionProfile") if not f.get("impl_trait")]
    if len(fs) != 1:
        raise AnchorMissing("MotionProfile::new")
    fn = fs[0]
    chk.analysed(fn["pretty"])
    st = S.State()
    gargs = sim.identity_gargs(fn)
    qty = Q.quantity_ty(prog)
    args = []
    for i, t in enumerate(fn["sig_inputs"]):
        nm = ["start", "end", "max_vel", "max_acc"][i] if i < 4 else "arg%d" % i
        if is_adt(t, "Quantity"):
            # well-dimensioned arguments: the property quantifies over accepted, dimensionally correct calls
            unit = {"max_vel": (1, -1), "max_acc": (1, -2)}.get(nm, (0, 0))
            args.append(Struct(qty, (Sym(nm + ".value", prim("f32")), Q.unit_value(sim, prog, *unit))))
        else:
            args.append(Sym(nm, subst(t, gargs)))
    leaves = sim.run(fn, gargs, args, st)
    ok = True
    nret = 0
    tnames = None
    for leaf in leaves:
        chk.evaluated(1, nontrivial=(key, repr(leaf.pc)))
        if leaf.kind == "unsupported":
            chk.violation("analysis-incomplete", key, "MotionProfile::new: " + leaf.info["msg"], site=K.leaf_site(leaf))
            ok = False
            continue
        if leaf.kind != "return":
            continue   # panicking is allowed by the property
        nret += 1
        stl = leaf.state
        v = sim.final_value(stl, leaf.value)
        import layout
        fields = dict(layout.value_leaves(sim, v, stop=("Time", "Quantity", "Command")))
        times = [(n, fv) for n, fv in fields.items() if isinstance(fv, Struct) and fv.ty and fv.ty.get("name") == "Time"]
        if len(times) != 3:
            chk.violation("C06.ctor", key + ":shape", "constructor result does not carry three Time fields: %r" % (v,))
            ok = False
            continue
        xs = []
        for n, tv in times:
            x = tv.fields[0]
            # shape: FloatToInt(Mul(X, 1e9))
            if isinstance(x, Term) and x.op == "Cast:FloatToInt" and isinstance(x.args[0], Term) and x.args[0].op == "Mul":
                xs.append(x.args[0].args[0])
            else:
                xs.append(None)
        if None in xs:
            chk.violation("C06.ctor", key + ":conversion", "phase boundaries are not all produced by the same seconds->Time conversion: %r" % ([t for _, t in times],), fn=fn["pretty"])
            ok = False
            continue
        x1, x2, x3 = xs
        good = isinstance(x2, Term) and x2.op == "Add" and x2.args[0] == x1 and isinstance(x3, Term) and x3.op == "Add" and x3.args[0] == x2
        if not good:
            chk.violation("C06.ctor", key + ":sums", "t2/t3 are not t1 + d2 and t2 + d3: t1=%r t2=%r t3=%r" % (x1, x2, x3), fn=fn["pretty"], file=loc(fn["span"]))
            ok = False
            continue
        d2, d3 = x2.args[1], x3.args[1]
        nonneg = set()
        for p in leaf.pc:
            if p[0] == "frel":
                lhs, rhs = p[1].split(" ? ")
                if rhs == "0.0:f32" and set(p[2]) <= set("=>"):
                    nonneg.add(lhs)
                if lhs == "0.0:f32" and set(p[2]) <= set("=<"):
                    nonneg.add(rhs)
        for nm, d in (("t1", x1), ("d_t2", d2), ("d_t3", d3)):
            if repr(d) not in nonneg:
                chk.violation("C06.ctor", key + ":assert:" + nm, "a returning path of the constructor has not asserted %s >= 0 (path atoms: %s)" % (nm, sorted(nonneg)[:4]),
                              fn=fn["pretty"], file=loc(fn["span"]))
                ok = False
        for i, fv in fields.items():
            if isinstance(fv, Struct) and fv.ty and fv.ty.get("name") == "Quantity":
                ex = Q.unit_exps(sim, stl, fv.fields[1])
                if ex and all(isinstance(e, Const) for e in ex):
                    FIELD_UNITS[i] = tuple(e.val for e in ex)
        # end command = Command::from(end_state): lowest non-zero derivative decided on this path
        ec = [fv for n, fv in fields.items() if isinstance(fv, Enum) and fv.ty and fv.ty.get("name") == "Command"]
        if len(ec) != 1:
            chk.violation("C06.ctor", key + ":end-command", "no end command in the constructed profile")
            ok = False
        else:
            c = ec[0]
            exp = {"Position": Sym("end.position"), "Velocity": Sym("end.velocity"), "Acceleration": Sym("end.acceleration")}[c.vname]
            zero = {}
            for p in leaf.pc:
                if p[0] == "frel" and ("end.acceleration" in p[1].split(" ? ") or "end.velocity" in p[1].split(" ? ")) and "0.0:f32" in p[1]:
                    f = [x for x in p[1].split(" ? ") if x.startswith("end.")][0].split(".")[1]
                    zero[f] = (p[2] == "=")
            want = "Acceleration" if zero.get("acceleration") is False else ("Velocity" if zero.get("velocity") is False else ("Position" if zero.get("velocity") is True and zero.get("acceleration") is True else None))
            if want != c.vname:
                chk.violation("C06.ctor", key + ":end-command-kind", "end command kind %s on a path with zero tests %s: expected the lowest non-zero derivative (%s)" % (c.vname, zero, want),
                              fn=fn["pretty"], file=loc(fn["span"]))
                ok = False
            if c.fields[0] != exp:
                chk.violation("C06.ctor", key + ":end-command", "end command %r is not taken from the end state's %s" % (c, c.vname.lower()), fn=fn["pretty"])
                ok = False
    if nret == 0:
        chk.violation("C06.ctor", key + ":never-returns", "the constructor has no returning path")
        ok = False
    chk.extra["constructor_return_paths"] = nret
    if ok:
        chk.discharge(key)


def run(chk):
    prog = load_config("K1")
    chk.configs.append("K1")
    chk.rule("C06.agree", "per ordering x end kind: single returning path per accessor, region table, history payload == matching accessor's term, stamped with t")
    chk.rule("C06.pieces", "piece -> mode/unit conversion is defined exactly for InitialAcceleration, ConstantVelocity, EndAcceleration, with and without dimension checking")
    chk.rule("C06.ctor", "returning constructor paths have asserted t1,d2,d3 >= 0, t2 = t1 + d2, t3 = t2 + d3 through one conversion; end command from end state")
    sim = S.Sim(prog)
    check_constructor(chk, prog, sim)
    check_accessors(chk, prog, sim)
    # the constructor's guarantee must not depend on the profile: in a release build (K6) debug_assert!s are gone, so an
    # ordering assertion downgraded to debug_assert! lets 0 <= t1 <= t2 <= t3 fail silently
    p6 = load_config("K6")
    chk.configs.append("K6")
    before = len(chk.violations)
    check_constructor(chk, p6, S.Sim(p6))
    for v in chk.violations[before:]:
        v["key"] += "@K6"
        v["what"] = "[release profile] " + v["what"]
    # piece -> mode / unit conversion table: defined exactly for the three moving pieces, in the checking configuration and
    # with dimension checking compiled out (K4), where a cfg-split conversion could start accepting BeforeStart / Complete
    import rules.C01 as C01
    want = {"Position": (1, 0), "Velocity": (1, -1), "Acceleration": (1, -2)}
    key = "pieces:conversion-table"
    chk.obligation(key, "MotionProfilePiece -> PositionDerivative / Unit defined exactly for the moving pieces (K1 and K4)")
    okp = C01.check_piece_conversions(chk, prog, sim, "C06.pieces", key, want)
    p4 = load_config("K4")
    chk.configs.append("K4")
    okp = C01.check_piece_conversions(chk, p4, S.Sim(p4), "C06.pieces", key, want, "@K4") and okp
    if okp:
        chk.discharge(key)
    chk.assume("lemma: f32 x + y >= x for y >= 0 and the seconds->Time conversion is monotone non-decreasing (saturating), hence asserted durations give t1 <= t2 <= t3",
               "i64 overflow inside the value formulas at extreme t is not modelled (guards are plain comparisons)")
    chk.extra["std_models"] = sorted(sim.stats["models_used"])
    return ("Sibling cross-check of the six accessors by abstract interpretation under every ordering of the query time against the phase boundaries "
            "(exhaustive: all weak orderings consistent with 0<=t1<=t2<=t3, times three end-command kinds); constructor paths checked structurally.")
