"""C04: PIDControllerStream output equals the textbook discrete PID of its input history.

The stream is abstractly interpreted from its constructor through chains of events; after every update the payload of
get() is normalised as a rational function over the reals (engine D) and compared with the reference recurrence
    e_k = setpoint - x_k,  I_1 = D_1 = 0,  I_k = I_{k-1} + dt (e_{k-1}+e_k)/2,  D_k = (e_k - e_{k-1})/dt,
    out_k = kp e_k + ki I_k + kd D_k,  stamped with the input's time;
a step from a fully symbolic predecessor state gives the induction step for arbitrary history length; runs with an
absent / errored input in the middle must continue like a fresh controller (reset rule); every int->float cast must
take a time difference (shift invariance); the output must be degree-1 homogeneous in (setpoint, samples) (exact
power-of-two scaling modulo over/underflow); the I- and D-recurrences must coincide with those established for
IntegralStream / DerivativeStream in C10 (agreement with the composed controller, over the reals).
"""
import sympy as sp
from values import *
from program import load_config, subst, ty_str, is_adt, prim, AnchorMissing, loc
import sim as S
import streamkit as K
import numkit as N
import algebra as A
import rules.C10 as C10

NAME = "PIDControllerStream"


def ref_outputs(tags):
    """Reference outputs for a run of present samples with the given tags (sympy)."""
    spt = A.sym("setpoint")
    kp, ki, kd = A.sym("kvals.kp"), A.sym("kvals.ki"), A.sym("kvals.kd")
    outs = []
    I = 0
    prev = None
    for i, t in enumerate(tags):
        e = spt - A.sym("v" + t)
        if prev is None:
            D = 0
        else:
            dt = (A.sym("t" + t) - A.sym("t" + prev[0])) / 10**9
            I = I + dt * (prev[1] + e) / 2
            D = (e - prev[1]) / dt
        outs.append(kp * e + ki * I + kd * D)
        prev = (t, e)
    return outs


def run_script(chk, prog, sim, up, get, script, key, expect_tags_fn):
    ug, gg = sim.identity_gargs(up), sim.identity_gargs(get)
    st0, oid, _ = N.fresh_object(sim, prog, NAME)
    frontier = [st0]
    hist = []
    ok = True
    is_time = N.time_atom_pred(["t" + t for _, t in script])
    for cat, tag in script:
        hist = expect_tags_fn(hist, cat, tag)
        nxt = []
        for st in frontier:
            for leaf in N.update_with(sim, up, ug, st, oid, cat, tag):
                chk.evaluated(1, nontrivial=(key, tag, repr(leaf.pc)))
                if leaf.kind != "return":
                    chk.violation("analysis-incomplete" if leaf.kind == "unsupported" else "C04.panic", "%s:%s" % (key, leaf.kind),
                                  "PID fed %s: update %s %s (%s)" % (script, leaf.kind, leaf.info.get("msg"), K.leaf_site(leaf)), fn=up["pretty"])
                    ok = False
                    continue
                nxt.append(leaf.state)
                ret = K.classify_output(sim, leaf.state, leaf.value)
                if (cat == "E") != (ret is not None and ret[0] == "E"):
                    chk.violation("C04.events", key + ":update-ret", "update returns %r for input %s" % (ret, cat), fn=up["pretty"], file=loc(up["span"]))
                    ok = False
                post = sim.final_value(leaf.state, leaf.state.mem[oid])
                lossy = N.lossy_ops(post)
                if lossy:
                    chk.violation("C04.value", "lossy-op", "update stores a value computed with a truncating integer operation %r (integer division/truncation of nanoseconds before the conversion to seconds)" % (lossy[0],),
                                  fn=up["pretty"], file=loc(up["span"]))
                    ok = False
                bad = N.absolute_time_casts(post, is_time)
                if bad:
                    chk.violation("C04.shift", "absolute-time", "PIDControllerStream::update converts an absolute timestamp to float (%r): the output depends on the time origin" % (bad[0],),
                                  fn=up["pretty"], file=loc(up["span"]))
                    ok = False
                for gl in N.get_on(sim, get, gg, leaf.state, oid):
                    chk.evaluated(1)
                    g = K.classify_output(sim, gl.state, gl.value) if gl.kind == "return" else None
                    if cat == "E":
                        good = g == ("E", Sym("e" + tag))
                        exp_s = "Err(e)"
                    elif cat == "N":
                        good = g == ("N",)
                        exp_s = "None"
                    else:
                        refs = ref_outputs(hist)
                        exp = refs[-1]
                        exp_s = A.show(exp)
                        good = bool(g) and g[0] == "S" and g[1] == Sym("t" + tag)
                        if good:
                            try:
                                got = A.to_sympy(g[2])
                                good = A.equal(got, exp)
                                if good and len(hist) >= 2:
                                    syms = [A.sym("setpoint")] + [A.sym("v" + t) for t in hist]
                                    if not N.homogeneous(got, syms):
                                        chk.violation("C04.scale", key + ":homogeneity", "output after %s is not degree-1 homogeneous in setpoint and samples: %s" % (hist, A.show(got)), fn=up["pretty"])
                                        ok = False
                            except Exception as ex:
                                good = False
                    if not good:
                        chk.violation("C04.value", "%s:after-%s" % (key, tag), "PID fed %s: after %s:%s get() returns %r, expected %s (run since last reset: %s)"
                                      % ([c + ":" + t for c, t in script], cat, tag, g, exp_s, hist), fn=up["pretty"], file=loc(up["span"]))
                        ok = False
                    elif cat == "S" and len(chk.samples) < 5:
                        chk.sample({"script": [c + ":" + t for c, t in script], "after": tag, "output": A.show(A.to_sympy(g[2]))})
        frontier = nxt
        if not ok:
            break      # already failed: later steps only repeat the report and can be very slow on a wrong formula
    return ok


def check_symbolic_step(chk, prog, sim, up, get):
    """Induction step: from an arbitrary state with a previous error, one present sample."""
    key = "step:symbolic-predecessor"
    chk.obligation(key, "PID step function from an arbitrary predecessor state")
    ug, gg = sim.identity_gargs(up), sim.identity_gargs(get)
    st = S.State()
    sty = subst(up["sig_inputs"][0], ug)["ty"]
    sv = sim.expand(st, Sym("self", sty))
    oid = st.new_obj("self", sv)
    st.labels[oid] = "self"
    ok = True
    n_some = 0
    # roles of the state leaves are found by type and constructor value, not by field name (private fields may be renamed or grouped
    # into a private sub-struct): cache = Result<Option<Datum>>, previous error = Option<Datum<f32>>, integral = the f32 leaf the
    # constructor sets to a constant, setpoint = the f32 leaf the constructor takes from an argument, gains = PIDKValues
    import rules.C05 as C05
    names = C05.flat_names(sim, sty)
    st0c, oid0, _ = N.fresh_object(sim, prog, NAME)
    s0 = C05.flat(sim, None, sim.final_value(st0c, st0c.mem[oid0]))
    role = {}
    for i, (n, t) in enumerate(names):
        if C05.is_cache_ty(t):
            role["output"] = i
        elif is_adt(t, "Option") and is_adt(t["args"][0], "Datum"):
            role["prev"] = i
        elif is_adt(t, "PIDKValues"):
            role["kvals"] = i
        elif t.get("k") == "prim" and t.get("name") == "f32":
            role["integral" if isinstance(s0.fields[i], Const) else "setpoint"] = i
    if set(role) != {"output", "prev", "kvals", "setpoint", "integral"}:
        raise AnchorMissing("PIDControllerStream state roles (found %s)" % sorted(role))
    pname = {k: "self." + names[i][0] for k, i in role.items()}
    for leaf in N.update_with(sim, up, ug, st, oid, "S", "n"):
        chk.evaluated(1, nontrivial=(key, repr(leaf.pc)))
        if leaf.kind == "panic":
            continue   # debug_assert on an unreachable (prev None, integral != 0) pre-state
        if leaf.kind != "return":
            chk.violation("analysis-incomplete", key, "symbolic PID step: %s" % leaf.info.get("msg"))
            ok = False
            continue
        prevs = [p for p in leaf.pc if p[0] == "variant" and p[1] == pname["prev"]]
        post = sim.final_value(leaf.state, leaf.state.mem[oid])
        pf = C05.flat(sim, None, post).fields
        f = {k: pf[i] for k, i in role.items()}
        spt, I0 = A.sym(pname["setpoint"]), A.sym(pname["integral"])
        kp, ki, kd = [A.sym(pname["kvals"] + "." + g) for g in ("kp", "ki", "kd")]
        e = spt - A.sym("vn")
        out = K.classify_output(sim, leaf.state, f["output"])
        if prevs and prevs[0][2] == "Some":
            n_some += 1
            pe = A.sym(pname["prev"] + ".Some.0.value")
            dt = (A.sym("tn") - A.sym(pname["prev"] + ".Some.0.time.0")) / 10**9
            I1 = I0 + dt * (pe + e) / 2
            D = (e - pe) / dt
        else:
            I1 = I0
            D = 0
        try:
            good = out and out[0] == "S" and out[1] == Sym("tn") and A.equal(A.to_sympy(out[2]), kp * e + ki * I1 + kd * D) and A.equal(A.to_sympy(f["integral"]), I1)
            pe_new = f["prev"]
            good = good and isinstance(pe_new, Enum) and pe_new.vname == "Some" and A.equal(A.to_sympy(pe_new.fields[0].fields[1]), e) \
                and pe_new.fields[0].fields[0].fields[0] == Sym("tn")
        except Exception:
            good = False
        if not good:
            chk.violation("C04.value", key, "from an arbitrary predecessor (%s) one present sample gives output %r / state %r, not the textbook PID step" % (prevs, out, post),
                          fn=up["pretty"], file=loc(up["span"]))
            ok = False
    if n_some == 0:
        chk.violation("C04.value", key + ":vacuous", "no path with a previous error was explored")
        ok = False
    if ok:
        chk.discharge(key)


def run(chk):
    prog = load_config("K1")
    chk.configs.append("K1")
    chk.rule("C04.value", "get() payload == reference recurrence (rational functions over the reals), stamped with the input time")
    chk.rule("C04.events", "absent and errored inputs reset: later outputs equal a fresh controller fed the remaining samples; Err is reported")
    chk.rule("C04.shift", "affine-time typing of int->float casts")
    chk.rule("C04.scale", "degree-1 homogeneity in (setpoint, samples)")
    chk.rule("C04.siblings", "I/D recurrences coincide with IntegralStream/DerivativeStream references; PIDKValues::evaluate = kp e + ki I + kd D")
    sim = S.Sim(prog)
    if not prog.has_adt(NAME):
        raise AnchorMissing(NAME)
    up = prog.find_fn(name="update", self_name=NAME, trait="Updatable")
    get = prog.find_fn(name="get", self_name=NAME, trait="Getter")
    chk.analysed(up["pretty"])
    chk.analysed(get["pretty"])
    scripts = {
        "run:SSSS": ([("S", "a"), ("S", "b"), ("S", "c"), ("S", "d")], lambda h, c, t: h + [t]),
        "run:SSNSS": ([("S", "a"), ("S", "b"), ("N", "x"), ("S", "c"), ("S", "d")], lambda h, c, t: h + [t] if c == "S" else []),
        "run:SSESS": ([("S", "a"), ("S", "b"), ("E", "x"), ("S", "c"), ("S", "d")], lambda h, c, t: h + [t] if c == "S" else []),
        "run:ESNS": ([("E", "x"), ("S", "a"), ("N", "y"), ("S", "b")], lambda h, c, t: h + [t] if c == "S" else []),
    }
    for key, (script, hf) in scripts.items():
        chk.obligation(key, "event script " + key)
        if run_script(chk, prog, sim, up, get, script, key, hf):
            chk.discharge(key)
    # the reset must not depend on the profile (a store under cfg(debug_assertions) disappears in a release build): the two
    # gap scripts again on K6 = default features, --release
    import report
    p6 = load_config("K6")
    chk.configs.append("K6")
    s6 = S.Sim(p6)
    up6 = p6.find_fn(name="update", self_name=NAME, trait="Updatable")
    get6 = p6.find_fn(name="get", self_name=NAME, trait="Getter")
    for key in ("run:SSNSS", "run:SSESS"):
        script, hf = scripts[key]
        k6 = key + "@K6"
        chk.obligation(k6, "event script %s in the release profile" % key)
        sub6 = report.Check("C04", chk.tier)
        good = run_script(sub6, p6, s6, up6, get6, script, k6, hf)
        chk.evaluations += sub6.evaluations
        for v in sub6.violations:
            chk.violation(v["rule"], v["key"] + ("" if "@K6" in v["key"] else "@K6"), "[release profile] " + v["what"], **v["detail"])
        if good and not sub6.violations:
            chk.discharge(k6)
    check_symbolic_step(chk, prog, sim, up, get)
    # siblings
    key = "siblings"
    chk.obligation(key, "agreement with the composed streams' recurrences and PIDKValues::evaluate")
    ok = True
    outs = ref_outputs(["a", "b", "c"])
    spt = A.sym("setpoint")
    sub = {A.sym("v" + t): spt - A.sym("v" + t) for t in "abc"}
    I_ref = C10.reference("IntegralStream", 3)["value"].subs(sub, simultaneous=True)
    D_ref = C10.reference("DerivativeStream", 3)["value"].subs(sub, simultaneous=True)
    comp = A.sym("kvals.kp") * (spt - A.sym("vc")) + A.sym("kvals.ki") * I_ref + A.sym("kvals.kd") * D_ref
    chk.evaluated(1, nontrivial=(key, "composed"))
    if not A.equal(outs[2], comp):
        chk.violation("C04.siblings", key + ":composed", "the PID reference recurrence differs from kp*e + ki*Integral(e) + kd*Derivative(e) built from the C10 references")
        ok = False
    ev = [f for f in prog.find_fns(name="evaluate", self_name="PIDKValues") if not f.get("impl_trait")]
    if len(ev) != 1:
        raise AnchorMissing("PIDKValues::evaluate")
    st = S.State()
    g = sim.identity_gargs(ev[0])
    a0 = sim.make_arg(st, "k", subst(ev[0]["sig_inputs"][0], g))
    ls = sim.run(ev[0], g, [a0, Sym("e", prim("f32")), Sym("i", prim("f32")), Sym("d", prim("f32"))], st)
    chk.evaluated(1, nontrivial=(key, "evaluate"))
    r = sim.final_value(ls[0].state, ls[0].value) if len(ls) == 1 and ls[0].kind == "return" else None
    try:
        good = A.equal(A.to_sympy(r), A.sym("k.kp") * A.sym("e") + A.sym("k.ki") * A.sym("i") + A.sym("k.kd") * A.sym("d"))
    except Exception:
        good = False
    if not good:
        chk.violation("C04.siblings", key + ":evaluate", "PIDKValues::evaluate computes %r" % (r,), fn=ev[0]["pretty"], file=loc(ev[0]["span"]))
        ok = False
    # the same law without std (K2 = no_std + alloc + libm): a provider-specific arm of evaluate must compute the same sum
    p2 = load_config("K2")
    chk.configs.append("K2")
    s2 = S.Sim(p2)
    ev2 = [f for f in p2.find_fns(name="evaluate", self_name="PIDKValues") if not f.get("impl_trait")]
    if len(ev2) == 1:
        st2 = S.State()
        g2 = s2.identity_gargs(ev2[0])
        a2 = s2.make_arg(st2, "k", subst(ev2[0]["sig_inputs"][0], g2))
        ls2 = s2.run(ev2[0], g2, [a2, Sym("e", prim("f32")), Sym("i", prim("f32")), Sym("d", prim("f32"))], st2)
        chk.evaluated(1, nontrivial=(key, "evaluate@K2"))
        r2 = s2.final_value(ls2[0].state, ls2[0].value) if len(ls2) == 1 and ls2[0].kind == "return" else None
        try:
            good2 = A.equal(A.to_sympy(r2), A.sym("k.kp") * A.sym("e") + A.sym("k.ki") * A.sym("i") + A.sym("k.kd") * A.sym("d"))
        except Exception:
            good2 = False
        if not good2:
            chk.violation("C04.siblings", key + ":evaluate@K2", "[no_std + alloc + libm] PIDKValues::evaluate computes %r, not kp*e + ki*I + kd*D" % (r2,), fn=ev2[0]["pretty"], file=loc(ev2[0]["span"]))
            ok = False
    # the composed controller's members across a gap: after an absent / error event the crate's own integral and derivative
    # streams must restart exactly like the PID stream's I and D (shared event-run analysis with C10)
    import report
    for member in ("IntegralStream", "DerivativeStream"):
        sub = report.Check("C04", chk.tier)
        C10.UNITS_ON[0] = __import__("program").units_enabled(prog)
        C10.check_interleaved(sub, prog, sim, member)
        C10.check_stream(sub, prog, sim, member)
        chk.evaluated(1, nontrivial=(key, "member-events", member))
        for v in sub.violations:
            rule = v["rule"] if v["rule"] in ("analysis-incomplete",) else "C04.siblings"
            chk.violation(rule, "%s:member-events:%s" % (key, v["key"]), "the controller assembled from the crate's streams disagrees with PIDControllerStream across a gap: " + v["what"], **v.get("detail", {}))
            ok = False
    # ... and the combinators that assemble it: difference (setpoint - process), products with the gains, the three-term sum
    import rules.C02 as C02
    subc = report.Check("C04", chk.tier)
    for cname, arity in (("DifferenceStream", None), ("Product2", None), ("ProductStream", 2), ("SumStream", 3), ("Sum2", None)):
        if prog.has_adt(cname):
            C02.run_stream(subc, prog, sim, cname, arity)
    chk.evaluations += subc.evaluations
    for v in subc.violations:
        if v["rule"] == "C02.pure":
            continue
        chk.violation("C04.siblings" if v["rule"].startswith("C02") else v["rule"], "%s:combinator:%s" % (key, v["key"]),
                      "the controller assembled from the crate's streams (difference, gain products, three-term sum) no longer equals kp*e + ki*I + kd*D: " + v["what"], **v["detail"])
        ok = False
    if ok:
        chk.discharge(key)
    chk.assume("real-arithmetic model: f32 rounding / accumulation error not decided", "whole-network equivalence with examples/pid.rs is derived from the shared recurrences, not simulated",
               "exact power-of-two scaling follows from degree-1 homogeneity modulo overflow/underflow")
    chk.extra["std_models"] = sorted(sim.stats["models_used"])
    return ("Chained abstract interpretation of the PID stream over event scripts plus a step from a symbolic predecessor state; outputs compared with the "
            "textbook recurrence as rational functions; reset behaviour, shift invariance (affine-time typing), homogeneity and sibling agreement decided structurally.")
