"""C20: device wrappers relay data between getters/settables and terminals unaltered.

Effect-sequence tables obtained by abstract interpretation of each wrapper's update() on an explicit terminal cell,
with the inner object an oracle (ordered effect log, Ok/Err outcomes forked):
  A  ActuatorWrapper: terminals updated; combined read; Some(d) -> exactly one inner.set(d.value) with the terminal's
     combined data, None -> no set; then inner.update(); every Err propagated, nothing after a failing step.
  G  GetterStateDeviceWrapper: inner.update(); terminal update; inner.get(): Err propagated, None -> terminal untouched,
     Some(d) -> terminal state slot := d, unchanged.
  P  PIDWrapper: update order (clock, state, command, pid.update, inner.update; nothing but inner.update when the
     terminal sees nothing) and the wiring built by new() (clock shared by both constant getters; pid's input is the
     state getter; pid follows the command getter; inner follows pid) - together with C11 the structural content of
     'drives the motor with what a stand-alone CommandPID produces'.
"""
import itertools
from values import *
from program import load_config, subst, ty_str, is_adt, prim, AnchorMissing, loc
import sim as S
import streamkit as K
import devkit as D
import mirwalk as W


def terminal_data_expected(sim, h, tag, has_s, has_c):
    """Expected TerminalData payload for an unpartnered terminal with own state/command presence."""
    if not has_s and not has_c:
        return None
    t = Sym("ts" + tag) if has_s else Sym("tc" + tag)
    return t


def run_wrapper(sim, prog, fn, config, hook):
    st = S.State()
    gargs = sim.identity_gargs(fn)
    dh = D.DeviceHeap(sim, prog, fn, gargs, st)
    a0 = dh.build(config)
    old = sim.oracle_hook
    sim.oracle_hook = hook
    leaves = sim.run(fn, gargs, [a0], st)
    sim.oracle_hook = old
    return leaves, dh


def ok_of(sim, leaf):
    r = sim.final_value(leaf.state, leaf.value)
    return r


def calls_on(leaf, label_sub):
    return [e for e in leaf.effects if e[0] == "call" and label_sub in e[1]]


def check_actuator(chk, prog, sim):
    key = "A:ActuatorWrapper::update"
    chk.obligation(key, "actuator wrapper effect sequence")
    fn = prog.find_fn(name="update", self_name="ActuatorWrapper", trait="Updatable")
    chk.analysed(fn["pretty"])
    ok = True
    for has_s, has_c in itertools.product((False, True), repeat=2):
        leaves, dh = run_wrapper(sim, prog, fn, [dict(state=has_s, cmd=has_c)], None)
        for leaf in leaves:
            case = "terminal(state=%d,cmd=%d)" % (has_s, has_c)
            chk.evaluated(1, nontrivial=(key, case, repr(leaf.pc)))
            if leaf.kind != "return":
                chk.violation("analysis-incomplete" if leaf.kind == "unsupported" else "C20.A", key + ":" + leaf.kind, "ActuatorWrapper::update %s: %s %s (%s)" % (case, leaf.kind, leaf.info.get("msg"), K.leaf_site(leaf)), fn=fn["pretty"])
                ok = False
                continue
            inner = calls_on(leaf, "dev.f")   # calls on the inner field of the wrapper
            inner = [e for e in leaf.effects if e[0] == "call" and e[2].split("::")[-1] in ("set", "update", "impl_set")]
            names = [e[2].split("::")[-1] for e in inner]
            ret = ok_of(sim, leaf)
            set_err = [p for p in leaf.pc if p[0] == "variant" and ".set()" in p[1] and p[2] == "Err"]
            upd_err = [p for p in leaf.pc if p[0] == "variant" and ".update()" in p[1] and p[2] == "Err"]
            sees = has_s or has_c
            exp_names = (["set"] if sees else []) + ([] if set_err else ["update"])
            problems = []
            if names != exp_names:
                problems.append("inner calls %s, expected %s" % (names, exp_names))
            if sees and inner and inner[0][2].endswith("set"):
                arg = sim.final_value(leaf.state, inner[0][3][0])
                good = isinstance(arg, Struct) and len(arg.fields) == 3
                if good:
                    tt = arg.fields[0].fields[0] if isinstance(arg.fields[0], Struct) else arg.fields[0]
                    exp_t = Sym("ts0") if has_s else Sym("tc0")
                    cmdf, stf = arg.fields[1], arg.fields[2]
                    good = tt == exp_t and \
                        ((has_c and isinstance(cmdf, Enum) and cmdf.vname == "Some" and cmdf.fields[0] == sim.final_value(leaf.state, Sym("c0", cmdf.fields[0].ty if hasattr(cmdf.fields[0], "ty") else None))) or (not has_c and isinstance(cmdf, Enum) and cmdf.vname == "None")) and \
                        ((has_s and isinstance(stf, Enum) and stf.vname == "Some" and stf.fields[0] == sim.final_value(leaf.state, Sym("s0", stf.fields[0].ty if hasattr(stf.fields[0], "ty") else None))) or (not has_s and isinstance(stf, Enum) and stf.vname == "None"))
                if not good:
                    problems.append("inner.set receives %r, not the terminal's combined data" % (arg,))
            failed = bool(set_err or upd_err)
            rok = isinstance(ret, Enum) and ret.vname == "Ok"
            if isinstance(ret, Sym) and ".update()" in ret.name and names and names[-1] == "update":
                pass   # inner.update()'s outcome returned as is: propagated by construction
            elif failed == rok:
                problems.append("returns %r although inner %s" % (ret, "failed" if failed else "succeeded"))
            if failed and isinstance(ret, Enum) and ret.vname == "Err" and not (".set()" in repr(ret.fields[0]) or ".update()" in repr(ret.fields[0])):
                problems.append("returned error %r is not the inner object's error" % (ret.fields[0],))
            for pr in problems:
                chk.violation("C20.A", key + ":" + case, "ActuatorWrapper::update with %s on path %s: %s" % (case, [p for p in leaf.pc if p[0] == "variant"], pr), fn=fn["pretty"], file=loc(fn["span"]))
                ok = False
            chk.sample({"wrapper": "ActuatorWrapper", "case": case, "inner_calls": names, "returns": repr(ret)}, cap=6)
    if ok:
        chk.discharge(key)


def check_getter_wrapper(chk, prog, sim):
    key = "G:GetterStateDeviceWrapper::update"
    chk.obligation(key, "encoder wrapper effect sequence")
    fn = prog.find_fn(name="update", self_name="GetterStateDeviceWrapper", trait="Updatable")
    chk.analysed(fn["pretty"])
    ok = True
    for cat in ("E", "N", "S"):
        for pre_state in (False, True):
            def hook(sim_, st_, label, method, args, ret_ty, ver, cat=cat):
                if method.endswith("Getter::get"):
                    return K.build_output(sim_, ret_ty, cat, "g")
                return None
            leaves, dh = run_wrapper(sim, prog, fn, [dict(state=pre_state, cmd=False)], hook)
            for leaf in leaves:
                case = "inner.get=%s terminal-has-state=%d" % (cat, pre_state)
                chk.evaluated(1, nontrivial=(key, case, repr(leaf.pc)))
                if leaf.kind != "return":
                    chk.violation("analysis-incomplete" if leaf.kind == "unsupported" else "C20.G", key + ":" + leaf.kind, "GetterStateDeviceWrapper::update %s: %s %s" % (case, leaf.kind, leaf.info.get("msg")), fn=fn["pretty"])
                    ok = False
                    continue
                ret = ok_of(sim, leaf)
                names = [e[2].split("::")[-1] for e in leaf.effects if e[0] == "call"]
                upd_err = [p for p in leaf.pc if p[0] == "variant" and ".update()" in p[1] and p[2] == "Err"]
                slot = dh.own_slot(leaf.state, 0, "state")
                pre = D.opt_datum(dh.own_slot(S.State(), 0, "state")) if False else None
                problems = []
                if upd_err:
                    if not (isinstance(ret, Enum) and ret.vname == "Err") or "get" in names:
                        problems.append("inner.update failed but update returns %r / continues (%s)" % (ret, names))
                else:
                    if names[:1] != ["update"] or names.count("get") != 1 or names.index("get") < names.index("update"):
                        problems.append("expected inner.update() then inner.get(), got %s" % names)
                    got = D.opt_datum(slot)
                    if cat == "E":
                        if not (isinstance(ret, Enum) and ret.vname == "Err" and ret.fields[0] == Sym("eg")):
                            problems.append("inner.get error not propagated: %r" % (ret,))
                    elif cat == "N":
                        exp = (Sym("ts0"), sim.final_value(leaf.state, Sym("s0", got[1].ty if got and hasattr(got[1], "ty") else None))) if pre_state else None
                        if (got is None) != (exp is None) or (got and got[0] != exp[0]):
                            problems.append("inner getter absent but the terminal's state slot changed to %r" % (slot,))
                        if not (isinstance(ret, Enum) and ret.vname == "Ok"):
                            problems.append("returns %r" % (ret,))
                    else:
                        if not (got and got[0] == Sym("tg") and got[1] == sim.final_value(leaf.state, Sym("vg", got[1].ty if hasattr(got[1], "ty") else None))):
                            problems.append("terminal state slot is %r, expected the getter's datum unchanged" % (slot,))
                for pr in problems:
                    chk.violation("C20.G", key + ":" + case, "GetterStateDeviceWrapper::update with %s: %s" % (case, pr), fn=fn["pretty"], file=loc(fn["span"]))
                    ok = False
    if ok:
        chk.discharge(key)


def check_pid_wrapper(chk, prog, sim):
    key = "P:PIDWrapper"
    if not prog.has_adt("PIDWrapper"):
        raise AnchorMissing("PIDWrapper")
    chk.obligation(key + ":update", "PID wrapper update order")
    chk.obligation(key + ":wiring", "PID wrapper wiring built by new()")
    fn = prog.find_fn(name="update", self_name="PIDWrapper", trait="Updatable")
    chk.analysed(fn["pretty"])
    ok = True
    # every method of the CommandPID is kept opaque (logged effect): besides `update` the wrapper must not touch the controller at all - the
    # command reaches it through the command getter it follows, exactly as it would reach a stand-alone CommandPID
    sim.inline_filter = lambda f: not is_adt(f.get("impl_self") or {}, "CommandPID")
    try:
        for has_s, has_c in itertools.product((False, True), repeat=2):
            leaves, dh = run_wrapper(sim, prog, fn, [dict(state=has_s, cmd=has_c)], None)
            for leaf in leaves:
                case = "terminal(state=%d,cmd=%d)" % (has_s, has_c)
                chk.evaluated(1, nontrivial=(key, case, repr(leaf.pc)))
                if leaf.kind != "return":
                    chk.violation("analysis-incomplete" if leaf.kind == "unsupported" else "C20.P", key + ":update:" + leaf.kind, "PIDWrapper::update %s: %s %s (%s)" % (case, leaf.kind, leaf.info.get("msg"), K.leaf_site(leaf)), fn=fn["pretty"])
                    ok = False
                    continue
                errs = [p for p in leaf.pc if p[0] == "variant" and p[2] == "Err"]
                ev = []
                for e in leaf.effects:
                    if e[0] == "call":
                        ev.append(e[2].split("::")[-1] + "@" + e[1])
                if errs:
                    # error propagation paths: order prefix only - but the controller is not touched there either (a reset on a
                    # rejected output makes the following outputs differ from the stand-alone controller's)
                    touched = [x for x in ev if "@*self.pid" in x and not x.startswith("update@") and not x.split("@")[0] in ("borrow", "borrow_mut", "clone")]
                    if touched:
                        chk.violation("C20.P", key + ":update:pid-touched:error-path:" + case, "PIDWrapper::update with %s calls %s on its CommandPID on a path that propagates an error: a stand-alone CommandPID fed the same "
                                      "times, states and commands receives nothing but update()" % (case, touched), fn=fn["pretty"], file=loc(fn["span"]), path=leaf.pc)
                        ok = False
                    continue
                stl = leaf.state
                pid_upd = [x for x in ev if x.startswith("update@*self.pid")]
                pid_other = [x for x in ev if "@*self.pid" in x and not x.startswith("update@") and not x.split("@")[0] in ("borrow", "borrow_mut", "clone")]
                if pid_other:
                    chk.violation("C20.P", key + ":update:pid-touched:" + case, "PIDWrapper::update with %s calls %s on its CommandPID: a stand-alone CommandPID fed the same times, states and commands receives nothing but update(), "
                                  "so the wrapper's output differs from it (e.g. a reset or set that the stand-alone controller never sees)" % (case, [x.split("@")[0] for x in pid_other]), fn=fn["pretty"], file=loc(fn["span"]))
                    ok = False
                inner_upd = [x for x in ev if x.startswith("update@dev") or x.startswith("update@self.inner") or ("update@" in x and "pid" not in x)]
                sees = has_s or has_c
                problems = []
                # clock / state / command writes
                def referent(name):
                    for o in stl.mem:
                        if o.startswith("*self.%s#" % name) or o.startswith("*dev.%s" % name):
                            return sim.final_value(stl, stl.mem[o])
                    return None
                clock = None
                for o in stl.mem:
                    if "time" in o and o.startswith("*"):
                        clock = sim.final_value(stl, stl.mem[o])
                if sees:
                    exp_t = Sym("ts0") if has_s else Sym("tc0")
                    if not (isinstance(clock, Struct) and clock.fields == (exp_t,)):
                        problems.append("clock is %r after update, expected the terminal data's time %r" % (clock, exp_t))
                    if len(pid_upd) != 1:
                        problems.append("pid.update() called %d times, expected once (events %s)" % (len(pid_upd), ev))
                else:
                    if pid_upd:
                        problems.append("pid.update() called although the terminal sees nothing")
                if pid_upd:
                    # the clock / state / command getters must be fed BEFORE the pid is updated in the same round
                    seq = []
                    for e in leaf.effects:
                        if e[0] == "ref_borrow_mut":
                            seq.append(("w", e[1]))
                        elif e[0] == "call" and e[2].endswith("::update") and "pid" in e[1]:
                            seq.append(("pid", e[1]))
                    pidx = [i for i, x in enumerate(seq) if x[0] == "pid"][0]
                    for nm, has in (("time", sees), ("state", has_s), ("command", has_c)):
                        widx = [i for i, x in enumerate(seq) if x[0] == "w" and ("." + nm) in x[1] and "pid" not in x[1]]
                        if has and (not widx or min(widx) > pidx):
                            problems.append("pid.update() runs before the %s getter is fed this round's terminal data (order %s)" % (nm, [x[1] for x in seq]))
                if len(inner_upd) < 1:
                    problems.append("inner.update() not called (events %s)" % ev)
                if pid_upd and inner_upd and ev.index(pid_upd[0]) > ev.index(inner_upd[-1]):
                    problems.append("inner.update() runs before pid.update()")
                # state / command constant getters receive the terminal's values before pid.update
                for nm, has, sym in (("state", has_s, "s0"), ("command", has_c, "c0")):
                    holder = None
                    for o in stl.mem:
                        if o.startswith("*") and (".%s" % nm) in o and "pid" not in o:
                            holder = sim.final_value(stl, stl.mem[o])
                    stored = holder is not None and (sym + ".") in repr(holder) or (holder is not None and repr(Sym(sym)) in repr(holder))
                    if has and not stored:
                        problems.append("%s getter does not hold the terminal's %s after update (%r)" % (nm, nm, holder))
                    if not has and holder is not None and sym in repr(holder):
                        problems.append("%s getter changed although the terminal has no %s" % (nm, nm))
                for pr in problems:
                    chk.violation("C20.P", key + ":update:" + case, "PIDWrapper::update with %s: %s" % (case, pr), fn=fn["pretty"], file=loc(fn["span"]))
                    ok = False
    finally:
        sim.inline_filter = None
    if ok:
        chk.discharge(key + ":update")
    # ---- wiring (static data-flow over new())
    new = [f for f in prog.find_fns(name="new", self_name="PIDWrapper") if not f.get("impl_trait")]
    if len(new) != 1:
        raise AnchorMissing("PIDWrapper::new")
    new = new[0]
    chk.analysed(new["pretty"])
    body = new["body"]
    defs = W.local_defs(body)
    argn = {x["name"]: x["place"]["l"] for x in body["names"] if not x["place"]["p"]}
    okw = True

    def flat(local):
        return W.flatten_origins(W.origins(body, local, defs))

    def args_of(call_name_sub, self_sub=None):
        out = []
        for bi, t, fnj, res in W.calls_in(body):
            tgt = res["fn"] if res else fnj
            if tgt["name"] == call_name_sub and (self_sub is None or self_sub in tgt["pretty"]):
                out.append([flat(a["place"]["l"]) if a["k"] in ("copy", "move") else set() for a in t["args"]])
        return out
    cg = args_of("new", "ConstantGetter")
    cp = args_of("new", "CommandPID")
    fol = args_of("follow")
    problems = []
    if len(cg) != 2 or len(cp) != 1 or len(fol) != 2:
        problems.append("expected 2 ConstantGetter::new, 1 CommandPID::new, 2 follow calls; found %d/%d/%d" % (len(cg), len(cp), len(fol)))
    else:
        a_time, a_state, a_cmd = argn.get("initial_time"), argn.get("initial_state"), argn.get("initial_command")
        for c in cg:
            if ("arg", a_time) not in c[0]:
                problems.append("a constant getter's clock does not derive from the shared clock built from initial_time")
        vals = [c[1] for c in cg]
        if not any(("arg", a_state) in v for v in vals) or not any(("arg", a_cmd) in v for v in vals):
            problems.append("constant getters are not initialised from initial_state / initial_command")
        if ("arg", a_state) not in cp[0][0]:
            problems.append("CommandPID's input is not the state getter")
        if ("arg", a_cmd) not in cp[0][1]:
            problems.append("CommandPID's initial command is not initial_command")
        # follow #1: pid follows command getter; follow #2: inner follows pid
        f_pid = [f for f in fol if any(o[0] == "call" and "CommandPID" in str(o[1]) for o in f[0])]
        f_inner = [f for f in fol if f not in f_pid]
        if len(f_pid) != 1 or not (("arg", a_cmd) in f_pid[0][1] and not any(o[0] == "call" and "CommandPID" in str(o[1]) for o in f_pid[0][1])):
            problems.append("pid does not follow the command getter")
        if len(f_inner) != 1 or not any(o[0] == "call" and "CommandPID" in str(o[1]) for o in f_inner[0][1]):
            problems.append("inner does not follow the pid")
    chk.evaluated(1, nontrivial=(key, "wiring"))
    for pr in problems:
        chk.violation("C20.P", key + ":wiring", "PIDWrapper::new: " + pr, fn=new["pretty"], file=loc(new["span"]))
        okw = False
    if okw:
        chk.discharge(key + ":wiring")


def check_read_after_terminal_update(chk, prog, sim):
    """O: 'the combined data its terminal CURRENTLY sees': a terminal may follow a getter, whose value only arrives in
    Terminal::update (update_terminals); the wrappers must therefore read the terminal after updating it.  Decided with
    Terminal's update and combined read kept opaque (logged effects) and comparing their order on every path."""
    key = "O:terminal-read-after-update"
    chk.obligation(key, "ActuatorWrapper / PIDWrapper read their terminal only after update_terminals()")
    ok = True
    sim.inline_filter = lambda f: not (is_adt(f.get("impl_self") or {}, "Terminal") and
                                       ((f["name"] == "update" and (f.get("impl_trait") or "").endswith("Updatable")) or
                                        (f["name"] == "get" and "TerminalData" in ty_str_list(f))))
    try:
        for wname in ("ActuatorWrapper", "PIDWrapper"):
            fn = prog.find_fn(name="update", self_name=wname, trait="Updatable")
            leaves, dh = run_wrapper(sim, prog, fn, [dict(state=True, cmd=True)], None)
            nread = 0
            for leaf in leaves:
                chk.evaluated(1, nontrivial=(key, wname, repr(leaf.pc)))
                if leaf.kind == "unsupported":
                    chk.violation("analysis-incomplete", key + ":" + wname, "%s::update: %s" % (wname, leaf.info.get("msg")), fn=fn["pretty"])
                    ok = False
                    continue
                evs = [(i, e[2].split("::")[-1]) for i, e in enumerate(leaf.effects) if e[0] == "call" and e[2].startswith("Terminal<")]
                reads = [i for i, n in evs if n == "get"]
                upds = [i for i, n in evs if n == "update"]
                nread += len(reads)
                if reads and (not upds or min(reads) < min(upds)):
                    chk.violation("C20.O", "%s:%s" % (key, wname), "%s::update (%s) reads its terminal's combined data before update_terminals(): a value the terminal is following arrives one round late, "
                                  "so the inner object is not handed what the terminal currently sees" % (wname, loc(fn["span"])), fn=fn["pretty"], file=loc(fn["span"]))
                    ok = False
                    break
            if nread == 0:
                chk.violation("floor", "C20.terminal-reads:" + wname, "%s::update never reads its terminal (rule would be vacuous)" % wname)
                ok = False
    finally:
        sim.inline_filter = None
    if ok:
        chk.discharge(key)


def ty_str_list(f):
    from program import ty_str
    return " ".join([ty_str(a) for a in (f.get("impl_trait_args") or [])] + [f.get("pretty", "")])


def run(chk):
    prog = load_config("K1")
    chk.configs.append("K1")
    chk.rule("C20.A", "ActuatorWrapper::update effect sequence and error propagation")
    chk.rule("C20.G", "GetterStateDeviceWrapper::update effect sequence")
    chk.rule("C20.P", "PIDWrapper update order and wiring")
    chk.rule("C20.T", "terminal read tables (shared with C09)")
    chk.rule("C20.O", "the wrappers read their terminal after update_terminals() on every path")
    sim = S.Sim(prog)
    check_actuator(chk, prog, sim)
    check_getter_wrapper(chk, prog, sim)
    check_pid_wrapper(chk, prog, sim)
    check_read_after_terminal_update(chk, prog, sim)
    # what "the combined data its terminal currently sees" IS: the terminal read tables (shared with C09)
    import rules.C09 as C09
    import report as _r
    subr = _r.Check("C20", chk.tier)
    C09.check_reads(subr, prog, sim)
    chk.evaluations += subr.evaluations
    keyr = "T:terminal-combined-read"
    chk.obligation(keyr, "terminal read tables (state mean with newest time, newer command, combined) - shared with C09")
    for v in subr.violations:
        chk.violation("C20.T" if v["rule"].startswith("C09") else v["rule"], "terminal:" + v["key"], "the data the wrappers relay is read through the terminal: " + v["what"], **v["detail"])
    if not subr.violations:
        chk.discharge(keyr)
    # PIDWrapper::new wires the motor to the controller with inner.follow(pid): what follow / update_following_data do is C15's
    # table of Settable's provided methods (shared)
    import rules.C15 as C15
    subf = _r.Check("C20", chk.tier)
    C15.check_following(subf, prog, sim)
    chk.evaluations += subf.evaluations
    keyf = "F:follow-wiring"
    chk.obligation(keyf, "Settable::follow / update_following_data table (the PID wrapper drives its motor through it) - shared with C15")
    for v in subf.violations:
        chk.violation("C20.P" if v["rule"].startswith("C15") else v["rule"], "follow:" + v["key"], "the PID wrapper drives its motor by inner.follow(controller): " + v["what"], **v["detail"])
    if not subf.violations:
        chk.discharge(keyf)
    # release profile (K6 = default features, --release): debug_assert!(..) and its argument are compiled out, so a write or a
    # call moved inside one silently disappears; the same tables must hold there
    import report as _report
    _p6 = load_config("K6")
    chk.configs.append("K6")
    _sub6 = _report.Check("C20", chk.tier)
    _s6 = S.Sim(_p6)
    check_actuator(_sub6, _p6, _s6)
    check_getter_wrapper(_sub6, _p6, _s6)
    check_pid_wrapper(_sub6, _p6, _s6)
    chk.evaluations += _sub6.evaluations
    for _v in _sub6.violations:
        if _v["rule"] == "floor":
            continue
        chk.violation(_v["rule"], _v["key"] + "@K6", "[release profile] " + _v["what"], **_v["detail"])
    chk.assume("terminals do not follow getters (following = None)", "CommandPID::update is opaque inside PIDWrapper::update (its behaviour is C11's obligation)",
               "PIDWrapper wiring is checked by flow-insensitive intra-procedural provenance over new()")
    chk.extra["std_models"] = sorted(sim.stats["models_used"])
    return ("Effect-sequence extraction by abstract interpretation of each wrapper's update on an explicit terminal cell with the inner object an "
            "oracle; PIDWrapper additionally by a provenance analysis of new(). Multi-round sequence equivalence with a stand-alone CommandPID is not "
            "simulated as a whole; its per-round structural content (same clock/state/command fed, pid then motor updated) is decided.")
