"""C19: the feature configuration changes only whether units are checked, never the numbers.

  I  cfg inventory (unexpanded parse of every source file, done by the driver): every cfg that selects between pieces of
     code INSIDE an item (field, struct-literal field, statement, expression, match arm, variant, parameter) or through
     cfg_attr must sit in an audited item; a cfg-dependent piece of code anywhere else is a violation.
  E  cross-configuration equivalence through a common specification: the value-level rule tables of the other
     properties (outcome categories, provenance terms, rational functions - everything except the unit-checking clauses)
     are re-evaluated on the MIR of the other configurations (checks off; no_std + alloc + libm; no alloc + micromath).
     Every configuration equal to the same specification => equal to each other, at the abstraction of those tables
     (numeric results as real functions / uninterpreted f32 terms, timestamps, outcome categories).
  O  checks compiled out never reject: Unit has no fields, eq_assume_true is the constant true on every path,
     assert_eq_assume_ok cannot panic, eq_assume_false / assert_eq_assume_not_ok have no caller in the crate, the
     hand-written PartialEq for Quantity is exactly f32 == on the values, unit-gated setters/conversions always accept.
  N  audited numeric variants: Quantity::abs without std is a sign select on the same value (equal to |v| as f32 values),
     powf is a call to a function named powf with the arguments in order in every configuration (declared ulp exception).
"""
import importlib, re
from values import *
import program
from program import load_config, subst, ty_str, is_adt, prim, AnchorMissing, loc, units_enabled
import sim as S
import streamkit as K
import dimkit as Q
import mirwalk as W
import report

AUDITED = {
    ("dimensions.rs", "Unit"), ("dimensions.rs", "impl Unit::new"), ("dimensions.rs", "impl Unit::const_eq"),
    ("dimensions.rs", "impl Unit::eq_assume_true"), ("dimensions.rs", "impl Unit::eq_assume_false"),
    ("dimensions.rs", "impl From<PositionDerivative> for Unit::from"), ("dimensions.rs", "impl Mul for Unit::mul"),
    ("dimensions.rs", "impl Div for Unit::div"), ("dimensions.rs", "impl Quantity::abs"),
    ("dimensions.rs", "Quantity"),
    ("reference.rs", "Borrow"), ("reference.rs", "BorrowMut"), ("reference.rs", "ReferenceUnsafe"),
    ("reference.rs", "impl Deref for Borrow<'_, T>::deref"), ("reference.rs", "impl Deref for BorrowMut<'_, T>::deref"),
    ("reference.rs", "impl DerefMut for BorrowMut<'_, T>::deref_mut"), ("reference.rs", "impl ReferenceUnsafe<T>::borrow"),
    ("reference.rs", "impl ReferenceUnsafe<T>::borrow_mut"), ("reference.rs", "impl Clone for ReferenceUnsafe<T>::clone"),
    ("lib.rs", ""), ("enhanced_float.rs", ""),
}
BODY_NODES = {"field", "expr_field", "stmt", "expr", "arm", "variant", "param"}
VALUE_RULES_QUICK = ["C02", "C05", "C14", "C10", "C12", "C18"]
VALUE_RULES_ALL = ["C02", "C03", "C04", "C05", "C06", "C07", "C08", "C09", "C10", "C11", "C12", "C13", "C14", "C15", "C18", "C20"]
NO_ALLOC_SKIP = {"C05", "C12", "C20", "C16"}   # need alloc-only items (MovingAverage, PIDWrapper)


def cfg_inventory(chk, prog):
    key = "I:cfg-inventory"
    chk.obligation(key, "every intra-item cfg / cfg_attr sits in an audited item")
    ok = True
    sites = prog.facts.get("cfg_sites", [])
    n_body = 0
    for s in sites:
        base = s["file"].split("/")[-1]
        variant = s["node"] in BODY_NODES or s["attr"] == "cfg_attr"
        if s["attr"] == "macro":
            # debug_assert!/cfg!: configuration-dependent only in whether a panic happens.  What the property forbids is a
            # DIMENSION check that depends on debug_assertions instead of the dim_check features, or an explicit cfg!() switch.
            import re as _re
            unit_check = _re.search(r"eq_assume|const_eq|assert_eq_assume|\bunit\b|\bUnit\b|MILLIMETER|SECOND|DIMENSIONLESS", s["text"])
            variant = s["name"] == "cfg" or bool(unit_check)
        if not variant:
            continue
        n_body += 1
        chk.evaluated(1, nontrivial=(key, base, s["enclosing"], s["node"]))
        encl = s["enclosing"] if s["node"] not in ("field", "variant") or s["enclosing"] else s["name"]
        if s["node"] in ("item",) and s["attr"] == "cfg_attr":
            encl = s["name"]
        if (base, encl) not in AUDITED and (base, s["enclosing"]) not in AUDITED:
            chk.violation("C19.I", "cfg:%s:%s:%s" % (base, encl, s["node"]), "unaudited configuration-dependent code: %s %s in `%s` (%s:%d): %s"
                          % (s["attr"], s["node"], encl, s["file"], s["line"], s["text"][:120].replace("\n", " ")), file="%s:%d" % (s["file"], s["line"]))
            ok = False
    # same-named siblings selected by cfg (two definitions of one item)
    groups = {}
    for s in sites:
        if s["node"] in ("item", "assoc_item") and s["attr"] == "cfg" and not s["name"].startswith("impl "):
            groups.setdefault((s["file"], s["enclosing"], s["name"]), []).append(s)
    for (f, e, n), g in groups.items():
        if len(g) > 1 and (f.split("/")[-1], "") not in AUDITED and (f.split("/")[-1], e) not in AUDITED:
            chk.violation("C19.I", "cfg-sibling:%s:%s" % (f.split("/")[-1], n), "item `%s` in %s has %d cfg-selected definitions" % (n, f, len(g)))
            ok = False
    chk.extra["cfg_sites"] = len(sites)
    chk.extra["cfg_variant_sites"] = n_body
    if len(sites) < 100 or n_body < 50:
        chk.violation("floor", "C19.cfg-sites", "cfg inventory too small (%d sites, %d intra-item): parse incomplete?" % (len(sites), n_body))
        ok = False
    if ok:
        chk.discharge(key)


def run_rules_under(chk, cfg, rules):
    """Evaluate other properties' value-level tables on configuration cfg."""
    program.ALIAS = {"K1": cfg}
    try:
        for rid in rules:
            key = "E:%s@%s" % (rid, cfg)
            chk.obligation(key, "rule tables of %s hold on configuration %s" % (rid, cfg))
            sub = report.Check(rid, chk.tier)
            try:
                mod = importlib.import_module("rules." + rid)
                mod.run(sub)
            except AnchorMissing as e:
                sub.violation("anchor-missing", str(e), "item missing in %s: %s" % (cfg, e))
            bad = False
            for v in sub.violations:
                if v["rule"] == "floor":
                    continue   # obligation counts differ legitimately between feature sets
                bad = True
                chk.violation("C19.E", "%s@%s:%s:%s" % (rid, cfg, v["rule"], v["key"]), "configuration %s deviates from the common specification (%s): %s" % (cfg, v["rule"], v["what"]), **v["detail"])
            chk.evaluations += sub.evaluations
            chk.nontrivial |= {("cfg", cfg) + (x if isinstance(x, tuple) else (x,)) for x in list(sub.nontrivial)[:4000]}
            chk.functions |= sub.functions
            if not bad:
                chk.discharge(key)
    finally:
        program.ALIAS = {}


def assume_false_callers(chk, prog, key="O"):
    ok = True
    for fn, body, tag in W.iter_bodies(prog):
        for bi, t, fnj, res in W.calls_in(body):
            tgt = res["fn"] if res else fnj
            if tgt["name"] in ("eq_assume_false", "assert_eq_assume_not_ok") and fn["name"] not in ("assert_eq_assume_not_ok",):
                chk.evaluated(1, nontrivial=(key, "caller", fn["pretty"]))
                chk.violation("C19.O", "%s:assume-false-caller:%s" % (key, fn["pretty"]), "%s (%s) calls %s: with checks compiled out this rejects/panics on every input"
                              % (fn["pretty"], loc(t.get("span")), tgt["name"]), fn=fn["pretty"], file=loc(t.get("span")))
                ok = False
    return ok


def checks_off(chk, cfg):
    prog = load_config(cfg)
    chk.configs.append(cfg)
    key = "O:checks-off@" + cfg
    chk.obligation(key, "with checking compiled out nothing is ever rejected (%s)" % cfg)
    ok = True
    if units_enabled(prog):
        chk.violation("C19.O", key + ":unit-fields", "configuration %s is expected to compile dimension checking out but Unit still has fields" % cfg)
        return
    sim = S.Sim(prog)
    ua = Struct(Q.unit_ty(prog), ())

    def inh(name):
        fs = [f for f in prog.find_fns(name=name, self_name="Unit") if not f.get("impl_trait")]
        return fs[0] if len(fs) == 1 else None
    f = inh("eq_assume_true")
    if f is None:
        raise AnchorMissing("Unit::eq_assume_true")
    st = S.State()
    g = sim.identity_gargs(f)
    ls = sim.run(f, g, [sim.make_arg(st, "a", subst(f["sig_inputs"][0], g)), sim.make_arg(st, "b", subst(f["sig_inputs"][1], g))], st)
    chk.evaluated(len(ls), nontrivial=(key, "eq_assume_true"))
    if not (len(ls) == 1 and ls[0].kind == "return" and sim.resolve(ls[0].state, ls[0].value) == Const(True, prim("bool"))):
        chk.violation("C19.O", key + ":eq_assume_true", "with checks off Unit::eq_assume_true is not the constant true: %s" % [(l.kind, l.value) for l in ls], fn=f["pretty"], file=loc(f["span"]))
        ok = False
    f = inh("assert_eq_assume_ok")
    st = S.State()
    g = sim.identity_gargs(f)
    ls = sim.run(f, g, [sim.make_arg(st, "a", subst(f["sig_inputs"][0], g)), sim.make_arg(st, "b", subst(f["sig_inputs"][1], g))], st)
    chk.evaluated(len(ls), nontrivial=(key, "assert_eq_assume_ok"))
    if any(l.kind != "return" for l in ls):
        chk.violation("C19.O", key + ":assert_eq_assume_ok", "with checks off Unit::assert_eq_assume_ok can panic", fn=f["pretty"], file=loc(f["span"]))
        ok = False
    # conversions whose RESULT depends on the unit (which kind of Command / PositionDerivative a quantity or unit denotes) cannot be
    # right once the unit is erased: they must not exist in a checks-off build (today they are cfg-gated); if one appears, a
    # well-dimensioned program gets a different value than in the checking build (mm/s -> Velocity there, whatever arm wins here)
    for tgt, src in (("Command", "Quantity"), ("PositionDerivative", "Unit")):
        f = Q.find_try_from(prog, tgt, src)
        chk.evaluated(1, nontrivial=(key, "unit-discriminating", tgt, src))
        if f is not None:
            chk.violation("C19.O", "%s:unit-discriminating-conversion:%s<-%s" % (key, tgt, src), "[%s] %s (%s) exists although units are compiled out: which %s a %s denotes is decided by its unit, so the result cannot equal "
                          "the checking build's for every well-dimensioned input" % (cfg, f["pretty"], loc(f["span"]), tgt, src), fn=f["pretty"], file=loc(f["span"]))
            ok = False
    # no caller of the 'assume false' family
    if not assume_false_callers(chk, prog, key):
        ok = False
    # hand-written PartialEq for Quantity == f32 equality of the values
    fe = prog.find_fns(name="eq", self_name="Quantity", trait="PartialEq")
    if len(fe) != 1:
        raise AnchorMissing("PartialEq for Quantity in " + cfg)
    fe = fe[0]
    st = S.State()
    g = sim.identity_gargs(fe)
    ls = sim.run(fe, g, [sim.make_arg(st, "a", subst(fe["sig_inputs"][0], g)), sim.make_arg(st, "b", subst(fe["sig_inputs"][1], g))], st)
    for l in ls:
        chk.evaluated(1, nontrivial=(key, "Quantity::eq", repr(l.pc)))
        good = False
        if l.kind == "return":
            r = sim.resolve(l.state, l.value)
            fre = [p for p in l.pc if p[0] == "frel" and p[1] in ("a.value ? b.value", "b.value ? a.value")]
            good = isinstance(r, Const) and len(fre) == 1 and r.val == (fre[0][2] == "=")
        if not good:
            chk.violation("C19.O" if l.kind != "unsupported" else "analysis-incomplete", key + ":Quantity-eq",
                          "with checks off, Quantity == Quantity is not the f32 equality of the values (%s %s, path %s)" % (l.kind, l.info.get("msg") if l.kind != "return" else l.value, l.pc),
                          fn=fe["pretty"], file=loc(fe["span"]))
            ok = False
    if ok:
        chk.discharge(key)


def numeric_variants(chk, cfg):
    prog = load_config(cfg)
    sim = S.Sim(prog)
    key = "N:numeric-variants@" + cfg
    chk.obligation(key, "abs / powf variants in " + cfg)
    ok = True
    fa = [f for f in prog.find_fns(name="abs", self_name="Quantity") if not f.get("impl_trait")]
    if len(fa) != 1:
        raise AnchorMissing("Quantity::abs")
    for leaf in Q.run_simple(sim, fa[0], [Sym("a", Q.quantity_ty(prog))]):
        chk.evaluated(1, nontrivial=(key, "abs", repr(leaf.pc)))
        r = sim.final_value(leaf.state, leaf.value) if leaf.kind == "return" else None
        v = r.fields[0] if isinstance(r, Struct) and r.fields else None
        fre = [p for p in leaf.pc if p[0] == "frel"]
        good = v == Term("abs", (Sym("a.value"),))
        if not good and fre:
            # sign select: (>= 0 -> v) / (else -> -v); equal to |v| as f32 values (only the sign of zero / NaN payload may differ)
            rel = fre[0][2]
            lhs = fre[0][1].split(" ? ")[0]
            nonneg = (lhs == "a.value" and set(rel) <= set("=>")) or (lhs != "a.value" and set(rel) <= set("=<"))
            good = (nonneg and v == Sym("a.value")) or ((not nonneg) and v == Term("Neg", (Sym("a.value"),)))
        if not good:
            chk.violation("C19.N", key + ":abs", "Quantity::abs in %s returns %r on path %s" % (cfg, v, leaf.pc), fn=fa[0]["pretty"], file=loc(fa[0]["span"]))
            ok = False
    pw = [f for f in prog.by_name.get("powf", []) if f["kind"] == "Fn"]
    for f in pw:
        ls = Q.run_simple(sim, f, [Sym("x", prim("f32")), Sym("y", prim("f32"))])
        chk.evaluated(len(ls), nontrivial=(key, "powf"))
        r = sim.resolve(ls[0].state, ls[0].value) if len(ls) == 1 and ls[0].kind == "return" else None
        if r != Term("powf", (Sym("x"), Sym("y"))):
            chk.violation("C19.N", key + ":powf", "powf wrapper in %s computes %r, expected powf(x, y)" % (cfg, r), fn=f["pretty"], file=loc(f["span"]))
            ok = False
    # every call site of a power function passes (base, exponent) of the EWMA/exponent formulas: covered by E (C12, C02)
    if ok:
        chk.discharge(key)


def run(chk):
    chk.rule("C19.I", "cfg inventory: intra-item cfg only in audited items")
    chk.rule("C19.E", "every configuration satisfies the same value-level specification tables")
    chk.rule("C19.O", "checks compiled out never reject")
    chk.rule("C19.N", "audited numeric variants (abs select, powf providers)")
    prog = load_config("K1")
    chk.configs.append("K1")
    cfg_inventory(chk, prog)
    quick = chk.tier == "quick"
    rules = VALUE_RULES_QUICK if quick else VALUE_RULES_ALL
    # the reference configuration itself: "equal results with checking in and out" is established through the common
    # specification, so the checking configuration must satisfy it too (a dimensionally correct program that panics with
    # checking compiled in, or a named constant with the wrong exponents, breaks the equality from this side)
    run_rules_under(chk, "K1", (VALUE_RULES_QUICK if quick else []) + ["C01"])
    run_rules_under(chk, "K4", rules)
    chk.configs.append("K4")
    checks_off(chk, "K4")
    # the default-feature debug build (checking in) and release build (checking out) must accept the same moves: the motion
    # profile's feasibility assertions may not be debug-only
    import rules.C06 as C06
    p6 = load_config("K6")
    if "K6" not in chk.configs:
        chk.configs.append("K6")
    key6 = "E:C06.ctor@K6"
    chk.obligation(key6, "MotionProfile::new asserts feasibility in the release profile too")
    sub6 = report.Check("C06", chk.tier)
    C06.check_constructor(sub6, p6, S.Sim(p6))
    chk.evaluations += sub6.evaluations
    for v in sub6.violations:
        chk.violation("C19.E", "C06@K6:%s:%s" % (v["rule"], v["key"]), "default-feature release build deviates from the common specification (%s): %s" % (v["rule"], v["what"]), **v["detail"])
    if not sub6.violations:
        chk.discharge(key6)
    C06.check_constructor(report.Check("C06", chk.tier), load_config("K1"), S.Sim(load_config("K1")))   # restore module state learnt from K1
    # the same program must work with std and with no_std + alloc: the one public macro whose expansion is selected by rrtk's features
    # (to_dyn!) is analysed in a downstream crate against both builds (table shared with C17.D)
    import rules.C17 as C17
    keyd = "E:to_dyn@std-vs-alloc"
    chk.obligation(keyd, "to_dyn! converts the same variants in the std build and in the no_std + alloc build")
    subd = report.Check("C17", chk.tier)
    C17.to_dyn_expansion(subd, load_config("K1"), load_config("K2"))
    chk.evaluations += subd.evaluations
    for v in subd.violations:
        if v["rule"] == "floor":
            continue
        chk.violation("C19.E", "C17.D:" + v["key"], "a program using to_dyn! behaves differently across feature configurations: " + v["what"], **v["detail"])
    if not [v for v in subd.violations if v["rule"] != "floor"]:
        chk.discharge(keyd)
    numeric_variants(chk, "K1")
    numeric_variants(chk, "K2")
    chk.configs.append("K2")
    numeric_variants(chk, "K3")
    if not quick:
        run_rules_under(chk, "K2", VALUE_RULES_ALL + ["C01"])
        run_rules_under(chk, "K3", [r for r in VALUE_RULES_ALL if r not in NO_ALLOC_SKIP and r not in ("C08", "C13", "C09", "C03")] )
        chk.configs.append("K3")
        checks_off(chk, "K3")
        checks_off(chk, "K5")
        p6 = load_config("K6")
        chk.configs.append("K6")
        chk.obligation("O:release-profile", "dim_check_debug without debug_assertions compiles checking out")
        if not units_enabled(p6):
            chk.discharge("O:release-profile")
        else:
            chk.violation("C19.O", "release-profile", "release build with dim_check_debug still has unit fields")
    import selftest
    selftest.expect(chk, "C19", cfg_inventory, "C19.I", "a cfg-selected statement inside an unaudited function", "cfg_in_body")
    selftest.expect(chk, "C19", assume_false_callers, "C19.O", "a caller of eq_assume_false", "uses_assume_false")
    chk.assume("equivalence is established at the abstraction of the rule tables (outcome categories, provenance terms, rational functions); bitwise equality of f32 traces is not decided",
               "powf accuracy across std / libm / micromath is the declared exception", "K6 (release) is only checked for the dimension-check switch")
    return ("Configuration independence decided through a common specification: the value-level tables of the other properties are re-evaluated on the MIR of each "
            "configuration; a driver-side cfg inventory over the unexpanded sources pins where configuration-dependent code may live; checks-off configurations are "
            "shown unable to reject.")
