"""C18: Time / DimensionlessInteger arithmetic is exact i64 arithmetic; conversion shapes; mixed operators delegate.

Decides (structure, for all values): every integer operator impl computes the i64 operator on the inner values in operand
order; From<i64> both ways is the identity; Time<->Quantity and DimensionlessInteger<->Quantity conversions have the
shapes `ns as f32 / 1e9` / `(s * 1e9) as i64` / `n as f32` / `x as i64`, gated on the unit being SECOND / DIMENSIONLESS
(every other unit -> Err); every mixed operator yielding a Quantity equals the Quantity operator applied after
converting the non-Quantity operands (outcome sets incl. panics compared); the three implementation tables of the
module documentation agree with the impl table of the type-checked crate.
Not decided: the ulp / monotonicity / round-trip bounds (they follow from the two shapes by a standard argument).
"""
import re, os, itertools
from values import *
from program import load_config, subst, ty_str, is_adt, prim, AnchorMissing, loc, REPO
import sim as S
import streamkit as K
import dimkit as Q
import rules.C01 as C01

INT_TYPES = ("Time", "DimensionlessInteger")
IOP = {"Add": "add", "Sub": "sub", "Mul": "mul", "Div": "div", "Neg": "neg"}


def inner(name):
    return Sym(name + ".0")


def units_debug_profile(prog):
    """overflow checks (and therefore the recorded footprint) exist only in profiles with debug assertions"""
    return "debug_assertions" in prog.facts.get("cfg", [])


def check_int_ops(chk, prog, sim):
    n = 0
    for imp, tr, fn in Q.ops_impls(prog, INT_TYPES):
        if is_adt(fn["sig_output"], "Quantity"):
            continue
        rhs = imp["trait_args"][1] if len(imp["trait_args"]) > 1 else imp["self"]
        if ty_str(rhs) == "Quantity":
            continue
        n += 1
        key = "int-op:" + imp["trait_ref"]
        chk.obligation(key, "exact i64 arithmetic of " + imp["trait_ref"])
        chk.analysed(fn["pretty"])
        st = S.State()
        gargs = sim.identity_gargs(fn)
        unary = tr == "Neg"
        a0 = sim.make_arg(st, "a", subst(fn["sig_inputs"][0], gargs))
        args = [a0] + ([] if unary else [sim.make_arg(st, "b", subst(fn["sig_inputs"][1], gargs))])
        leaves = sim.run(fn, gargs, args, st)
        base = Q.BASE[tr]
        a, b = inner("a"), inner("b")
        exp = {"Add": int_add(a, b), "Sub": int_sub(a, b), "Mul": int_mul(a, b), "Div": Term("IDiv", (a, b)), "Neg": int_neg(a)}[base]
        ok = len([l for l in leaves if l.kind == 'return']) >= 1
        for leaf in leaves:
            chk.evaluated(1, nontrivial=(key,))
            if leaf.kind == "panic" and leaf.info.get("kind") in ("assert:DivisionByZero", "assert:OverflowNeg", "assert:RemainderByZero") or \
                    (leaf.kind == "panic" and str(leaf.info.get("kind")).startswith("assert:Overflow")):
                continue   # i64 arithmetic exceptions (division by zero, debug overflow) are part of exact i64 semantics; overflow is not decided
            if leaf.kind != "return":
                chk.violation("analysis-incomplete" if leaf.kind == "unsupported" else "C18.int-op", key, "%s: %s %s" % (imp["trait_ref"], leaf.kind, leaf.info.get("msg")))
                ok = False
                continue
            res = sim.final_value(leaf.state, leaf.state.mem[a0.ptr.obj] if tr in Q.OPSA else leaf.value)
            got = res.fields[0] if isinstance(res, Struct) and len(res.fields) == 1 else None
            out_ty = res.ty["name"] if isinstance(res, Struct) and res.ty else None
            want_ty = "Time" if "Time" in (imp["self"]["name"], ty_str(rhs)) else "DimensionlessInteger"
            if got != exp or out_ty != want_ty:
                chk.violation("C18.int-op", key, "%s computes %s(%r), expected %s(%r)" % (imp["trait_ref"], out_ty, got, want_ty, exp), fn=fn["pretty"], file=loc(fn["span"]))
                ok = False
            # "exact i64 arithmetic" includes WHERE it overflows: the only overflow-capable step may be the operator itself on the two
            # operands (t - u written as t + (-u) panics for u = i64::MIN although t - u is representable)
            foot = [tuple(x) for x in leaf.state.arith]
            want_foot = {"Add": [("Add", repr(a), repr(b))], "Sub": [("Sub", repr(a), repr(b))], "Mul": [("Mul", repr(a), repr(b))], "Neg": [("Neg", repr(a), "")]}.get(base)
            if want_foot is not None and units_debug_profile(prog) and foot != want_foot:
                chk.violation("C18.int-op", key + ":overflow-footprint", "%s reaches its result through overflow-capable steps %s instead of the single i64 operation %s: it panics (debug) or wraps differently for operands where the plain operator is exact"
                              % (imp["trait_ref"], foot, want_foot), fn=fn["pretty"], file=loc(fn["span"]))
                ok = False
            chk.sample({"impl": imp["trait_ref"], "result": repr(res)}, cap=6)
        if ok:
            chk.discharge(key)
    if n < 19:
        chk.violation("floor", "C18.int-ops", "expected >= 19 integer operator impls on Time/DimensionlessInteger, found %d" % n)
    return n


def check_conversions(chk, prog, sim, tag=""):
    key = "conv:shapes" + tag
    chk.obligation(key, "conversion shapes and unit gates")
    ok = True
    qty = Q.quantity_ty(prog)
    for tname, unit, scaled in (("Time", (0, 1), True), ("DimensionlessInteger", (0, 0), False)):
        a = prog.adt_by_name(tname)
        tty = {"k": "adt", "did": a["did"], "name": tname, "args": []}
        # i64 <-> T identity
        for f, arg, want in ((Q.find_from(prog, tname, "i64"), Sym("n", prim("i64")), lambda r: isinstance(r, Struct) and r.fields == (Sym("n"),)),
                             (Q.find_from(prog, "i64", tname), Sym("t", tty), lambda r: r == Sym("t.0"))):
            ls = Q.run_simple(sim, f, [arg])
            chk.evaluated(1, nontrivial=(key, f["pretty"]))
            r = sim.final_value(ls[0].state, ls[0].value) if len(ls) == 1 and ls[0].kind == "return" else None
            if not want(r):
                chk.violation("C18.conversion", "i64:" + f["pretty"], "%s is not the identity on the inner i64: %r" % (f["pretty"], r), fn=f["pretty"], file=loc(f["span"]))
                ok = False
        # T -> Quantity
        f = Q.find_from(prog, "Quantity", tname)
        chk.analysed(f["pretty"])
        ls = Q.run_simple(sim, f, [Sym("t", tty)])
        chk.evaluated(1, nontrivial=(key, f["pretty"]))
        r = sim.final_value(ls[0].state, ls[0].value) if len(ls) == 1 and ls[0].kind == "return" else None
        cast = Term("Cast:IntToFloat", (Sym("t.0"),))
        expv = Term("Div", (cast, Const(1e9, prim("f32")))) if scaled else cast
        ex = Q.unit_exps(sim, ls[0].state, r.fields[1]) if isinstance(r, Struct) and len(r.fields) == 2 else None
        gotu = tuple(getattr(e, "val", None) for e in ex) if ex else None
        from program import units_enabled
        if not units_enabled(prog):
            gotu = unit
        if not (isinstance(r, Struct) and r.fields[0] == expv and gotu == unit):
            chk.violation("C18.conversion", "Quantity::from(%s)" % tname, "Quantity::from(%s) = %r, expected value %r with unit %s" % (tname, r, expv, unit), fn=f["pretty"], file=loc(f["span"]))
            ok = False
        # Quantity -> T over the grid
        tf = Q.find_try_from(prog, tname, "Quantity")
        if tf is None:
            raise AnchorMissing("TryFrom<Quantity> for " + tname)
        chk.analysed(tf["pretty"])
        for (m, s) in itertools.product(range(-3, 4), repeat=2):
            q = Struct(qty, (Sym("x", prim("f32")), Q.unit_value(sim, prog, m, s)))
            ls = Q.run_simple(sim, tf, [q])
            chk.evaluated(1, nontrivial=(key, tname, m, s))
            r = sim.final_value(ls[0].state, ls[0].value) if len(ls) == 1 and ls[0].kind == "return" else None
            from program import units_enabled
            if (m, s) == unit or not units_enabled(prog):
                inner_exp = Term("Cast:FloatToInt", (Term("Mul", (Sym("x"), Const(1e9, prim("f32")))),)) if scaled else Term("Cast:FloatToInt", (Sym("x"),))
                good = isinstance(r, Enum) and r.vname == "Ok" and isinstance(r.fields[0], Struct) and r.fields[0].fields == (inner_exp,)
            else:
                good = isinstance(r, Enum) and r.vname == "Err"
            if not good:
                chk.violation("C18.conversion", "%s::try_from(%d,%d)" % (tname, m, s), "%s::try_from(Quantity(x, Unit(%d,%d))) = %r" % (tname, m, s, r), fn=tf["pretty"], file=loc(tf["span"]))
                ok = False
    if ok:
        chk.discharge(key)


OPSYM = {"*": "Mul", "/": "Div", "*=": "MulAssign", "/=": "DivAssign", "+": "Add", "-": "Sub", "+=": "AddAssign", "-=": "SubAssign"}


def parse_doc_tables(path):
    lines = [l[3:].rstrip("\n") for l in open(path) if l.startswith("//!")]
    tables, cur = [], None
    for l in lines:
        if l.startswith("|"):
            cells = [c.strip() for c in l.strip().strip("|").split("|")]
            if cur is None:
                cur = [cells]
            else:
                cur.append(cells)
        else:
            if cur:
                tables.append(cur)
            cur = None
    if cur:
        tables.append(cur)
    out = []
    for t in tables:
        header = [re.sub(r"[\[\]`*]", "", c) for c in t[0]]
        rows = [r for r in t[1:] if not set("".join(r)) <= set("-: ")]
        cells = {}
        for r in rows:
            rname = re.sub(r"[\[\]`*]", "", r[0])
            for j, c in enumerate(r[1:], start=1):
                cells[(header[j], rname)] = c
        out.append(cells)
    return out


def check_doc_tables(chk, prog):
    key = "docs:implementation-tables"
    chk.obligation(key, "module documentation tables agree with the impl table")
    path = os.path.join(REPO, "src", "dimensions.rs")
    tables = parse_doc_tables(path)
    if len(tables) < 3:
        raise AnchorMissing("three implementation tables in the module documentation of dimensions.rs")
    ok = True
    T3 = ("Quantity", "DimensionlessInteger", "Time")
    impls = {}
    for imp, tr, fn in Q.ops_impls(prog, T3):
        rhs = imp["trait_args"][1] if len(imp["trait_args"]) > 1 else imp["self"]
        if tr == "Neg" or ty_str(rhs) not in T3:
            continue
        impls.setdefault((imp["self"]["name"], ty_str(rhs)), set()).add(tr)
    documented = {}
    for cells in tables[:2]:
        for (a, b), c in cells.items():
            if a not in T3 or b not in T3:
                continue
            ops = re.findall(r"`([^`]+)`", c)
            for o in ops:
                if o in OPSYM:
                    documented.setdefault((a, b), set()).add(OPSYM[o])
    for pair in sorted(set(impls) | set(documented)):
        chk.evaluated(1, nontrivial=(key, pair))
        if impls.get(pair, set()) != documented.get(pair, set()):
            chk.violation("C18.docs", "ops:%s,%s" % pair, "operators with A=%s, B=%s: documented %s, implemented %s" % (pair[0], pair[1], sorted(documented.get(pair, set())), sorted(impls.get(pair, set()))))
            ok = False
    # conversion table: A::from(B)
    conv_doc = {}
    for (a, b), c in tables[2].items():
        c2 = re.sub(r"[`\[\]]", "", c)
        if c2 in ("From", "TryFrom"):
            conv_doc[(a, b)] = c2
    conv_impl = {}
    names = ("Quantity", "DimensionlessInteger", "Time", "i64", "f32")
    for imp in prog.impls:
        tr = imp.get("trait", "").split("::")[-1]
        if tr in ("From", "TryFrom") and ty_str(imp["self"]) in names and ty_str(imp["trait_args"][1]) in names:
            conv_impl[(ty_str(imp["self"]), ty_str(imp["trait_args"][1]))] = tr
    for pair in sorted(set(conv_doc) | set(conv_impl)):
        chk.evaluated(1, nontrivial=(key, "conv", pair))
        if conv_doc.get(pair) != conv_impl.get(pair):
            chk.violation("C18.docs", "conv:%s,%s" % pair, "conversion A=%s from B=%s: documented %s, implemented %s" % (pair[0], pair[1], conv_doc.get(pair), conv_impl.get(pair)))
            ok = False
    if len(documented) < 7 or len(conv_doc) < 8:
        chk.violation("floor", "C18.docs", "documentation tables parsed too few cells (%d operator cells, %d conversion cells)" % (len(documented), len(conv_doc)))
        ok = False
    if ok:
        chk.discharge(key)


def run(chk):
    prog = load_config("K1")
    chk.configs.append("K1")
    chk.rule("C18.int-op", "integer operator impls compute the i64 operator on the inner values in operand order, with the documented result type")
    chk.rule("C18.conversion", "conversion shapes (ns as f32 / 1e9, (s*1e9) as i64, identity for i64) and unit gates over the 7x7 grid")
    chk.rule("C18.delegation", "mixed operators == Quantity operator after conversion (shared with C01)")
    chk.rule("C18.docs", "documentation implementation tables == impl table")
    sim = S.Sim(prog)
    n = check_int_ops(chk, prog, sim)
    check_conversions(chk, prog, sim)
    # the conversions must also succeed on seconds when dimension checking is compiled out (K4): a gate written with the
    # assume-false family is invisible in K1 and rejects everything there
    p4 = load_config("K4")
    chk.configs.append("K4")
    before = len(chk.violations)
    s4 = S.Sim(p4)
    check_conversions(chk, p4, s4, "@K4")
    for v in chk.violations[before:]:
        v["key"] += "@K4"
        v["what"] = "[dimension checking compiled out] " + v["what"]
    # "conversion of any other unit fails" also in the release profile with dim_check_release (K7)
    p7 = load_config("K7")
    chk.configs.append("K7")
    before = len(chk.violations)
    check_conversions(chk, p7, S.Sim(p7), "@K7")
    for v in chk.violations[before:]:
        v["key"] += "@K7"
        v["what"] = "[release profile with dim_check_release] " + v["what"]
    nm = 0
    for imp, tr, fn in Q.ops_impls(prog):
        sname = imp["self"]["name"]
        rhs = imp["trait_args"][1] if len(imp["trait_args"]) > 1 else imp["self"]
        if sname == "Unit" or (sname == "Quantity" and ty_str(rhs) == "Quantity"):
            continue
        if "Quantity" in (sname, ty_str(rhs)) or is_adt(fn["sig_output"], "Quantity"):
            before = len(chk.violations)
            C01.check_mixed(chk, prog, sim, imp, tr, fn)
            for v in chk.violations[before:]:
                if v["rule"] == "C01.delegation":
                    v["rule"] = "C18.delegation"
            nm += 1
    if nm < 27:
        chk.violation("floor", "C18.mixed", "expected >= 27 mixed operator impls, found %d" % nm)
    check_doc_tables(chk, prog)
    chk.extra.update({"int_ops": n, "mixed_ops": nm})
    import witness
    if chk.tier == "thorough":
        witness.check(chk, "typelevel", "C18", "C18.docs")
    chk.assume("integer overflow/wrapping not modelled", "f32 rounding of the casts is NOT decided: ulp, monotonicity and round-trip bounds are not claimed")
    chk.extra["std_models"] = sorted(sim.stats["models_used"])
    return ("Value-graph extraction by abstract interpretation: integer operator impls, conversion functions and mixed operators are reduced to "
            "provenance terms and compared with the documented shapes; documentation tables parsed and compared with the compiler's impl table. "
            "The numeric bounds (2 ulp, monotone, round trip within |t|*2^-22 + 1 ns) quantify over f32 rounding and are not decided; the shapes "
            "they follow from are.")
