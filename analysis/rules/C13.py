"""C13: one-degree-of-freedom devices relay the newest command to every terminal, scaled; differentials never do.

For Invert, GearTrain and Axle<N> (N = 1..3 quick, 1..4 thorough) every presence pattern of commands at the terminals
(own slots; one partnered configuration per device) is abstractly interpreted with symbolic timestamps (orders forked on
demand) on an explicit heap of terminal cells.  After update(), the command READ at every device terminal (the terminal
read function interpreted on the post-state) must be the newest command present before the update, with the issuer's
timestamp and kind, and its value mapped from the issuing side to the reading side (negated / multiplied / divided by
the ratio / unchanged).  Differential::update must leave every command slot untouched.
"""
import itertools
from values import *
from program import load_config, subst, ty_str, is_adt, prim, AnchorMissing, loc
import sim as S
import streamkit as K
import devkit as D
import devrules as R
from rules.C03 import rel_allowed

KINDS = ["Position", "Velocity", "Acceleration"]


def mapped(dev, i, j, payload):
    """Expected payload term at terminal j for a command issued at terminal i with raw payload term `payload`."""
    if dev == "Axle" or i == j:
        return payload
    if dev == "Invert":
        return Term("Neg", (payload,))
    if dev == "GearTrain":
        r = Sym("self.ratio")
        return Term("Mul", (payload, r)) if (i, j) == (0, 1) else Term("Div", (payload, r))
    raise KeyError(dev)


def check_device(chk, prog, sim, dev, n):
    nt = n if dev == "Axle" else R.NTERMS[dev]
    tag = "%s%s" % (dev, "<N=%d>" % n if dev == "Axle" else "")
    key = "relay:" + tag
    chk.obligation(key, "command relay of " + tag)
    ok = True
    configs = []
    for pat in itertools.product((False, True), repeat=nt):
        configs.append([dict(cmd=p) for p in pat])
    # one partnered configuration: terminal 0 linked to an external terminal that holds a command
    configs.append([dict(cmd=(i == nt - 1), partner=(dict(cmd=True) if i == 0 else None)) for i in range(nt)])
    # commands together with states (the state half must not interfere)
    configs.append([dict(cmd=(i == 0), state=True) for i in range(nt)])
    for conf in configs:
        fn, leaves, dh, pre = R.run_update(sim, prog, dev, conf, n)
        chk.analysed(fn["pretty"])
        case = "%s cmds=%s" % (tag, ["%s%s%s" % ("c" if c.get("cmd") else "-", "s" if c.get("state") else "", "+p" if c.get("partner") else "") for c in conf])
        for leaf in leaves:
            chk.evaluated(1, nontrivial=(key, case, repr(leaf.pc)))
            if leaf.kind != "return":
                chk.violation("analysis-incomplete" if leaf.kind == "unsupported" else "C13.relay", key + ":" + leaf.kind,
                              "%s update: %s %s (%s)" % (case, leaf.kind, leaf.info.get("msg"), K.leaf_site(leaf)), fn=fn["pretty"])
                ok = False
                continue
            ret = sim.final_value(leaf.state, leaf.value)
            if not (isinstance(ret, Enum) and ret.vname == "Ok"):
                continue   # error paths of Settable::set on terminals cannot occur (impl_set is infallible) - they are not generated
            # candidates before the update
            cands = []   # (issuer terminal, time sym, value prefix)
            for i, c in enumerate(conf):
                for (t, pref) in R.read_expectation(c, i, "cmd"):
                    cands.append((i, t, pref))
            for j in range(nt):
                for rl in D.read_after(sim, prog, leaf, dh.cell_ptr(j), "Command"):
                    chk.evaluated(1)
                    if rl.kind != "return":
                        chk.violation("analysis-incomplete", key, "terminal read after update failed: %s" % rl.info.get("msg"))
                        ok = False
                        continue
                    g = K.classify_output(sim, rl.state, rl.value)
                    if not cands:
                        if g != ("N",):
                            chk.violation("C13.relay", key + ":spurious", "%s: terminal %d reads a command %r although none was present" % (case, j, g), fn=fn["pretty"], file=loc(fn["span"]))
                            ok = False
                        continue
                    good = False
                    why = "reads %r" % (g,)
                    if g and g[0] == "S" and K.no_candidate_newer(sim, rl.state, g[1], [t for _, t, _ in cands]):
                        val = D.exact_norm(g[2])
                        if isinstance(val, Sym):
                            good = any(g[1] == t and val == Sym(pref) and mapped(dev, i, j, val) == val for (i, t, pref) in cands)
                            if not good:
                                why = "reads %r: not the issuing command" % (g,)
                        if isinstance(val, Enum):
                            for (i, t, pref) in cands:
                                if g[1] != t:
                                    continue
                                payload = Sym("%s.%s.0" % (pref, val.vname))
                                if val.fields and val.fields[0] == mapped(dev, i, j, payload):
                                    good = True
                            if not good:
                                why = "reads %r: value/kind is not the issuing command mapped to this side" % (g,)
                    elif g and g[0] == "S":
                        why = "reads %r: an older command than the newest present" % (g,)
                    if not good:
                        chk.violation("C13.relay", "%s:terminal%d" % (key, j), "%s on path %s: after update terminal %d %s; expected the newest of %s mapped to this side"
                                      % (case, [p for p in rl.state.pc if p[0] == "rel"], j, why, [(i, repr(t)) for i, t, _ in cands]), fn=fn["pretty"], file=loc(fn["span"]))
                        ok = False
            if len(chk.samples) < 6:
                chk.sample({"device": tag, "config": case, "path": [list(p) for p in leaf.pc if p[0] == "rel"][:3]})
    if ok:
        chk.discharge(key)


def check_differential(chk, prog, sim):
    key = "differential:no-command-relay"
    chk.obligation(key, "Differential::update never alters commands")
    ok = True
    for mode in ("Side1", "Side2", "Sum", "Equal"):
        conf = [dict(cmd=True, state=True) for _ in range(3)]
        fn, leaves, dh, pre = R.run_update(sim, prog, "Differential", conf, None, mode)
        chk.analysed(fn["pretty"])
        for leaf in leaves:
            chk.evaluated(1, nontrivial=(key, mode, repr(leaf.pc)))
            if leaf.kind != "return":
                chk.violation("analysis-incomplete" if leaf.kind == "unsupported" else "C13.differential", key + ":" + leaf.kind, "Differential::update (%s): %s %s" % (mode, leaf.kind, leaf.info.get("msg")))
                ok = False
                continue
            for j in range(3):
                a, b = dh.own_slot(leaf.state, j, "cmd"), dh.own_slot(pre, j, "cmd")
                if a != sim.final_value(leaf.state, b):
                    chk.violation("C13.differential", key + ":" + mode, "Differential::update (distrust %s) changes the command slot of terminal %d to %r" % (mode, j, a), fn=fn["pretty"], file=loc(fn["span"]))
                    ok = False
    # who-may-call: no resolved call to Settable<Datum<Command>>::set reachable directly in the body
    import mirwalk as W
    fn = R.update_fn(prog, "Differential")
    for bi, t, fnj, res in W.calls_in(fn["body"]):
        tgt = res["fn"] if res else fnj
        if tgt["name"] == "set" and "Command" in repr(tgt.get("args")):
            chk.violation("C13.differential", key + ":call", "Differential::update calls Settable<Datum<Command>>::set", fn=fn["pretty"], file=loc(t.get("span")))
            ok = False
    if ok:
        chk.discharge(key)


def check_update_terminals_first(chk, prog, sim):
    """A command may reach a device terminal through a getter the terminal follows; it is stored only by Terminal::update
    (update_terminals).  The device must therefore refresh its terminals before it reads them, or the newest command is relayed one
    round late (and never reaches a chain updated in order).  Decided with Terminal::update and the terminal reads kept opaque."""
    key = "relay:update_terminals-first"
    chk.obligation(key, "every device update refreshes its terminals before reading them")
    ok = True
    sim.inline_filter = lambda f: not (is_adt(f.get("impl_self") or {}, "Terminal") and
                                       ((f["name"] == "update" and (f.get("impl_trait") or "").endswith("Updatable")) or
                                        (f["name"] == "get" and (f.get("impl_trait") or "").endswith("Getter"))))
    try:
        for dev, n in (("Invert", None), ("GearTrain", None), ("Axle", 2), ("Differential", None)):
            nt = n if dev == "Axle" else R.NTERMS[dev]
            fn, leaves, dh, pre = R.run_update(sim, prog, dev, [dict(cmd=True, state=True) for _ in range(nt)], n)
            nread = 0
            for leaf in leaves:
                chk.evaluated(1, nontrivial=(key, dev, repr(leaf.pc)[:120]))
                # (a path the simulator cannot finish with opaque reads still shows the order of the calls made so far, which is all this rule needs)
                evs = [(i, e[2].split("::")[-1]) for i, e in enumerate(leaf.effects) if e[0] == "call" and e[2].startswith("Terminal<")]
                reads = [i for i, nm in evs if nm == "get"]
                upds = [i for i, nm in evs if nm == "update"]
                nread += len(reads)
                if reads and (len(upds) < nt or min(reads) < max(upds[:nt])):
                    chk.violation("C13.relay", "%s:%s" % (key, dev), "%s::update (%s) reads a terminal before all of its terminals have been refreshed (update_terminals): a command arriving through a followed getter "
                                  "is relayed one round late" % (dev, loc(fn["span"])), fn=fn["pretty"], file=loc(fn["span"]))
                    ok = False
                    break
            if nread == 0:
                chk.violation("floor", "C13.terminal-reads:" + dev, "%s::update never reads a terminal (rule would be vacuous)" % dev)
                ok = False
    finally:
        sim.inline_filter = None
    if ok:
        chk.discharge(key)


def run(chk):
    prog = load_config("K1")
    chk.configs.append("K1")
    chk.rule("C13.relay", "after update every terminal reads the newest pre-update command, issuer's time and kind, value mapped issuer->reader")
    chk.rule("C13.differential", "Differential::update leaves command slots untouched and never calls set on a command")
    chk.rule("C13.chain", "terminal links stay a symmetric matching under connect/disconnect (table shared with C09)")
    sim = S.Sim(prog)
    maxn = 3 if chk.tier == "quick" else 4
    check_device(chk, prog, sim, "Invert", None)
    check_device(chk, prog, sim, "GearTrain", None)
    for n in range(1, maxn + 1):
        check_device(chk, prog, sim, "Axle", n)
    check_differential(chk, prog, sim)
    check_update_terminals_first(chk, prog, sim)
    # release profile (K6 = default features, --release): debug_assert!(..) and its argument are compiled out, so a write or a
    # call moved inside one silently disappears; the same tables must hold there
    import report as _report
    _p6 = load_config("K6")
    chk.configs.append("K6")
    _sub6 = _report.Check("C13", chk.tier)
    _s6 = S.Sim(_p6)
    check_device(_sub6, _p6, _s6, "Invert", None)
    check_device(_sub6, _p6, _s6, "GearTrain", None)
    for n in range(1, 3):
        check_device(_sub6, _p6, _s6, "Axle", n)
    check_differential(_sub6, _p6, _s6)
    chk.evaluations += _sub6.evaluations
    for _v in _sub6.violations:
        if _v["rule"] == "floor":
            continue
        chk.violation(_v["rule"], _v["key"] + "@K6", "[release profile] " + _v["what"], **_v["detail"])
    # link structure relied upon (connect keeps the terminals a symmetric matching): the inductive step is C09's table, evaluated here too
    import rules.C09 as C09
    import report
    key = "links:matching-preserved-by-connect"
    chk.obligation(key, "connect/disconnect keep terminal links a symmetric matching (shared with C09)")
    sub = report.Check("C13", chk.tier)
    C09.check_links(sub, prog, sim)
    chk.evaluations += sub.evaluations
    bad = [v for v in sub.violations]
    for v in bad:
        chk.violation("C13.chain" if v["rule"].startswith("C09") else v["rule"], "links:" + v["key"], "the chain clause composes the per-device relay with the terminal link structure: after re-wiring, a terminal that was connected elsewhere must have been unlinked from its old partner, or commands keep reaching (and being relayed by) the device it was moved away from: " + v["what"], **v["detail"])
    if not bad:
        chk.discharge(key)
    chk.assume("terminals do not follow getters; set on a terminal cannot fail (impl_set is infallible: inlined)",
               "the chain clause (command reaches the far end scaled by the product of ratios) is the composition of this per-device table with the terminal read table (C09); it is not simulated as a whole",
               "timestamp ties: either tied command is accepted")
    chk.extra["std_models"] = sorted(sim.stats["models_used"])
    return ("Abstract interpretation of device updates on explicit heaps of terminal cells with symbolic command timestamps; the observable (command read at "
            "each terminal after update) is obtained by interpreting the terminal read on each post-state and compared with 'newest, mapped to this side'.")
