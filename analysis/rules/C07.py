"""C07: the motion profile is a valid trapezoid (real-arithmetic model).

The closed forms returned by get_acceleration / get_velocity / get_position in the three moving phases are extracted by
abstract interpretation (one ordering per phase; C06 shows all orderings of a phase use the same formula) and turned into
polynomials in t; the constructor's phase durations are extracted per sign branch.  Decided as polynomial / rational
identities (engine D):
  acceleration is +a, 0, -a with a = |max_acc| * sign(displacement);   d/dt v_i = a_i;   d/dt p_i = v_i;
  v is continuous at t1, t2 and equals the start velocity at 0; p is continuous at t1, t2 and equals the start position at 0;
  each v_i has degree <= 1 in t (so |v| is bounded by its values at the phase ends);
  with the constructor's t1, t2, t3 substituted: v(t3) = end velocity and p(t3) = end position;
  no internal unit assertion or expect can fail for inputs in mm, mm/s, mm/s^2 (units are constants on every path).
Not decided: rounding tolerances, acceptance of 'comfortable' moves, exact negation symmetry (f32 statements).
"""
import sympy as sp
from values import *
from program import load_config, subst, ty_str, is_adt, prim, AnchorMissing, loc
import sim as S
import streamkit as K
import dimkit as Q
import algebra as A
import rules.C06 as C06
import report

PHASES = {1: (0, 2, 3, 4, 1), 2: (0, 1, 3, 4, 2), 3: (0, 1, 2, 4, 3)}


def quantity_value(v):
    if isinstance(v, Enum) and v.vname == "Some":
        v = v.fields[0]
    if isinstance(v, Struct) and len(v.fields) == 2:
        return v.fields[0], v.fields[1]
    return None, None


def trunc_env(val, env=None):
    """Truncating integer division / remainder on a non-constant operand (`t.0 / 1_000_000`, `t.0 % n`) on the *query time* is not a field operation:
    IRem(a, b) is an opaque function irem(a, b) and IDiv(a, b) = (a - irem(a, b)) / b, so a lossless split (`q + r / n`) still
    simplifies to a / n while a lossy one (`(t / 10^6) as f32 / 10^3`: a staircase in t) keeps the irem term, which is not
    differentiable in t and does not vanish at the phase joins."""
    env = {} if env is None else env

    def walk(v):
        if isinstance(v, Lin):
            for a, _k in v.terms:
                walk(a)
        if not isinstance(v, Term):
            return
        for x in v.args:
            walk(x)
        if v.op in ("IDiv", "IRem") and len(v.args) == 2 and not all(isinstance(x, Const) for x in v.args) and repr(v) not in env:
            a, b = (A.to_sympy(x, env) for x in v.args)
            if A.sym("t.0") not in (a.free_symbols | b.free_symbols):
                return   # a stored duration halved etc. (at most divisor-1 ns off, a constant of the profile): field operation as before
            r = sp.Function("irem")(a, b)
            env[repr(v)] = r if v.op == "IRem" else (a - r) / b
    walk(val)
    return env


_NESTED = [False]


def run(chk):
    if not _NESTED[0]:
        try:
            _NESTED[0] = True
            # the trapezoid must come out the same without std (no_std + alloc + libm, K2): the sign choice goes through Quantity::abs,
            # which has a separate implementation there
            import rules.C19 as C19
            before = len(chk.violations)
            C19.run_rules_under(chk, "K2", ["C07"])
            for v in chk.violations[before:]:
                parts = v["key"].split(":")
                if v["rule"] == "C19.E" and len(parts) >= 2:
                    v["rule"] = parts[1]
                v["what"] = "[no_std + alloc + libm] " + v["what"]
            chk.configs.append("K2")
        finally:
            _NESTED[0] = False
    prog = load_config("K1")
    chk.configs.append("K1")
    chk.rule("C07.kinematics", "d/dt p = v, d/dt v = a per phase; acceleration in {+a, 0, -a}")
    chk.rule("C07.continuity", "v and p continuous at t1, t2; start conditions at t = 0")
    chk.rule("C07.goal", "with the constructor's durations: v(t3) = end velocity, p(t3) = end position")
    chk.rule("C07.accept", "acceptance = the constructor's feasibility assertions, present on every returning path in the debug and the release profile")
    chk.rule("C07.conditioning", "no f32 intermediate of a closed form has higher degree in the query time than the value it contributes to (exact cancellation of leading terms = unbounded relative rounding error)")
    chk.rule("C07.units", "accessor results carry mm/s^2, mm/s, mm on every path; no unit assertion can fail")
    sim = S.Sim(prog)
    sub = report.Check("C07", chk.tier)
    C06.check_constructor(sub, prog, sim)   # learns FIELD_UNITS; constructor shape violations are C06's
    for v in sub.violations:
        if v["rule"] == "analysis-incomplete":
            chk.violation(v["rule"], v["key"], v["what"], **v["detail"])

    # "for every accepted profile": acceptance is the constructor's three feasibility assertions (phase durations >= 0); the
    # identities below are proved for 0 <= t1 <= t2 <= t3 only.  The assertions must hold in both profiles (K1 debug, K6 release).
    key0 = "accept:feasibility-asserted"
    chk.obligation(key0, "every returning constructor path has asserted the three phase durations non-negative (debug and release)")
    okc = True
    p6 = load_config("K6")
    chk.configs.append("K6")
    for cfgname, pr, sm in (("K1", prog, sim), ("K6", p6, S.Sim(p6))):
        s2 = report.Check("C07", chk.tier)
        C06.check_constructor(s2, pr, sm)
        chk.evaluated(1, nontrivial=(key0, cfgname))
        for v in s2.violations:
            if ":ordering:never-returns" in v["key"] or "never-returns" in v["key"]:
                chk.violation("C07.accept", "%s:never-accepts@%s" % (key0, cfgname), "[%s] MotionProfile::new has no returning path: every move, however comfortable, is rejected (%s)"
                              % ("release profile / checks compiled out" if cfgname == "K6" else "debug profile", v["what"]), **v.get("detail", {}))
                okc = False
            elif ":ordering:assert" in v["key"]:
                chk.violation("C07.accept", "%s:%s@%s" % (key0, v["key"].split(":")[-1], cfgname), "[%s] MotionProfile::new accepts moves that are not feasible trapezoids (%s): velocity/position continuity and arrival at the goal are only guaranteed for 0 <= t1 <= t2 <= t3"
                              % ("release profile" if cfgname == "K6" else "debug profile", v["what"]), **v.get("detail", {}))
                okc = False
            elif "end-command-kind" in v["key"] and cfgname == "K1":
                chk.violation("C07.goal", "goal:end-command:" + v["key"].split(":")[-1], "from completion onward the accessors report the end command, which must fix the end state's velocity (lowest non-zero derivative of the end state): "
                              + v["what"], **v.get("detail", {}))
                okc = False
            elif v["rule"] == "analysis-incomplete" and cfgname == "K6":
                chk.violation(v["rule"], v["key"] + "@K6", v["what"], **v.get("detail", {}))
                okc = False
    C06.check_constructor(report.Check("C07", chk.tier), prog, sim)   # restore FIELD_UNITS learnt from the primary configuration
    if okc:
        chk.discharge(key0)

    def inh(name):
        fs = [f for f in prog.find_fns(name=name, self_name="MotionProfile") if not f.get("impl_trait")]
        if len(fs) != 1:
            raise AnchorMissing("MotionProfile::" + name)
        chk.analysed(fs[0]["pretty"])
        return fs[0]
    f_acc, f_vel, f_pos = inh("get_acceleration"), inh("get_velocity"), inh("get_position")
    t = A.sym("t.0") / 10**9
    tsym = A.sym("t.0")
    forms = {}
    raw = {}
    key = "phases:closed-forms"
    chk.obligation(key, "per-phase kinematic identities and continuity")
    ok = True
    tnames = None
    for ph, ranks in PHASES.items():
        st, oid, tv, names = C06.setup(sim, prog, ranks, "Position")
        for nm, fn, unit in (("a", f_acc, (1, -2)), ("v", f_vel, (1, -1)), ("p", f_pos, (1, 0))):
            ls = C06.run_accessor(sim, fn, st, oid, tv)
            chk.evaluated(len(ls), nontrivial=(key, ph, nm))
            if len(ls) != 1 or ls[0].kind != "return":
                chk.violation("analysis-incomplete" if any(l.kind == "unsupported" for l in ls) else "C07.units", "%s:phase%d:%s" % (key, ph, nm),
                              "%s in phase %d: %s" % (fn["name"], ph, [(l.kind, l.info.get("msg")) for l in ls]), fn=fn["pretty"], file=loc(fn["span"]))
                ok = False
                continue
            val, unit_v = quantity_value(sim.final_value(ls[0].state, ls[0].value))
            ex = Q.unit_exps(sim, ls[0].state, unit_v) if unit_v is not None else None
            from program import units_enabled
            if val is None or (units_enabled(prog) and (not ex or tuple(getattr(e, "val", None) for e in ex) != unit)):
                chk.violation("C07.units", "%s:unit:phase%d:%s" % (key, ph, nm), "%s in phase %d returns %r with unit %r, expected %s" % (fn["name"], ph, val, ex, unit), fn=fn["pretty"])
                ok = False
                continue
            try:
                forms[(ph, nm)] = A.to_sympy(val, trunc_env(val))
                raw[(ph, nm)] = (val, fn)
            except Exception as e:
                chk.violation("C07.kinematics", "%s:nonarith:%d:%s" % (key, ph, nm), "%s in phase %d is not arithmetic: %s" % (fn["name"], ph, e))
                ok = False
    # ---- the instants themselves: t = 0, t1, t2 (and t3 for position): the value must be present and be the closed form there
    if len(forms) == 9:
        tfs = C06.time_symbol_names(sim, prog)
        bpoints = [("0", (0, 1, 2, 3, 0), 1, sp.Integer(0), ("v", "p"))]
        if len(tfs) >= 2:
            bpoints += [("t1", (0, 1, 2, 3, 1), 1, A.sym(tfs[0]), ("v", "p")), ("t2", (0, 1, 2, 3, 2), 2, A.sym(tfs[1]), ("v", "p"))]
        # (t = t3 itself belongs to the completed piece: the end command's own value; that it equals the closed form there is the
        #  goal rule below, which substitutes the constructor's durations)
        for bname, ranks, ph, tval, which in bpoints:
            st, oid, tv, names = C06.setup(sim, prog, ranks, "Position")
            for nm, fn in (("v", f_vel), ("p", f_pos)):
                if nm not in which:
                    continue
                ls = C06.run_accessor(sim, fn, st, oid, tv)
                chk.evaluated(len(ls), nontrivial=(key, "at", bname, nm))
                good = False
                got = None
                if len(ls) == 1 and ls[0].kind == "return":
                    val, _u = quantity_value(sim.final_value(ls[0].state, ls[0].value))
                    if val is not None:
                        try:
                            got = A.to_sympy(val, trunc_env(val)).subs(tsym, tval)
                            good = A.equal(got, forms[(ph, nm)].subs(tsym, tval))
                        except Exception:
                            good = False
                if not good:
                    chk.violation("analysis-incomplete" if any(l.kind == "unsupported" for l in ls) else "C07.kinematics", "%s:at-%s:%s" % (key, bname, nm),
                                  "%s at exactly t = %s returns %s, expected the phase-%d closed form evaluated there (present, %s)"
                                  % (fn["name"], bname, "nothing" if got is None else A.show(got), ph, {"0": "the start value", "t3": "the end value"}.get(bname, "continuity")),
                                  fn=fn["pretty"], file=loc(fn["span"]))
                    ok = False
    if len(forms) == 9:
        # symbols of the profile
        mp = [s_ for s_ in forms[(1, "a")].free_symbols]
        a = forms[(1, "a")]
        tfields = C06.time_symbol_names(sim, prog)
        t1, t2 = [A.sym(n) for n in tfields[:2]] if len(tfields) >= 2 else (None, None)
        v0 = forms[(1, "v")].subs(tsym, 0)
        p0 = forms[(1, "p")].subs(tsym, 0)

        def bad(rule, sub_, msg, fn):
            nonlocal ok
            ok = False
            chk.violation(rule, "%s:%s" % (key, sub_), msg, fn=fn["pretty"], file=loc(fn["span"]))
        if not (A.equal(forms[(2, "a")], 0) and A.equal(forms[(3, "a")], -a)):
            bad("C07.kinematics", "acc-levels", "commanded acceleration per phase is (%s, %s, %s), expected (+a, 0, -a)" % tuple(A.show(forms[(i, "a")]) for i in (1, 2, 3)), f_acc)
        for ph in (1, 2, 3):
            dv = sp.diff(forms[(ph, "v")], tsym) * 10**9
            dp = sp.diff(forms[(ph, "p")], tsym) * 10**9
            if not A.equal(dv, forms[(ph, "a")]):
                bad("C07.kinematics", "dv:phase%d" % ph, "phase %d: d/dt velocity = %s but the commanded acceleration is %s" % (ph, A.show(dv), A.show(forms[(ph, "a")])), f_vel)
            if not A.equal(dp, forms[(ph, "v")]):
                bad("C07.kinematics", "dp:phase%d" % ph, "phase %d: d/dt position = %s but the velocity is %s" % (ph, A.show(dp), A.show(forms[(ph, "v")])), f_pos)
            try:
                affine = sp.degree(sp.expand(forms[(ph, "v")]), tsym) <= 1
            except Exception:
                affine = False
            if not affine:
                bad("C07.kinematics", "deg:phase%d" % ph, "phase %d velocity is not affine in t" % ph, f_vel)
        if t1 is not None:
            for nm, fn in (("v", f_vel), ("p", f_pos)):
                if not A.equal(forms[(1, nm)].subs(tsym, t1), forms[(2, nm)].subs(tsym, t1)):
                    bad("C07.continuity", "%s@t1" % nm, "%s is discontinuous at t1: %s vs %s" % (nm, A.show(forms[(1, nm)].subs(tsym, t1)), A.show(forms[(2, nm)].subs(tsym, t1))), fn)
                if not A.equal(forms[(2, nm)].subs(tsym, t2), forms[(3, nm)].subs(tsym, t2)):
                    bad("C07.continuity", "%s@t2" % nm, "%s is discontinuous at t2" % nm, fn)
        # conditioning: an f32 intermediate whose degree in the query time exceeds the degree of the value it contributes to
        # means the leading coefficients cancel exactly in real arithmetic; evaluated in f32 the absolute error grows like
        # eps * t^k while the result grows like t^(k-1), so the relative error is unbounded over the permitted domain
        # (t / t1 is not bounded by the quantifier): the 'tolerance proportional to epsilon times the magnitudes' clause fails
        for (ph, nm), (val, fn) in sorted(raw.items()):
            try:
                dres = sp.degree(sp.expand(forms[(ph, nm)]), tsym)
            except Exception:
                continue
            seen = set()

            def walk(x):
                if not isinstance(x, Term) or id(x) in seen:
                    return
                seen.add(id(x))
                for y in x.args:
                    walk(y)
                if x.op in ("Add", "Sub", "Mul", "Div", "Neg"):
                    try:
                        e = sp.expand(A.to_sympy(x))
                        d = sp.degree(e, tsym) if e.is_polynomial(tsym) else None
                    except Exception:
                        d = None
                    chk.evaluated(1, nontrivial=(key, "cond", ph, nm, repr(x)[:80]))
                    if d is not None and d > dres:
                        bad("C07.conditioning", "cancellation:phase%d:%s" % (ph, nm),
                            "phase %d %s: the f32 intermediate %s has degree %d in the query time but the result has degree %d: its leading terms cancel exactly, so the rounding error grows one order in t faster than the value (catastrophic cancellation for t >> t1)"
                            % (ph, fn["name"], A.show(A.to_sympy(x)), d, dres), fn)
            walk(val)
        chk.sample({"phase1": {"v": A.show(forms[(1, "v")]), "p": A.show(forms[(1, "p")])}})
    if ok and len(forms) == 9:
        chk.discharge(key)
    # ---------------- goal: substitute the constructor's definitions
    key = "goal:reaches-end-state"
    chk.obligation(key, "v(t3) = end velocity and p(t3) = end position with the constructor's durations; start conditions; acceleration sign")
    okg = len(forms) == 9
    fs = [f for f in prog.find_fns(name="new", self_name="MotionProfile") if not f.get("impl_trait")]
    fn = fs[0]
    st = S.State()
    gargs = sim.identity_gargs(fn)
    qty = Q.quantity_ty(prog)
    args = []
    for i, ty in enumerate(fn["sig_inputs"]):
        nm = ["start", "end", "max_vel", "max_acc"][i]
        if is_adt(ty, "Quantity"):
            unit = {"max_vel": (1, -1), "max_acc": (1, -2)}[nm]
            args.append(Struct(qty, (Sym(nm + ".value", prim("f32")), Q.unit_value(sim, prog, *unit))))
        else:
            args.append(Sym(nm, subst(ty, gargs)))
    M_, Acc = sp.Symbol("M", positive=True), sp.Symbol("Amax", positive=True)
    env = {repr(Term("abs", (Sym("max_vel.value"),))): M_, repr(Term("abs", (Sym("max_acc.value"),))): Acc}
    nret = 0
    for leaf in sim.run(fn, gargs, args, st):
        if leaf.kind != "return" or len(forms) != 9:
            continue
        nret += 1
        chk.evaluated(1, nontrivial=(key, repr([p for p in leaf.pc if p[0] == "frel"][:1])))
        prof = sim.final_value(leaf.state, leaf.value)
        import layout
        subs = {}
        try:
            for n, fv in layout.value_leaves(sim, prof, stop=("Time", "Quantity", "Command")):
                if isinstance(fv, Struct) and fv.ty and fv.ty.get("name") == "Quantity":
                    subs[A.sym("self.%s.value" % n)] = A.to_sympy(fv.fields[0], env)
                elif isinstance(fv, Struct) and fv.ty and fv.ty.get("name") == "Time":
                    x = fv.fields[0]           # FloatToInt(Mul(X, 1e9)) -> X seconds
                    subs[A.sym("self.%s.0" % n)] = A.to_sympy(x, env)
                elif isinstance(fv, (Sym, Term, Const)) and not isinstance(fv, Enum) and getattr(fv, "ty", None) is not None and fv.ty.get("k") == "prim" and fv.ty.get("name") in ("f32", "f64"):
                    subs[A.sym("self.%s" % n)] = A.to_sympy(fv, env)       # a bare float kept in a private sub-struct
        except Exception as e:
            chk.violation("C07.goal", key + ":nonarith", "constructor result not arithmetic: %s" % e)
            okg = False
            continue
        t3s = A.sym(C06.time_symbol_names(sim, prog)[2])
        sign = None
        for p in leaf.pc:
            if p[0] == "frel" and p[1] in ("end.position ? start.position", "start.position ? end.position"):
                lhs = p[1].split(" ? ")[0]
                lt = p[2] == "<"
                sign = -1 if ((lhs.startswith("end") and lt) or (lhs.startswith("start") and p[2] == ">")) else 1
        v3_end = forms[(3, "v")].subs(tsym, t3s).subs(subs, simultaneous=True)
        p3_end = forms[(3, "p")].subs(tsym, t3s).subs(subs, simultaneous=True)
        v0 = forms[(1, "v")].subs(tsym, 0).subs(subs, simultaneous=True)
        p0 = forms[(1, "p")].subs(tsym, 0).subs(subs, simultaneous=True)
        a_ = forms[(1, "a")].subs(subs, simultaneous=True)
        checks = [("v(t3)", v3_end, A.sym("end.velocity")), ("p(t3)", p3_end, A.sym("end.position")), ("v(0)", v0, A.sym("start.velocity")), ("p(0)", p0, A.sym("start.position"))]
        for nm, got, exp in checks:
            if not A.equal(got, exp):
                chk.violation("C07.goal", "%s:%s" % (key, nm), "with the constructor's durations (displacement sign %s) %s = %s, expected %s" % (sign, nm, A.show(got), exp), fn=fn["pretty"], file=loc(fn["span"]))
                okg = False
        absacc = Acc
        for p in leaf.pc:   # no-std variant of abs is a sign select decided on the path
            if p[0] == "frel" and p[1] in ("max_acc.value ? 0.0:f32", "0.0:f32 ? max_acc.value"):
                nonneg = (p[1].startswith("max_acc") and set(p[2]) <= set("=>")) or (p[1].startswith("0.0") and set(p[2]) <= set("=<"))
                absacc = A.sym("max_acc.value") if nonneg else -A.sym("max_acc.value")
        if sign is not None and not A.equal(a_, absacc * sign):
            chk.violation("C07.goal", key + ":acc-sign", "signed acceleration is %s, expected |max_acc| * %d (sign of the displacement)" % (A.show(a_), sign), fn=fn["pretty"], file=loc(fn["span"]))
            okg = False
    if nret < 2:
        chk.violation("C07.goal", key + ":paths", "expected returning constructor paths for both displacement signs, found %d" % nret)
        okg = False
    if okg:
        chk.discharge(key)
    chk.assume("real-arithmetic model: truncation to ns and f32 rounding are not modelled, tolerances are not decided",
               "acceptance of comfortable moves and exact negation symmetry are f32/inequality statements and are not decided",
               "one ordering per phase suffices because C06 shows every ordering of a phase takes the same branch")
    chk.extra["std_models"] = sorted(sim.stats["models_used"])
    return ("Closed forms of the three phases and the constructor's durations extracted by abstract interpretation and verified as polynomial/rational identities: "
            "kinematic consistency, continuity, start and goal conditions, acceleration levels and sign. Rounding-tolerance, acceptance and exact-negation clauses are not decided.")
