"""C09: terminal links form a symmetric matching; connect/disconnect never panic; terminal reads.

  R1 who-may-write: the partner link field of Terminal is stored only by the constructor, disconnect and connect.
  R2 inductive step: for every symmetric matching of four terminal cells {a,b,c,d} (10 matchings; connect touches at
     most a, b and their partners) connect(a,b) is abstractly interpreted on an explicit heap of RefCell cells with
     borrow-state tracking: it must return (no RefCell double borrow, no panic), end with a<->b, former partners
     unlinked, everything else unchanged, all guards released.  disconnect(x) likewise.
  R3 read tables: Getter<State> = mean of own and partner (or whichever exists), Getter<Command> = newer of the two,
     Getter<TerminalData> = both with the state's timestamp when there is one.
"""
import itertools
from values import *
from program import load_config, subst, ty_str, is_adt, prim, AnchorMissing, loc
import sim as S
import streamkit as K
import devkit as D
import mirwalk as W
from rules.C03 import rel_allowed

CELLS = ["a", "b", "c", "d"]


def matchings(items):
    if not items:
        yield []
        return
    x, rest = items[0], items[1:]
    for m in matchings(rest):
        yield m
    for i, y in enumerate(rest):
        for m in matchings(rest[:i] + rest[i + 1:]):
            yield [(x, y)] + m


def who_may_write(chk, prog):
    key = "R1:who-may-write-link"
    chk.obligation(key, "only constructor/connect/disconnect store Terminal's partner link")
    term = prog.adt_by_name("Terminal")
    # the partner link, wherever the Terminal keeps it: every (struct, field) on the way to the Option<&RefCell<Terminal>> leaf
    import layout
    sim0 = S.Sim(prog)
    tty = {"k": "adt", "did": term["did"], "name": "Terminal", "args": [({"k": "region"} if str(g).startswith("'") else {"k": "param", "name": str(g), "idx": i}) for i, g in enumerate(term.get("generics", []))]}
    cands = [(n, t, p) for (n, t, p) in layout.leaves(sim0, tty, stop=("SettableData", "Option", "RefCell"))
             if t.get("k") == "adt" and t["name"] == "Option" and t["args"] and t["args"][0].get("k") == "ref"]
    if len(cands) != 1:
        raise AnchorMissing("Terminal partner-link field")
    sites = []
    cur = tty
    for step in cands[0][2]:
        if cur.get("k") == "adt":
            sites += W.field_write_sites(prog, cur["did"], step)
        cur = layout.children(sim0, cur)[step][1]
    ok = True
    writers = set()
    def base_allowed(fn):
        return (fn["name"] in ("new_raw", "disconnect") and is_adt(fn.get("impl_self") or {}, "Terminal")) or (fn["name"] == "connect" and fn["kind"] == "Fn")
    idx = W.callers_index(prog)
    for fn, kind, span in sites:
        allowed = base_allowed(fn)
        if allowed:
            writers.add(fn["name"])
        elif W.private_helper_of(prog, fn, base_allowed, idx):
            # a private helper reachable only from the allowed writers is part of them
            allowed = True
            for c in idx.get(fn["did"], ()):
                writers.add(prog.fns[c]["name"])
        if not allowed:
            chk.violation("C09.R1", "writer:" + fn["pretty"], "%s (%s) writes Terminal's partner link (%s); only the constructor, connect and disconnect may" % (fn["pretty"], loc(span), kind),
                          fn=fn["pretty"], file=loc(span))
            ok = False
    chk.extra["link_writers"] = sorted(writers)
    if not {"new_raw", "disconnect", "connect"} <= writers:
        chk.violation("C09.R1", "writers-missing", "expected writers new_raw/disconnect/connect, found %s (rule would be vacuous)" % sorted(writers))
        ok = False
    if ok:
        chk.discharge(key)


def build_heap(sim, st, tty, matching, with_data=True):
    h = D.Heap(sim, st, tty)
    for c in CELLS:
        h.cell(c, with_data, with_data)
    for x, y in matching:
        h.link(x, y)
    return h


def check_links(chk, prog, sim):
    conn = [f for f in prog.by_name.get("connect", []) if f["kind"] == "Fn"]
    if len(conn) != 1:
        raise AnchorMissing("fn connect")
    conn = conn[0]
    disc = prog.find_fn(name="disconnect", self_name="Terminal")
    chk.analysed(conn["pretty"])
    chk.analysed(disc["pretty"])
    gargs = sim.identity_gargs(conn)
    tty = D.find_ty(subst(conn["sig_inputs"][0], gargs), "Terminal")
    kc, kd = "R2:connect", "R2:disconnect"
    chk.obligation(kc, "connect(a,b) on every symmetric matching of 4 cells")
    chk.obligation(kd, "disconnect(x) on every symmetric matching of 4 cells")
    okc = okd = True
    for m in matchings(CELLS):
        mname = "{" + ",".join("%s-%s" % p for p in sorted(m)) + "}"
        pre = {}
        for x, y in m:
            pre[x], pre[y] = y, x
        # ---- connect(a, b) and connect(b, a) and connect(a, c) ... all ordered distinct pairs
        for (p, q) in itertools.permutations(CELLS, 2):
            if chk.tier == "quick" and (p, q) not in (("a", "b"), ("b", "a"), ("a", "c"), ("c", "a"), ("c", "d")):
                continue
            st = S.State()
            h = build_heap(sim, st, tty, m)
            leaves = sim.run(conn, gargs, [Ref(Ptr(h.cells[p])), Ref(Ptr(h.cells[q]))], st)
            case = "connect(%s,%s) on %s" % (p, q, mname)
            for leaf in leaves:
                chk.evaluated(1, nontrivial=("connect", case))
                if leaf.kind == "unsupported":
                    chk.violation("analysis-incomplete", kc, "simulator cannot model %s: %s" % (case, leaf.info["msg"]), site=K.leaf_site(leaf))
                    okc = False
                    continue
                if leaf.kind in ("panic", "ub"):
                    rel = "partner(%s)=%s,partner(%s)=%s" % (p, pre.get(p), q, pre.get(q))
                    chk.violation("C09.connect-no-panic", "connect:" + ("already-connected-pair" if pre.get(p) == q else "relinking"),
                                  "%s panics: %s (%s) [%s]" % (case, leaf.info.get("msg"), K.leaf_site(leaf), rel), fn=conn["pretty"], file=loc(conn["span"]), case=case)
                    okc = False
                    continue
                exp = dict(pre)
                for z in (p, q):
                    if z in exp:
                        exp.pop(exp[z], None)
                        exp.pop(z, None)
                exp[p], exp[q] = q, p
                got = {c: h.partner(leaf.state, c) for c in CELLS}
                got = {k: v for k, v in got.items() if v is not None}
                borrows = {c: h.borrow_state(leaf.state, c) for c in CELLS}
                if got != exp:
                    chk.violation("C09.connect-links", "connect:links:" + ("relink" if (p in pre or q in pre) else "fresh"),
                                  "%s ends with links %s, expected %s" % (case, got, exp), fn=conn["pretty"], file=loc(conn["span"]), case=case)
                    okc = False
                if any(borrows.values()):
                    chk.violation("C09.connect-guards", "connect:guards", "%s returns with RefCell guards still held: %s" % (case, borrows), fn=conn["pretty"])
                    okc = False
                for c in CELLS:   # data slots untouched
                    for which in ("state", "command"):
                        if h.slot(leaf.state, c, which) != h.slot(st, c, which):
                            chk.violation("C09.connect-links", "connect:data", "%s modifies the %s slot of terminal %s" % (case, which, c))
                            okc = False
                chk.sample({"op": case, "links_after": got}, cap=8)
        # ---- disconnect(x) called through x.borrow_mut()
        for x in CELLS:
            st = S.State()
            h = build_heap(sim, st, tty, m)
            cell = st.mem[h.cells[x]]
            st.mem[h.cells[x]] = Opaque("RefCell", (cell.data[0], -1))   # the caller's RefMut
            dg = sim.identity_gargs(disc)
            leaves = sim.run(disc, dg, [Ref(Ptr(h.cells[x]).ext(("inner",)), True)], st)
            case = "disconnect(%s) on %s" % (x, mname)
            for leaf in leaves:
                chk.evaluated(1, nontrivial=("disconnect", case))
                if leaf.kind != "return":
                    chk.violation("analysis-incomplete" if leaf.kind == "unsupported" else "C09.disconnect", kd + ":" + leaf.kind,
                                  "%s: %s %s" % (case, leaf.kind, leaf.info.get("msg")), fn=disc["pretty"], file=loc(disc["span"]))
                    okd = False
                    continue
                exp = dict(pre)
                if x in exp:
                    exp.pop(exp[x], None)
                    exp.pop(x, None)
                got = {c: h.partner(leaf.state, c) for c in CELLS}
                got = {k: v for k, v in got.items() if v is not None}
                borrows = {c: h.borrow_state(leaf.state, c) for c in CELLS if c != x}
                if got != exp or any(borrows.values()):
                    chk.violation("C09.disconnect", "disconnect:links", "%s ends with links %s (expected %s), guards %s" % (case, got, exp, borrows),
                                  fn=disc["pretty"], file=loc(disc["span"]))
                    okd = False
    if okc:
        chk.discharge(kc)
    if okd:
        chk.discharge(kd)


def state_fields(prog):
    return [f["name"] for f in prog.adt_by_name("State")["variants"][0]["fields"]]


def mean_state(prog, a, b):
    sty = None
    fs = []
    for n in state_fields(prog):
        fs.append(Term("Div", (Term("Add", (Sym("%s.%s" % (a, n)), Sym("%s.%s" % (b, n)))), Const(2.0, prim("f32")))))
    return fs


def check_reads(chk, prog, sim):
    gets = D.terminal_getters(prog)
    key = "R3:read-tables"
    chk.obligation(key, "state/command/combined read tables of Terminal")
    ok = True
    for which in ("State", "Command", "TerminalData"):
        fn = gets[which]
        chk.analysed(fn["pretty"])
        for own_s, own_c, partner in itertools.product((False, True), (False, True), (False, True)):
            for ps, pc_ in (itertools.product((False, True), (False, True)) if partner else [(False, False)]):
                leaves, h = D.run_terminal_get(sim, prog, fn, own_s, own_c, partner, ps, pc_)
                case = "%s own(s=%d,c=%d) partner=%d(s=%d,c=%d)" % (which, own_s, own_c, partner, ps, pc_)
                for leaf in leaves:
                    chk.evaluated(1, nontrivial=("read", case, repr(leaf.pc)))
                    if leaf.kind != "return":
                        chk.violation("analysis-incomplete" if leaf.kind == "unsupported" else "C09.read", "read:" + case,
                                      "Terminal read %s: %s %s" % (case, leaf.kind, leaf.info.get("msg")), site=K.leaf_site(leaf), fn=fn["pretty"])
                        ok = False
                        continue
                    stl = leaf.state
                    ta = K.time_arith(leaf)
                    if ta:
                        chk.violation("C09.read", "read:%s:time-arithmetic" % which, "Terminal read %s does integer arithmetic on timestamps (%s %s %s) instead of comparing them: with near-extreme timestamps "
                                      "(Time(i64::MIN) is the crate's own 'nothing yet' seed) the difference overflows - a panic in debug builds, the OLDER command in release builds" % ((case,) + tuple(ta[0])),
                                      fn=fn["pretty"], file=loc(fn["span"]))
                        ok = False
                    g = K.classify_output(sim, stl, leaf.value)
                    bad = None
                    has_s = [x for x, p in (("a", own_s), ("b", partner and ps)) if p]
                    has_c = [x for x, p in (("a", own_c), ("b", partner and pc_)) if p]

                    def state_ok(payload):
                        if len(has_s) == 2:
                            exp = D.comm_norm(Struct(None, mean_state(prog, "sa", "sb")))
                            return isinstance(payload, Struct) and D.comm_norm(Struct(None, payload.fields)) == exp
                        return payload == sim.final_value(stl, Sym("s" + has_s[0], payload.ty if isinstance(payload, Struct) else None))

                    def cmd_ok(payload):
                        for x in has_c:
                            if payload == sim.final_value(stl, Sym("c" + x, getattr(payload, "ty", None))) or payload == Sym("c" + x):
                                others = [y for y in has_c if y != x]
                                if not others:
                                    return True
                                al = rel_allowed(sim, stl, Sym("tc" + others[0]), Sym("tc" + x))
                                return al <= {"<", "="}
                        return False
                    if which == "State":
                        if not has_s:
                            bad = None if g == ("N",) else "expected None"
                        elif not (g and g[0] == "S" and state_ok(g[2])):
                            bad = "expected %s" % ("the mean of own and partner state" if len(has_s) == 2 else "the only present state")
                    elif which == "Command":
                        if not has_c:
                            bad = None if g == ("N",) else "expected None"
                        elif not (g and g[0] == "S" and cmd_ok(g[2]) and any(g[1] == Sym("tc" + x) and (g[2] == Sym("c" + x) or g[2] == sim.final_value(stl, Sym("c" + x, g[2].ty if hasattr(g[2], "ty") else None))) for x in has_c)):
                            bad = "expected the newer of the present commands with its own timestamp"
                    else:
                        if not has_s and not has_c:
                            bad = None if g == ("N",) else "expected None"
                        elif not (g and g[0] == "S" and isinstance(g[2], Struct) and len(g[2].fields) == 3):
                            bad = "expected Some(TerminalData)"
                        else:
                            td = g[2]
                            tdt = td.fields[0].fields[0] if isinstance(td.fields[0], Struct) else td.fields[0]
                            tcands = [Sym("ts" + x) for x in has_s] or [Sym("tc" + x) for x in has_c]
                            if not (g[1] == tdt and tdt in tcands and K.no_candidate_newer(sim, stl, tdt, tcands)):
                                bad = "timestamp must be the state's (newest) time when a state exists, else the command's"
                            cmdf, statef = td.fields[1], td.fields[2]
                            if has_c:
                                if not (isinstance(cmdf, Enum) and cmdf.vname == "Some" and cmd_ok(cmdf.fields[0])):
                                    bad = "command field must be the newer present command"
                            elif not (isinstance(cmdf, Enum) and cmdf.vname == "None"):
                                bad = "command field must be None"
                            if has_s:
                                if not (isinstance(statef, Enum) and statef.vname == "Some" and state_ok(statef.fields[0])):
                                    bad = "state field must be the mean/only state"
                            elif not (isinstance(statef, Enum) and statef.vname == "None"):
                                bad = "state field must be None"
                    if bad:
                        chk.violation("C09.read", "read:" + case, "Terminal read %s on path %s returns %r: %s" % (case, leaf.pc, g, bad), fn=fn["pretty"], file=loc(fn["span"]))
                        ok = False
    if ok:
        chk.discharge(key)


def run(chk):
    prog = load_config("K1")
    chk.configs.append("K1")
    chk.rule("C09.R1", "field-write index: Terminal's partner link is stored only in new_raw, disconnect, connect")
    chk.rule("C09.connect-no-panic", "connect(a,b), a != b, never panics on any symmetric matching (RefCell borrow states tracked)")
    chk.rule("C09.connect-links", "connect ends with a<->b, former partners unlinked, other links and data unchanged")
    chk.rule("C09.disconnect", "disconnect unlinks both ends, nothing else")
    chk.rule("C09.read", "terminal read tables (mean / newer / combined)")
    sim = S.Sim(prog)
    who_may_write(chk, prog)
    check_links(chk, prog, sim)
    check_reads(chk, prog, sim)
    # same read tables in the release profile (debug_assert! and overflow checks compiled out)
    import report
    p6 = load_config("K6")
    chk.configs.append("K6")
    sub6 = report.Check("C09", chk.tier)
    check_reads(sub6, p6, S.Sim(p6))
    check_links(sub6, p6, S.Sim(p6))
    chk.evaluations += sub6.evaluations
    for v in sub6.violations:
        chk.violation(v["rule"], v["key"] + "@K6", "[release profile] " + v["what"], **v["detail"])
    # a terminal's own slots hold the LAST state / command set: its Settable impls must not override the provided `set`
    import rules.C15 as C15
    subo = report.Check("C09", chk.tier)
    C15.check_no_overrides(subo, prog)
    keyo = "read:own-slot-is-last-set"
    chk.obligation(keyo, "Terminal does not override Settable's provided methods")
    bo = [v for v in subo.violations if "Terminal" in v["key"]]
    for v in bo:
        chk.violation("C09.read", "override:" + v["key"], "a terminal's own state / command is no longer simply the last one set: " + v["what"], **v["detail"])
    if not bo:
        chk.discharge(keyo)
    import selftest
    selftest.expect(chk, "C09", who_may_write, "C09.R1", "a free function storing Terminal's partner link", "writer:rogue_link")
    chk.assume("matching invariant (symmetric, at most one partner) holds before each operation: established inductively by R2 from the constructor, R1 shows no other writer",
               "four cells suffice: connect/disconnect dereference only their arguments and those arguments' partners")
    chk.extra["std_models"] = sorted(sim.stats["models_used"])
    return ("Inductive step of the symmetric-matching invariant decided by abstract interpretation of connect/disconnect on explicit heaps "
            "of RefCell cells (all 10 matchings of 4 cells x argument pairs), with RefCell borrow-state tracking so that a double borrow is a "
            "reported panic; who-may-write rule over the whole crate closes the induction; read tables compared leaf by leaf.")
