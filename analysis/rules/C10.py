"""C10: integral, derivative and to-state streams equal trapezoid sums and difference quotients.

Each stream is abstractly interpreted from its constructor through a chain of 4 present samples (symbolic values, times
and one symbolic input unit); after every update get() is interpreted and its payload turned into a rational function
(engine D) and compared with the reference recurrence written from the documentation:
  staging     absent until enough samples exist (2 for one step, 3 for two);
  values      derivative = (x_k - x_{k-1})/dt; integral += dt (x_{k-1}+x_k)/2; acceleration-to-state double trapezoid;
              velocity-to-state one difference + one trapezoid; position-to-state first and second difference;
  time        output stamped with the newest sample's time;
  units       derivative: input unit / s, integral: input unit * s (symbolic exponents); to-state converters panic exactly
              when the input unit is not the expected one and otherwise build a State without internal unit failures;
  shift       no absolute timestamp is ever converted to float (affine-time typing) => invariance under a constant shift.
Since the per-step recurrence is established from a symbolic predecessor state, longer runs follow by induction.
"""
from values import *
from program import load_config, subst, ty_str, is_adt, prim, AnchorMissing, loc
import sim as S
import streamkit as K
import dimkit as Q
import numkit as N
import algebra as A
from rules.C03 import rel_allowed

TAGS = ["a", "b", "c", "d"]


def sample(sim, prog, tag, unit):
    qty = Q.quantity_ty(prog)
    return Struct(qty, (Sym("v" + tag, prim("f32")), unit))


def sym_unit_struct(sim, prog):
    from program import units_enabled
    if not units_enabled(prog):
        return Struct(Q.unit_ty(prog), ())
    return Q.unit_value(sim, prog, Sym("U.m", prim("i8")), Sym("U.s", prim("i8")))


def dt(a, b):
    return (A.sym("t" + b) - A.sym("t" + a)) / 10**9


def v(tag):
    return A.sym("v" + tag)


def reference(name, k, TAGS=TAGS):
    """Expected payload after k present samples with the given tags (None = absent): dict of sympy exprs."""
    x = [v(t) for t in TAGS]
    if name == "DerivativeStream":
        if k < 2:
            return None
        return {"value": (x[k - 1] - x[k - 2]) / dt(TAGS[k - 2], TAGS[k - 1])}
    if name == "IntegralStream":
        if k < 2:
            return None
        return {"value": sum(dt(TAGS[i - 1], TAGS[i]) * (x[i - 1] + x[i]) / 2 for i in range(1, k))}
    if name == "VelocityToState":
        if k < 2:
            return None
        return {"velocity": x[k - 1], "acceleration": (x[k - 1] - x[k - 2]) / dt(TAGS[k - 2], TAGS[k - 1]),
                "position": sum(dt(TAGS[i - 1], TAGS[i]) * (x[i - 1] + x[i]) / 2 for i in range(1, k))}
    if name == "AccelerationToState":
        if k < 3:
            return None
        vel = [0, 0]   # vel[i] = velocity after sample i (1-based index i >= 2)
        vels = {1: None}
        cur = 0
        for i in range(1, k):
            cur = cur + dt(TAGS[i - 1], TAGS[i]) * (x[i - 1] + x[i]) / 2
            vels[i + 1] = cur
        pos = 0
        for i in range(2, k):
            pos = pos + dt(TAGS[i - 1], TAGS[i]) * (vels[i] + vels[i + 1]) / 2
        return {"acceleration": x[k - 1], "velocity": vels[k], "position": pos}
    if name == "PositionToState":
        if k < 3:
            return None
        vel = lambda i: (x[i - 1] - x[i - 2]) / dt(TAGS[i - 2], TAGS[i - 1])   # velocity after sample i
        return {"position": x[k - 1], "velocity": vel(k), "acceleration": (vel(k) - vel(k - 1)) / dt(TAGS[k - 2], TAGS[k - 1])}
    raise KeyError(name)


UNITS_ON = [True]
EXPECTED_UNIT = {"AccelerationToState": (1, -2), "VelocityToState": (1, -1), "PositionToState": (1, 0)}


def check_stream(chk, prog, sim, name):
    key = "steps:" + name
    chk.obligation(key, "staging, values, time, units, shift invariance of " + name)
    up = prog.find_fn(name="update", self_name=name, trait="Updatable")
    get = prog.find_fn(name="get", self_name=name, trait="Getter")
    chk.analysed(up["pretty"])
    chk.analysed(get["pretty"])
    ug, gg = sim.identity_gargs(up), sim.identity_gargs(get)
    st0, oid, _ = N.fresh_object(sim, prog, name)
    unit = sym_unit_struct(sim, prog)
    ok = True
    is_time = N.time_atom_pred(["t" + t for t in TAGS])
    frontier = [st0]
    saw_unit_panic = False
    for k in range(1, len(TAGS) + 1):
        tag = TAGS[k - 1]
        nxt = []
        for st in frontier:
            for leaf in N.update_with(sim, up, ug, st, oid, "S", tag, value=sample(sim, prog, tag, unit)):
                chk.evaluated(1, nontrivial=(key, k, repr(leaf.pc)))
                if leaf.kind == "unsupported":
                    chk.violation("analysis-incomplete", key, "simulator cannot model %s::update (sample %d): %s" % (name, k, leaf.info["msg"]), site=K.leaf_site(leaf))
                    ok = False
                    continue
                if leaf.kind == "panic":
                    u_ok = name in EXPECTED_UNIT and not (
                        "=" in rel_allowed(sim, leaf.state, Sym("U.m"), Const(EXPECTED_UNIT[name][0])) and "=" in rel_allowed(sim, leaf.state, Sym("U.s"), Const(EXPECTED_UNIT[name][1])))
                    if u_ok:
                        saw_unit_panic = True
                        continue
                    chk.violation("C10.panic", "%s:panic:sample%d" % (key, k), "%s::update panics on a well-dimensioned present sample %d: %s (%s)" % (name, k, leaf.info.get("msg"), K.leaf_site(leaf)),
                                  fn=up["pretty"], file=loc(up["span"]))
                    ok = False
                    continue
                if leaf.kind != "return":
                    chk.violation("C10.panic", "%s:%s" % (key, leaf.kind), "%s::update sample %d: %s %s" % (name, k, leaf.kind, leaf.info.get("msg")), fn=up["pretty"])
                    ok = False
                    continue
                if name in EXPECTED_UNIT and UNITS_ON[0]:
                    eu = EXPECTED_UNIT[name]
                    if not (rel_allowed(sim, leaf.state, Sym("U.m"), Const(eu[0])) <= {"="} and rel_allowed(sim, leaf.state, Sym("U.s"), Const(eu[1])) <= {"="}):
                        chk.violation("C10.units", key + ":gate", "%s::update accepts a sample whose unit may differ from %s (path %s)" % (name, eu, leaf.pc), fn=up["pretty"], file=loc(up["span"]))
                        ok = False
                        continue
                nxt.append(leaf.state)
                # shift invariance of everything stored
                post = sim.final_value(leaf.state, leaf.state.mem[oid])
                bad = N.absolute_time_casts(post, is_time)
                if bad:
                    chk.violation("C10.shift", key + ":absolute-time", "%s::update converts an absolute timestamp to float (%r): results depend on the time origin and lose precision at large uptimes"
                                  % (name, bad[0]), fn=up["pretty"], file=loc(up["span"]))
                    ok = False
                for gl in N.get_on(sim, get, gg, leaf.state, oid):
                    chk.evaluated(1)
                    if gl.kind != "return":
                        rule = "analysis-incomplete" if gl.kind == "unsupported" else "C10.panic"
                        chk.violation(rule, "%s:get:%s" % (key, gl.kind), "%s::get after %d samples: %s %s (%s)" % (name, k, gl.kind, gl.info.get("msg"), K.leaf_site(gl)), fn=get["pretty"])
                        ok = False
                        continue
                    g = K.classify_output(sim, gl.state, gl.value)
                    ref = reference(name, k)
                    if ref is None:
                        if g != ("N",):
                            chk.violation("C10.staging", "%s:early:%d" % (key, k), "%s: get() after %d present sample(s) returns %r, expected absent" % (name, k, g), fn=up["pretty"], file=loc(up["span"]))
                            ok = False
                        continue
                    if not (g and g[0] == "S"):
                        chk.violation("C10.staging", "%s:late:%d" % (key, k), "%s: get() after %d present samples returns %r, expected a value" % (name, k, g), fn=up["pretty"], file=loc(up["span"]))
                        ok = False
                        continue
                    if g[1] != Sym("t" + tag):
                        chk.violation("C10.time", "%s:time:%d" % (key, k), "%s: output after sample %d is stamped %r, not the newest sample's time" % (name, k, g[1]), fn=up["pretty"], file=loc(up["span"]))
                        ok = False
                    payload = g[2]
                    try:
                        if "value" in ref:
                            got = {"value": A.to_sympy(payload.fields[0])}
                            ex = Q.unit_exps(sim, gl.state, payload.fields[1])
                            want = (Sym("U.m"), int_add(Sym("U.s"), Const(-1 if name == "DerivativeStream" else 1)))
                            if UNITS_ON[0] and ex != want:
                                chk.violation("C10.units", "%s:unit:%d" % (key, k), "%s: output unit exponents %r, expected %r" % (name, ex, want), fn=up["pretty"], file=loc(up["span"]))
                                ok = False
                        else:
                            names = [f["name"] for f in prog.adt_by_name("State")["variants"][0]["fields"]]
                            got = {n: A.to_sympy(f) for n, f in zip(names, payload.fields)}
                    except Exception as e:
                        chk.violation("C10.value", "%s:nonarith:%d" % (key, k), "%s: payload after %d samples is not arithmetic: %s" % (name, k, e))
                        ok = False
                        continue
                    lossy = N.lossy_ops(payload)
                    if lossy:
                        chk.violation("C10.value", "%s:lossy:%d" % (key, k), "%s: the value graph contains a truncating integer operation %r (nanoseconds are divided/truncated before the conversion to seconds)" % (name, lossy[0]),
                                      fn=up["pretty"], file=loc(up["span"]))
                        ok = False
                    # conditioning of the difference quotients (see numkit.scaled_absolutes): only for components that are invariant under a
                    # common offset of all samples
                    comp_terms = {"value": payload.fields[0]} if "value" in ref else dict(zip([f["name"] for f in prog.adt_by_name("State")["variants"][0]["fields"]], payload.fields))
                    samples = [v(t) for t in TAGS]
                    off = A.sym("__offset")
                    for comp, e in ref.items():
                        try:
                            invariant = A.equal(e.subs({x: x + off for x in samples}, simultaneous=True), e)
                        except Exception:
                            invariant = False
                        if invariant:
                            sc = N.scaled_absolutes(comp_terms[comp], lambda nm: nm.startswith("v") and nm[1:] in TAGS)
                            if sc:
                                chk.violation("C10.value", "%s:conditioning:%s" % (key, comp), "%s: %s is a difference quotient, but the value graph scales an absolute sample before differencing (%r): "
                                              "the rounding error then grows with |sample| / dt instead of with the difference (catastrophic cancellation for samples large compared with their change per step)"
                                              % (name, comp, sc[0]), fn=up["pretty"], file=loc(up["span"]))
                                ok = False
                    for comp, e in ref.items():
                        if not A.equal(got[comp], e):
                            chk.violation("C10.value", "%s:%s:%d" % (key, comp, k), "%s: %s after %d samples is %s, expected %s" % (name, comp, k, A.show(got[comp]), A.show(e)),
                                          fn=up["pretty"], file=loc(up["span"]))
                            ok = False
                    if len(chk.samples) < 10:
                        chk.sample({"stream": name, "samples": k, "output": {c: A.show(x) for c, x in got.items()}})
        frontier = nxt
        if not ok:
            break      # already failed: later steps only repeat the report and can be very slow on a wrong formula
        if not frontier:
            chk.violation("C10.staging", key + ":stuck", "%s: no returning path after sample %d" % (name, k))
            ok = False
            break
    if name in EXPECTED_UNIT and not saw_unit_panic and UNITS_ON[0]:
        chk.violation("C10.units", key + ":no-unit-check", "%s::update never panics on a wrongly dimensioned sample (dimension checking is enabled in this configuration)" % name,
                      fn=up["pretty"], file=loc(up["span"]))
        ok = False
    if ok:
        chk.discharge(key)


RESETS = {"DerivativeStream": "NE", "IntegralStream": "NE", "AccelerationToState": "E", "VelocityToState": "E", "PositionToState": "E"}


def check_interleaved(chk, prog, sim, name):
    """Runs with an absent / error event in the middle: staging and values restart (reset) or continue (ignored)."""
    key = "events:" + name
    chk.obligation(key, "present samples interleaved with absent / error events: " + name)
    up = prog.find_fn(name="update", self_name=name, trait="Updatable")
    get = prog.find_fn(name="get", self_name=name, trait="Getter")
    ug, gg = sim.identity_gargs(up), sim.identity_gargs(get)
    unit = Q.unit_value(sim, prog, *EXPECTED_UNIT.get(name, (1, 0)))
    ok = True
    for ev in ("E", "N"):
        script = [("S", "a"), ("S", "b"), (ev, "x"), ("S", "c"), ("S", "d")]
        st0, oid, _ = N.fresh_object(sim, prog, name)
        frontier = [st0]
        hist = []
        for cat, tag in script:
            if cat == "S":
                hist.append(tag)
            elif ev in RESETS[name]:
                hist = []
            nxt = []
            for st in frontier:
                for leaf in N.update_with(sim, up, ug, st, oid, cat, tag, value=sample(sim, prog, tag, unit) if cat == "S" else None):
                    chk.evaluated(1, nontrivial=(key, ev, tag, repr(leaf.pc)))
                    if leaf.kind != "return":
                        chk.violation("analysis-incomplete" if leaf.kind == "unsupported" else "C10.panic", "%s:%s" % (key, leaf.kind), "%s with events %s: update %s %s" % (name, script, leaf.kind, leaf.info.get("msg")), fn=up["pretty"])
                        ok = False
                        continue
                    nxt.append(leaf.state)
                    if cat != "S":
                        continue
                    for gl in N.get_on(sim, get, gg, leaf.state, oid):
                        chk.evaluated(1)
                        g = K.classify_output(sim, gl.state, gl.value) if gl.kind == "return" else None
                        ref = reference(name, len(hist), hist + ["_"] * 4)
                        if ref is None:
                            good = g == ("N",)
                        else:
                            good = bool(g) and g[0] == "S" and g[1] == Sym("t" + tag)
                            if good:
                                try:
                                    if "value" in ref:
                                        got = {"value": A.to_sympy(g[2].fields[0])}
                                    else:
                                        names = [f["name"] for f in prog.adt_by_name("State")["variants"][0]["fields"]]
                                        got = {n: A.to_sympy(f) for n, f in zip(names, g[2].fields)}
                                    good = all(A.equal(got[c], e) for c, e in ref.items())
                                except Exception:
                                    good = False
                        if not good:
                            chk.violation("C10.events", "%s:%s:after-%s" % (key, ev, tag), "%s fed %s: after sample %s get() returns %r; expected the result of a run made of samples %s only"
                                          % (name, [c + ":" + t for c, t in script], tag, g, hist), fn=up["pretty"], file=loc(up["span"]))
                            ok = False
            frontier = nxt
            if not ok:
                break      # already failed: later steps only repeat the report and can be very slow on a wrong formula
    if ok:
        chk.discharge(key)


def run(chk):
    prog = load_config("K1")
    chk.configs.append("K1")
    chk.rule("C10.staging", "absent for the first 1 (one-step) or 2 (two-step) samples, present afterwards")
    chk.rule("C10.value", "payload == reference recurrence as rational functions over the reals")
    chk.rule("C10.time", "output time == newest sample time")
    chk.rule("C10.units", "output units U/s, U*s; to-state unit gate panics iff unit differs")
    chk.rule("C10.events", "an absent/error event in the middle of a run resets (or is ignored) as documented: later outputs equal those of the remaining samples alone")
    chk.rule("C10.shift", "affine-time typing: only time differences are converted to float")
    from program import units_enabled
    UNITS_ON[0] = units_enabled(prog)
    sim = S.Sim(prog)
    for name in ("DerivativeStream", "IntegralStream", "AccelerationToState", "VelocityToState", "PositionToState"):
        if not prog.has_adt(name):
            raise AnchorMissing(name)
        check_stream(chk, prog, sim, name)
        check_interleaved(chk, prog, sim, name)
    if True:
        # dimension checking enabled in a release profile (dim_check_release): the unit gates must still be there
        import program as _p
        p7 = _p.load_config("K7")
        chk.configs.append("K7")
        UNITS_ON[0] = units_enabled(p7)
        s7 = S.Sim(p7)
        for name in ("AccelerationToState", "VelocityToState", "PositionToState"):
            before = len(chk.violations)
            check_stream(chk, p7, s7, name)
            for v in chk.violations[before:]:
                v["key"] += "@K7"
                v["what"] = "[release profile with dim_check_release] " + v["what"]
        UNITS_ON[0] = units_enabled(prog)
    # ... and with dimension checking compiled out (K4) the converters must still produce their values (an assertion written with
    # the assume-not-ok family is invisible in K1 and panics on every input there)
    import program as _p4
    p4 = _p4.load_config("K4")
    chk.configs.append("K4")
    UNITS_ON[0] = units_enabled(p4)
    s4 = S.Sim(p4)
    try:
        for name in ("AccelerationToState", "VelocityToState", "PositionToState"):
            before = len(chk.violations)
            check_stream(chk, p4, s4, name)
            for v in chk.violations[before:]:
                v["key"] += "@K4"
                v["what"] = "[dimension checking compiled out] " + v["what"]
    finally:
        UNITS_ON[0] = units_enabled(prog)
    chk.assume("real-arithmetic model: forward error versus an f64 reference is NOT decided",
               "all samples of one run carry the same (symbolic) unit", "reset / absent / error events are C05's obligations; this check covers runs of present samples")
    chk.extra["std_models"] = sorted(sim.stats["models_used"])
    return ("Chained abstract interpretation (constructor, then 4 symbolic present samples) of each stream; get() payloads normalised as rational functions "
            "and compared with reference recurrences; units carried as symbolic exponents; affine-time typing of every int->float cast.")
