"""C02: stateless combinators honour their documented error / absent / present contract; get is pure.

Decides: for every stateless combinator, for every assignment of {Err, None, Some} (booleans split) to its
inputs and every relative order of timestamps, the abstract outcome of `get` computed by the property
simulator from the crate's MIR equals the documented table (spec functions below).  n-ary streams are
instantiated at N = 1..3 (quick) / 1..5 (thorough).  Purity: no path of `get` performs a mutable borrow, a
mutating trait call or a store into *self; `update` of these types is a no-op.
"""
import itertools
from values import *
from program import load_config, subst, ty_str, is_adt, prim, AnchorMissing, loc
import sim as S
import streamkit as K

NARY = {"SumStream": "Add", "ProductStream": "Mul", "Latest": None}
BINARY_FOLD = {"Sum2": "Add", "Product2": "Mul"}
FIRST_SECOND = {"DifferenceStream": "Sub", "QuotientStream": "Div", "ExponentStream": "powf"}
OTHERS = ["Expirer", "IfStream", "IfElseStream", "AndStream", "OrStream", "NotStream", "NoneToError", "NoneToValue",
          "ConstantGetter", "NoneGetter"]
ALL = list(NARY) + list(BINARY_FOLD) + list(FIRST_SECOND) + OTHERS
BOOL_STREAMS = {"AndStream": [0, 1], "OrStream": [0, 1], "NotStream": [0], "IfStream": [0], "IfElseStream": [0]}


def fold(op, vals):
    acc = vals[0]
    for v in vals[1:]:
        acc = Term(op, (acc, v))
    return acc


def first_err(inputs, upto=None):
    for i in (inputs if upto is None else inputs[:upto]):
        if i["cat"] == "E":
            return ("E", i["tag"])
    return None


def kleene_and(a, b):
    if a is False or b is False:
        return False
    if a is None or b is None:
        return None
    return True


def kleene_or(a, b):
    if a is True or b is True:
        return True
    if a is None or b is None:
        return None
    return False


def bval(i):
    return None if i["cat"] == "N" else i["bool"]


def spec(name, inputs, ctx):
    """Documented outcome.  inputs: list of dicts (cat, tag, bool?) in declaration order of the input fields."""
    V = lambda i: Sym("v" + i["tag"])
    present = [i for i in inputs if i["cat"] == "S"]
    if name in ("SumStream", "ProductStream"):
        e = first_err(inputs)
        if e:
            return e
        if not present:
            return ("N",)
        return ("S", ("val", fold(NARY[name], [V(i) for i in present])), ("max", [i["tag"] for i in present]))
    if name == "Latest":
        if not present:
            return ("N",)
        return ("SEL", [i["tag"] for i in present])
    if name in BINARY_FOLD:
        a, b = inputs
        if a["cat"] == "E":
            return ("E", a["tag"])
        if a["cat"] == "N":
            if b["cat"] == "E":
                return ("E", b["tag"])
            if b["cat"] == "N":
                return ("N",)
            return ("S", ("val", V(b)), ("is", b["tag"]))
        if b["cat"] == "E":
            return ("E", b["tag"])
        if b["cat"] == "N":
            return ("S", ("val", V(a)), ("is", a["tag"]))
        return ("S", ("val", Term(BINARY_FOLD[name], (V(a), V(b)))), ("max", [a["tag"], b["tag"]]))
    if name in FIRST_SECOND:
        a, b = inputs
        e = first_err(inputs)
        if e:
            return e
        if a["cat"] == "N":
            return ("N",)
        if b["cat"] == "N":
            return ("S", ("val", V(a)), ("is", a["tag"]))
        return ("S", ("val", Term(FIRST_SECOND[name], (V(a), V(b)))), ("max", [a["tag"], b["tag"]]))
    if name == "NotStream":
        (a,) = inputs
        if a["cat"] == "E":
            return ("E", a["tag"])
        if a["cat"] == "N":
            return ("N",)
        return ("S", ("val", Const(not a["bool"], prim("bool"))), ("is", a["tag"]))
    if name in ("AndStream", "OrStream"):
        e = first_err(inputs)
        if e:
            return e
        a, b = inputs
        r = (kleene_and if name == "AndStream" else kleene_or)(bval(a), bval(b))
        if r is None:
            return ("N",)
        return ("S", ("val", Const(r, prim("bool"))), ("max", [i["tag"] for i in present]))
    if name == "IfStream":
        c, x = inputs
        if c["cat"] == "E":
            return ("E", c["tag"])
        if c["cat"] == "S" and c["bool"]:
            return ("PASS", x)
        return ("N",)
    if name == "IfElseStream":
        c, t, f = inputs
        if c["cat"] == "E":
            return ("E", c["tag"])
        if c["cat"] == "N":
            return ("N",)
        return ("PASS", t if c["bool"] else f)
    if name == "NoneToError":
        (a,) = inputs
        if a["cat"] == "N":
            return ("FROMNONE",)
        return ("PASS", a)
    if name == "NoneToValue":
        a, tg = inputs
        if a["cat"] != "N":
            return ("PASS", a)
        if tg["cat"] == "E":
            return ("E", tg["tag"])
        return ("S", ("val", ctx["payload_field"]), ("is", tg["tag"]))
    if name == "ConstantGetter":
        (tg,) = inputs
        if tg["cat"] == "E":
            return ("E", tg["tag"])
        return ("S", ("val", ctx["payload_field"]), ("is", tg["tag"]))
    if name == "NoneGetter":
        return ("N",)
    if name == "Expirer":
        a, tg = inputs
        if a["cat"] == "E":
            return ("E", a["tag"])
        if a["cat"] == "N":
            return ("N",)
        if tg["cat"] == "E":
            return ("E", tg["tag"])
        return ("EXPIRE", a, tg)
    raise KeyError(name)


def passthrough(i):
    if i["cat"] == "E":
        return ("E", i["tag"])
    if i["cat"] == "N":
        return ("N",)
    v = Const(i["bool"], prim("bool")) if "bool" in i else Sym("v" + i["tag"])
    return ("S", ("val", v), ("is", i["tag"]))


def check_leaf(sim, leaf, exp, ctx):
    """Compare a return leaf with the expected outcome; returns None or a mismatch description."""
    st = leaf.state
    got = K.classify_output(sim, st, leaf.value)
    if got is None:
        return "outcome category undetermined: %r" % (sim.final_value(st, leaf.value),)
    if exp[0] == "PASS":
        exp = passthrough(exp[1])
    if exp[0] == "FROMNONE":
        if got[0] == "E" and isinstance(got[1], Enum) and got[1].vname == "FromNone":
            return None
        return "expected Err(FromNone), got %r" % (got,)
    if exp[0] == "EXPIRE":
        a, tg = exp[1], exp[2]
        age = int_sub(int_sub(Sym("t" + tg["tag"]), Sym("t" + a["tag"])), ctx["max_delta"])
        if isinstance(age, Const):
            allowed = {"<" if age.val < 0 else ("=" if age.val == 0 else ">")}
        else:
            key, flip = sim.canon_int(age)
            allowed = set(sim.int_allowed(st, key))
            if flip:
                allowed = {{"<": ">", ">": "<", "=": "="}[x] for x in allowed}
        if allowed <= {">"}:
            exp = ("N",)
        elif allowed <= {"<", "="}:
            exp = passthrough(a)
        else:
            return "expiry decision not determined by (now - data time) vs limit on this path (allowed=%s)" % sorted(allowed)
    if exp[0] == "E":
        if got[0] == "E" and got[1] == Sym("e" + exp[1]):
            return None
        return "expected Err(e%s), got %r" % (exp[1], got)
    if exp[0] == "N":
        return None if got[0] == "N" else "expected Ok(None), got %r" % (got,)
    if exp[0] == "SEL":
        if got[0] != "S":
            return "expected Some(newest of %s), got %r" % (exp[1], got)
        cands = [Sym("t" + t) for t in exp[1]]
        tags = [t for t in exp[1] if got[1] == Sym("t" + t) and got[2] == Sym("v" + t)]
        if not tags:
            return "selected datum is not one of the present candidates: %r" % (got,)
        if not K.no_candidate_newer(sim, st, got[1], cands):
            return "a strictly newer candidate exists than the selected one (%r)" % (got[1],)
        return None
    if exp[0] == "S":
        if got[0] != "S":
            return "expected Ok(Some(..)), got %r" % (got,)
        pv = exp[1][1]
        gotp = got[2]
        if gotp != sim.final_value(st, pv) and gotp != pv:
            return "payload: expected %r, got %r" % (pv, gotp)
        tr = exp[2]
        cands = [Sym("t" + t) for t in tr[1]] if tr[0] == "max" else [Sym("t" + tr[1])]
        if got[1] not in cands:
            return "timestamp %r is not one of the contributing times %r" % (got[1], cands)
        if not K.no_candidate_newer(sim, st, got[1], cands):
            return "timestamp %r is older than a contributing input" % (got[1],)
        return None
    return "bad spec " + repr(exp)


def run_stream(chk, prog, sim, name, n=None):
    fns = prog.find_fns(name="get", self_name=name, trait="Getter")
    if not fns:
        raise AnchorMissing("Getter::get impl for " + name)
    fn = fns[0]
    consts = {}
    for g in fn["generics"]:
        if g["kind"] == "const":
            consts[g["name"]] = n
    gargs = K.gargs_with_consts(sim, fn, consts)
    self_ty = subst(fn["impl_self"], gargs)
    tag = "%s%s" % (name, "<N=%d>" % n if n is not None else "")
    okey = "table:" + tag
    chk.obligation(okey, "truth table of %s::get" % tag)
    chk.analysed(fn["pretty"])
    order = K.field_order(sim, self_ty)
    found, lazy_leaves = K.discover_inputs(sim, fn, gargs)
    ok = True
    for l in lazy_leaves:
        if l.kind == "unsupported":
            chk.violation("analysis-incomplete", okey, "simulator cannot model a construct in %s: %s" % (tag, l.info["msg"]), site=K.leaf_site(l))
            return
    labels = [l for (l, m, rt) in found]
    for l in labels:
        if l not in order:
            chk.violation("C02.inputs", okey + ":" + l, "%s::get polls an object that is not one of its input fields: %s" % (tag, l))
            ok = False
    inputs = [(l, m, rt) for lab in order for (l, m, rt) in found if l == lab]
    # context for spec
    ctx = {}
    import layout
    fs = [(n_, t_) for n_, t_, _p in layout.leaves(sim, self_ty, stop=("Reference", "Time"))]
    for fname, fty in fs:
        if is_adt(fty, "Time"):
            ctx["max_delta"] = Sym("self.%s.0" % fname, prim("i64"))
        elif fty.get("k") == "param":
            ctx["payload_field"] = Sym("self." + fname, fty)
    # enumerate
    doms = []
    for idx, (l, m, rt) in enumerate(inputs):
        is_time = m.startswith("TimeGetter")
        boolean = (name in BOOL_STREAMS and idx in BOOL_STREAMS[name])
        d = []
        for cat in (("E", "S") if is_time else ("E", "N", "S")):
            if cat == "S" and boolean:
                d.append({"cat": "S", "tag": str(idx), "bool": True})
                d.append({"cat": "S", "tag": str(idx), "bool": False})
            else:
                d.append({"cat": cat, "tag": str(idx)})
        doms.append(d)
    if len(inputs) != len(order) and name not in ("NoneGetter",):
        # some declared input is never polled on any path
        missing = [l for l in order if l not in labels]
        chk.violation("C02.inputs", okey + ":unpolled", "%s::get never polls declared input(s) %s" % (tag, missing))
        ok = False
    ncase = 0
    for combo in itertools.product(*doms):
        assign = {}
        for (l, m, rt), c in zip(inputs, combo):
            a = {"cat": c["cat"], "tag": c["tag"]}
            if "bool" in c:
                a["value"] = Const(c["bool"], prim("bool"))
            assign[(l, m)] = a
        leaves, unexpected, self_obj, init_self = K.run_case(sim, fn, gargs, assign)
        exp = spec(name, list(combo), ctx)
        casekey = ",".join(c["cat"] + ("t" if c.get("bool") is True else "f" if c.get("bool") is False else "") for c in combo)
        for leaf in leaves:
            ncase += 1
            chk.evaluated(1, nontrivial=(tag, casekey, repr(leaf.pc)))
            vkey = "%s[%s]" % (tag, casekey)
            if leaf.kind == "unsupported":
                chk.violation("analysis-incomplete", okey, "simulator cannot model a construct in %s: %s" % (tag, leaf.info["msg"]), site=K.leaf_site(leaf))
                ok = False
                continue
            if leaf.kind in ("panic", "ub"):
                chk.violation("C02.table", vkey, "%s::get %s on inputs [%s]: %s" % (tag, "panics" if leaf.kind == "panic" else "has undefined behaviour", casekey, leaf.info.get("msg")),
                              site=K.leaf_site(leaf), path=leaf.pc)
                ok = False
                continue
            mm = check_leaf(sim, leaf, exp, ctx)
            if mm:
                chk.violation("C02.table", vkey, "%s::get on inputs [%s] (order %s): %s" % (tag, casekey, leaf.pc, mm),
                              fn=fn["pretty"], file=loc(fn["span"]), expected=repr(exp), path=leaf.pc)
                ok = False
            if "max_delta" in ctx:
                lim = ctx["max_delta"].name
                mixed = [a for a in leaf.state.arith if lim in a[1] or lim in a[2]]
                if mixed:
                    chk.violation("C02.table", vkey + ":limit-arithmetic", "%s::get does integer arithmetic on the expiry limit (%s %s %s): the limit is a user parameter whose legitimate values include i64::MAX "
                                  "('never expire'), so it may only be COMPARED with the data age; adding it to a timestamp overflows (panic in debug, data wrongly expired in release)" % ((tag,) + tuple(mixed[0])),
                                  fn=fn["pretty"], file=loc(fn["span"]))
                    ok = False
            # borrow discipline: the inputs are `Reference`s that may alias one Mutex/RwLock/RefCell-backed object (Sum2::new(x.clone(), x)),
            # so a second input must not be borrowed while the guard of another is still alive (self-deadlock / BorrowMutError)
            live = []
            # (only meaningful when the build has a guard-carrying Reference variant; with the bare-pointer variant alone nothing is locked
            # and the borrow value has no drop, so its end is not even visible in the MIR)
            guarded = prog.has_adt("Borrow") and len(prog.adt_by_name("Borrow")["variants"]) > 1
            for e in (leaf.effects if guarded else ()):
                if e[0] in ("ref_borrow", "ref_borrow_mut"):
                    if live:
                        chk.violation("C02.inputs", okey + ":overlapping-borrows", "%s::get borrows input %s while the borrow of %s is still held (inputs [%s]): two inputs may be clones of one lock-backed Reference, "
                                      "for which this never returns; the documented outcome (and agreement with the n-ary sibling) needs one borrow at a time" % (tag, e[1], live[-1], casekey),
                                      fn=fn["pretty"], file=loc(fn["span"]))
                        ok = False
                        break
                    live.append(e[1])
                elif e[0] == "ref_release" and e[1] in live:
                    live.remove(e[1])
            polls = {}
            for e in leaf.effects:
                if e[0] == "call" and e[2].split("::")[-1] == "get":
                    polls[e[1]] = polls.get(e[1], 0) + 1
            twice = sorted(l for l, k in polls.items() if k > 1)
            if twice:
                chk.violation("C02.inputs", okey + ":polled-twice:" + ",".join(twice), "%s::get polls input %s more than once in one call (inputs [%s]): the inputs are external getters, two reads may disagree, "
                              "so the result need not be the documented outcome of any single input assignment" % (tag, twice, casekey), fn=fn["pretty"], file=loc(fn["span"]))
                ok = False
            bad = K.mutating_effects(leaf.effects)
            if bad or (self_obj and sim.final_value(leaf.state, leaf.state.mem.get(self_obj)) != sim.final_value(leaf.state, init_self)):
                chk.violation("C02.pure", tag, "%s::get is not pure: %s" % (tag, bad or "writes to *self"), fn=fn["pretty"])
                ok = False
            if ncase % 7 == 1:
                chk.sample({"stream": tag, "inputs": casekey, "path": [list(p) for p in leaf.pc],
                            "outcome": repr(sim.final_value(leaf.state, leaf.value)), "expected": repr(exp)})
    # update is a no-op
    ups = prog.find_fns(name="update", self_name=name, trait="Updatable")
    for up in ups:
        ug = K.gargs_with_consts(sim, up, consts)
        st = S.State()
        a0 = sim.make_arg(st, "self", subst(up["sig_inputs"][0], ug))
        init = st.mem[a0.ptr.obj]
        ls = sim.run(up, ug, [a0], st)
        for leaf in ls:
            chk.evaluated(1)
            if name == "ConstantGetter":
                continue   # ConstantGetter::update follows a getter (C15); it is not a stream input poll
            got = K.classify_output(sim, leaf.state, leaf.value) if leaf.kind == "return" else None
            if leaf.kind != "return" or got != ("U",) or leaf.effects or leaf.state.mem.get(a0.ptr.obj) != init:
                chk.violation("C02.pure", tag + ":update", "%s::update is not a no-op (kind=%s effects=%s)" % (tag, leaf.kind, leaf.effects[:3]), fn=up["pretty"])
                ok = False
    if ok:
        chk.discharge(okey)


def atoms(v):
    """leaf values of a resolved value (None if it contains a computed term)"""
    if isinstance(v, (Struct, Enum)):
        out = []
        for f in v.fields:
            a = atoms(f)
            if a is None:
                return None
            out += a
        return out
    if isinstance(v, Array):
        out = []
        for f in v.elems:
            a = atoms(f)
            if a is None:
                return None
            out += a
        return out
    if isinstance(v, (Sym, Const)):
        return [v]
    if isinstance(v, Lin):
        if len(v.terms) == 1 and v.terms[0][1] == 1 and v.c == 0 and isinstance(v.terms[0][0], Sym):
            return [v.terms[0][0]]
        return None
    if isinstance(v, Opaque) and v.kind == "PhantomData":
        return []
    return None


def check_constructors(chk, prog, sim):
    """A stateless combinator's documented behaviour is stated in terms of its constructor arguments (the limit of an
    expirer, the replacement of none_to_value, the inputs): `new` must store every argument as given - a normalised,
    clamped or converted argument changes the table although get() is untouched."""
    import numkit as N
    n = 0
    for name in ALL:
        news = [f for f in prog.find_fns(name="new", self_name=name) if not f.get("impl_trait")]
        for new in news:
            n += 1
            key = "ctor:" + name
            chk.obligation(key, "%s::new stores its arguments unmodified" % name)
            chk.analysed(new["pretty"])
            try:
                st0, oid, v0 = N.fresh_object(sim, prog, name, new_fn=new)
            except (S.Unsupported, AnchorMissing) as e:
                chk.violation("analysis-incomplete", key, "%s::new could not be evaluated: %s" % (name, e), fn=new["pretty"], file=loc(new["span"]))
                continue
            chk.evaluated(1, nontrivial=(key, repr(v0)[:80]))
            argn = [x["name"] for x in new["body"]["names"]][:len(new["sig_inputs"])]
            ok = True
            for (fname, fty), fv in zip(sim.adt_fields(v0.ty), v0.fields):
                a = atoms(fv)
                bad = a is None or any(isinstance(x, Sym) and not any(x.name == an or x.name.startswith(an + ".") for an in argn) for x in a)
                if bad:
                    chk.violation("C02.table", "%s:field:%s" % (key, fname), "%s::new stores %r in field `%s`: not the constructor argument as given, so get() no longer follows the documented table for the arguments the caller passed"
                                  % (name, fv, fname), fn=new["pretty"], file=loc(new["span"]))
                    ok = False
            if ok:
                chk.discharge(key)
    if n < 14:
        chk.violation("floor", "C02.ctors", "expected at least 14 constructors of stateless getters, found %d" % n)


def run(chk):
    tier = chk.tier
    prog = load_config("K1")
    chk.configs.append("K1")
    chk.rule("C02.table", "abstract outcome of get == documented table for every input assignment and timestamp order")
    chk.rule("C02.pure", "no mutable borrow, mutating trait call or store on any path of get; update is a no-op")
    chk.rule("C02.inputs", "get polls exactly its declared input fields, each at most once per call")
    sim = S.Sim(prog)
    maxn = 3 if tier == "quick" else 5
    present = 0
    for name in ALL:
        if not prog.has_adt(name):
            raise AnchorMissing("stream type " + name)
        present += 1
        if name in NARY:
            for n in range(1, maxn + 1):
                run_stream(chk, prog, sim, name, n)
        else:
            run_stream(chk, prog, sim, name)
    if present < 18:
        chk.violation("floor", "C02.streams", "expected 18 stateless getters, found %d" % present)
    check_constructors(chk, prog, sim)
    # the exponent stream's operator is the crate's own powf wrapper, one per float provider (table shared with C12)
    from rules import C12
    C12.check_powf_providers(chk)
    chk.assume("inputs are stable within one get (an oracle returns the same outcome when polled twice without an intervening mutation)",
               "generic payload operators (Add/Mul/.. on T) are uninterpreted: equality of provenance terms, not of numbers",
               "Clone of a generic payload is faithful")
    chk.extra["std_models"] = sorted(sim.stats["models_used"])
    chk.extra["sim_steps"] = sim.stats["steps"]
    return ("Abstract interpretation of the MIR of every stateless combinator's get() over the finite domain "
            "{Err(e_i), None, Some(t_i, v_i)} per input (booleans split, timestamp orders forked on demand); each leaf is compared "
            "with the documented table. N-ary streams instantiated at N=1..%d." % maxn)
