"""C16: no safe use of the API reads uninitialised memory, goes out of bounds, or dangles.

  T  MaybeUninit typestate: SumStream/ProductStream::get for N = 1..5 (quick) / 1..8 (thorough) and every absent/present
     pattern, Terminal Getter<State> for all own/partner presence combinations, Axle::new for N = 0..8 are abstractly
     interpreted with Uninit/Init slot typestate and concrete indices; an assume_init / ptr::read of an unwritten slot
     or an out-of-range index is a violation.
  U  unsafe-operation inventory (raw dereferences, calls to unsafe fns, static mut) over the whole crate: every
     operation inside a *safe* fn must be justified by one of the provenance rules below; an unjustified one is a
     violation (fail closed).
  L  lifetime laundering: a safe fn that returns a reference whose lifetime is not tied to the argument it was derived
     from through a raw pointer round trip.
  P  a raw pointer stored in a publicly constructible field must not be dereferenced by a safe fn.
  S  signature rule: a fn that turns a raw pointer / ReferenceUnsafe parameter into a Reference must be `unsafe fn`.
"""
import itertools
from values import *
from program import load_config, subst, ty_str, is_adt, prim, AnchorMissing, loc, const_val
import sim as S
import streamkit as K
import devkit as D
import mirwalk as W


# ---------------------------------------------------------------------------------------------- T

def typestate_nary(chk, prog, sim, name, maxn):
    fn = prog.find_fn(name="get", self_name=name, trait="Getter")
    chk.analysed(fn["pretty"])
    for n in range(1, maxn + 1):
        key = "T:%s<N=%d>" % (name, n)
        chk.obligation(key, "scratch slots of %s::get initialised before use, indices in range, N=%d" % (name, n))
        consts = {g["name"]: n for g in fn["generics"] if g["kind"] == "const"}
        gargs = K.gargs_with_consts(sim, fn, consts)
        self_ty = subst(fn["impl_self"], gargs)
        order = K.field_order(sim, self_ty)
        ok = True
        tfix = None
        for pat in itertools.product("NS", repeat=n):
            assign = {}
            for lab, c in zip(order, pat):
                assign[lab] = {"cat": c, "tag": lab[-2]}
            # all timestamps equal: C16 is about slots, not order (C03 covers order)

            def hook(sim_, st, label, method, args, ret_ty, ver, assign=assign):
                a = assign.get(label)
                if a is None:
                    return None
                # an input polled again within the same get() may answer differently (it is an external getter): the adversarial
                # second answer is the opposite presence category, which is what exposes a count taken from an earlier pass
                k = len([1 for e in st.effects if e[0] == "call" and e[1] == label])
                if k > 1:
                    a = {"cat": "N" if a["cat"] == "S" else "S", "tag": a["tag"] + "'" * (k - 1)}
                ok_ty = ret_ty["args"][0]
                tt = None
                if is_adt(ok_ty, "Option"):
                    dty = ok_ty["args"][0]
                    tty = sim_.adt_fields(dty)[0][1]
                    tt = Struct(tty, (Sym("t", prim("i64")),))
                return K.build_output(sim_, ret_ty, a["cat"], a["tag"], time=tt)
            old = sim.oracle_hook
            sim.oracle_hook = hook
            sim.oracle_fresh = True
            st = S.State()
            a0 = sim.make_arg(st, "self", subst(fn["sig_inputs"][0], gargs))
            try:
                leaves = sim.run(fn, gargs, [a0], st)
            finally:
                sim.oracle_hook = old
                sim.oracle_fresh = False
            for leaf in leaves:
                chk.evaluated(1, nontrivial=(key, "".join(pat)))
                if leaf.kind == "unsupported":
                    chk.violation("analysis-incomplete", key, "simulator cannot model %s N=%d pattern %s: %s" % (name, n, "".join(pat), leaf.info["msg"]), site=K.leaf_site(leaf))
                    ok = False
                elif leaf.kind == "ub" or (leaf.kind == "panic" and ("BoundsCheck" in leaf.info["kind"] or "index" in leaf.info["kind"] or "split_at" in leaf.info["kind"])):
                    chk.violation("C16.T", "%s:%s" % (name, leaf.info["kind"]), "%s::get with N=%d and presence pattern %s: %s (%s)"
                                  % (name, n, "".join(pat), leaf.info.get("msg"), K.leaf_site(leaf)), fn=fn["pretty"], file=loc(leaf.info.get("span")), pattern="".join(pat), N=n)
                    ok = False
                elif leaf.kind == "panic":
                    chk.violation("C16.T", "%s:panic" % name, "%s::get with N=%d pattern %s panics: %s" % (name, n, "".join(pat), leaf.info.get("msg")), fn=fn["pretty"])
                    ok = False
            if len(chk.samples) < 4:
                chk.sample({"fn": name + "::get", "N": n, "pattern": "".join(pat), "leaves": [l.kind for l in leaves]})
        if ok:
            chk.discharge(key)


def typestate_terminal(chk, prog, sim):
    fn = D.terminal_getters(prog)["State"]
    key = "T:Terminal::get<State>"
    chk.obligation(key, "addend slots of the terminal state read")
    chk.analysed(fn["pretty"])
    ok = True
    for own, partner, ps, fol in itertools.product((False, True), (False, True), (False, True), (False, True)):
        if not partner and ps:
            continue

        def hook(sim_, st_, label, method, args, ret_ty, ver):
            return K.build_output(sim_, ret_ty, "S", "f")      # a followed getter, if polled, is present: the worst case for the slot count
        old_hook = sim.oracle_hook
        sim.oracle_hook = hook
        try:
            leaves, h = D.run_terminal_get(sim, prog, fn, own, False, partner, ps, False, following=fol)
        finally:
            sim.oracle_hook = old_hook
        for leaf in leaves:
            chk.evaluated(1, nontrivial=(key, own, partner, ps, fol))
            polls = [e for e in leaf.effects if e[0] == "call" and "followed" in e[1]]
            if polls:
                chk.violation("C16.T", "Terminal::get:polls-followed", "the terminal state read polls the getter the terminal follows (%s): a third state source for a two-slot scratch array" % polls[0][2], fn=fn["pretty"], file=loc(fn["span"]))
                ok = False
            if leaf.kind == "unsupported":
                chk.violation("analysis-incomplete", key, "simulator cannot model terminal state read: %s" % leaf.info["msg"])
                ok = False
            elif leaf.kind in ("ub", "panic"):
                chk.violation("C16.T", "Terminal::get:" + leaf.info["kind"], "terminal state read with own=%s partner=%s partner-state=%s: %s (%s)"
                              % (own, partner, ps, leaf.info.get("msg"), K.leaf_site(leaf)), fn=fn["pretty"])
                ok = False
    if ok:
        chk.discharge(key)


def typestate_axle(chk, prog, sim, maxn):
    fn = prog.find_fn(name="new", self_name="Axle")
    chk.analysed(fn["pretty"])
    for n in range(0, maxn + 1):
        key = "T:Axle::new<N=%d>" % n
        chk.obligation(key, "every element written before the array is read out, N=%d" % n)
        consts = {g["name"]: n for g in fn["generics"] if g["kind"] == "const"}
        gargs = K.gargs_with_consts(sim, fn, consts)
        leaves = sim.run(fn, gargs, [], S.State())
        ok = True
        for leaf in leaves:
            chk.evaluated(1, nontrivial=(key,))
            if leaf.kind == "unsupported":
                chk.violation("analysis-incomplete", key, "simulator cannot model Axle::new N=%d: %s" % (n, leaf.info["msg"]), site=K.leaf_site(leaf))
                ok = False
            elif leaf.kind != "return":
                chk.violation("C16.T", "Axle::new:" + leaf.info["kind"], "Axle::new with N=%d: %s (%s)" % (n, leaf.info.get("msg"), K.leaf_site(leaf)), fn=fn["pretty"])
                ok = False
            else:
                v = sim.final_value(leaf.state, leaf.value)
                def first_array(x):      # the terminal cells, wherever the device keeps them (a private newtype / sub-struct)
                    if isinstance(x, Array):
                        return x
                    if isinstance(x, Struct):
                        for f_ in x.fields:
                            r_ = first_array(f_)
                            if r_ is not None:
                                return r_
                    return None
                arr = first_array(v)
                if not isinstance(arr, Array) or len(arr.elems) != n or any(not (isinstance(e, Opaque) and e.kind == "RefCell") for e in arr.elems):
                    chk.violation("C16.T", "Axle::new:shape", "Axle::new with N=%d does not produce %d initialised terminal cells: %r" % (n, n, v), fn=fn["pretty"])
                    ok = False
        if ok:
            chk.discharge(key)


# ---------------------------------------------------------------------------------------------- U / L / P / S

TYPESTATE_FNS = {("SumStream", "get"), ("ProductStream", "get"), ("Terminal", "get"), ("Axle", "new")}


def has_raw_or_refunsafe(t):
    if t is None:
        return False
    k = t.get("k")
    if k == "ptr":
        return True
    if k == "adt":
        if t["name"] == "ReferenceUnsafe":
            return True
        return any(has_raw_or_refunsafe(a) for a in t["args"] if a.get("k") not in ("region", "const"))
    if k in ("ref", "slice", "array"):
        return has_raw_or_refunsafe(t["ty"])
    if k == "tuple":
        return any(has_raw_or_refunsafe(a) for a in t["tys"])
    return False


def regions_in(t, out):
    if t is None:
        return out
    k = t.get("k")
    if k == "ref":
        out.append(t["region"])
        regions_in(t["ty"], out)
    elif k == "adt":
        for a in t["args"]:
            if a.get("k") == "region":
                out.append(a["r"])
            elif a.get("k") != "const":
                regions_in(a, out)
    elif k in ("ptr", "slice", "array"):
        regions_in(t["ty"], out)
    elif k == "tuple":
        for a in t["tys"]:
            regions_in(a, out)
    return out


def field_is_public(prog, desc):
    name, variant, idx = desc
    for a in prog.adts.values():
        if a["local"] and a["did"].split("::")[-1] == name:
            if not a.get("exported", True):
                return False
            for v in a["variants"]:
                if variant is None or v["name"] == variant:
                    if idx < len(v["fields"]):
                        return v["fields"][idx]["pub"]
    return True


def inventory(chk, prog):
    ops = W.unsafe_ops(prog)
    key = "U:unsafe-inventory"
    chk.obligation(key, "every unsafe operation in a safe fn is justified by a provenance rule")
    ok = True
    counts = {}
    laundering = []
    for fn, kind, d, span in ops:
        site = "%s" % fn["pretty"]
        is_unsafe_fn = bool(fn.get("unsafe"))
        sname = (fn.get("impl_self") or {}).get("name")
        fname = fn["name"]
        if "{closure" in fn.get("did", ""):
            # a closure is analysed as part of the function that contains it (the typestate simulation inlines it)
            parent = prog.fns.get(fn["did"].split("::{closure")[0])
            if parent is not None:
                sname, fname = (parent.get("impl_self") or {}).get("name"), parent["name"]
        cls = None
        if is_unsafe_fn:
            cls = "inside-unsafe-fn (caller's obligation)"
        elif kind == "unsafe-call":
            callee = d["callee"]
            short = callee.split("::")[-1]
            if short in ("assume_init", "read") and (sname, fname) in TYPESTATE_FNS:
                cls = "typestate (discharged by rule T)"
            elif short in ("borrow", "borrow_mut") and "ReferenceUnsafe" in callee and sname == "Reference":
                # receiver must be the private field of Reference
                org = W.flatten_origins(d["arg_origins"][0]) if d["arg_origins"] else set()
                if ("addr", ("Reference", None, 0)) in org and not field_is_public(prog, ("Reference", None, 0)):
                    cls = "safe wrapper over the private payload of Reference (rule S guards construction)"
            elif short.startswith("from_ptr") and ("Reference" in callee):
                org = set()
                for a in d["arg_origins"]:
                    org |= W.flatten_origins(a)
                raw_args = [o for o in org if o[0] == "arg" and has_raw_or_refunsafe(fn["sig_inputs"][o[1] - 1] if o[1] - 1 < len(fn.get("sig_inputs", [])) else None)]
                from_existing = any(o[0] == "load" and o[1] and o[1][0] == "ReferenceUnsafe" for o in org)
                from_static = any(o[0] == "static" for o in org)
                if (from_existing or from_static) and not raw_args:
                    cls = "re-wrapping the pointer of an existing Reference / address of a static"
        elif kind == "raw-deref":
            org = W.flatten_origins(d["origins"])
            loads = [o for o in org if o[0] == "load" and o[1]]
            addrs = [o for o in org if o[0] == "addr"]
            if loads:
                pub = [o for o in loads if field_is_public(prog, o[1])]
                if pub:
                    chk.violation("C16.P", "safe-deref-of-public-raw-field:" + fn["pretty"],
                                  "safe fn %s (%s) dereferences a raw pointer loaded from %s, a field that safe code outside the crate can construct with any pointer"
                                  % (fn["pretty"], loc(span), pub[0][1]), fn=fn["pretty"], file=loc(span))
                    cls = "reported by rule P"
                else:
                    cls = "raw pointer loaded from a private field"
            elif addrs and any(o[0] == "arg" for o in org):
                cls = "pointer derived from a reference argument in the same fn (rule L decides the lifetime)"
                laundering.append((fn, d, span))
        elif kind == "static-mut":
            cls = None
        counts[cls or "UNJUSTIFIED"] = counts.get(cls or "UNJUSTIFIED", 0) + 1
        if cls is None:
            chk.violation("C16.U", "unjustified:%s:%s" % (fn["pretty"], kind + ":" + d.get("callee", "")),
                          "unsafe operation in safe fn %s (%s): %s %s has no provenance justification" % (fn["pretty"], loc(span), kind, d.get("callee", "")),
                          fn=fn["pretty"], file=loc(span))
            ok = False
        chk.evaluated(1, nontrivial=(fn["pretty"], kind, d.get("callee", ""), loc(span)))
    chk.extra["unsafe_ops"] = len(ops)
    chk.extra["unsafe_op_classes"] = counts
    if len(ops) < 30:
        chk.violation("floor", "C16.unsafe-ops", "expected >= 30 unsafe operations in the inventory (counted by hand: 35), found %d" % len(ops))
        ok = False
    if ok:
        chk.discharge(key)
    return laundering


def laundering_rule(chk, prog, cands):
    key = "L:no-lifetime-laundering"
    chk.obligation(key, "no safe fn returns a reference outliving the argument it was derived from via a raw pointer")
    ok = True
    seen = set()
    for fn, d, span in cands:
        if fn["pretty"] in seen:
            continue
        seen.add(fn["pretty"])
        if "sig_inputs" not in fn:
            continue
        out_regions = regions_in(fn["sig_output"], [])
        org = W.flatten_origins(d["origins"])
        args = [o[1] for o in org if o[0] == "arg"]
        bad = False
        for a in args:
            if a - 1 >= len(fn["sig_inputs"]):
                continue
            it = fn["sig_inputs"][a - 1]
            in_regions = [it["region"]] if it.get("k") == "ref" else []
            for orr in out_regions:
                if orr["k"] in ("early", "static"):
                    tied = any(ir["k"] == "early" and ir.get("name") == orr.get("name") for ir in in_regions)
                    if not tied:
                        bad = True
        # does the derefed pointer flow to the return value?  (_0 = &(*ptr) or via a local)
        flows = returns_deref_of(fn["body"], d["local"])
        if bad and flows:
            chk.violation("C16.L", "laundering:" + fn["pretty"],
                          "safe fn %s (%s) returns a reference with lifetime %s derived through a raw pointer from an argument whose borrow is shorter (signature: %s)"
                          % (fn["pretty"], loc(span), [r.get("name", r["k"]) for r in out_regions], fn["sig"]), fn=fn["pretty"], file=loc(span))
            ok = False
        # the same round trip whose result is STORED instead of returned (`a.other = Some(&*(b as *const _))`): the stored reference
        # outlives the caller's borrow of b; no region test is possible on erased MIR, and none is needed - detaching the lifetime
        # is the only thing such a round trip does
        if stores_deref_of(fn["body"], d["local"]):
            chk.violation("C16.L", "laundering-store:" + fn["pretty"],
                          "safe fn %s (%s) re-borrows an argument through a raw pointer and stores the result into memory that outlives the call: the stored reference is no longer tied to the caller's borrow (signature: %s)"
                          % (fn["pretty"], loc(span), fn["sig"]), fn=fn["pretty"], file=loc(span))
            ok = False
        chk.evaluated(1, nontrivial=("laundering", fn["pretty"]))
    if ok:
        chk.discharge(key)


def returns_deref_of(body, ptr_local):
    """True if a reference to (*ptr_local) flows into _0."""
    defs = W.local_defs(body)
    work, seen = [0], set()
    while work:
        l = work.pop()
        if l in seen:
            continue
        seen.add(l)
        for d in defs.get(l, []):
            if d[0] != "rv":
                continue
            rv = d[1]
            if rv["k"] in ("ref", "rawptr"):
                pl = rv["place"]
                if pl["l"] == ptr_local and pl["p"] and pl["p"][0]["k"] == "deref":
                    return True
                work.append(pl["l"])
            elif rv["k"] in ("use", "cast") and rv["op"]["k"] in ("copy", "move"):
                work.append(rv["op"]["place"]["l"])
    return False


def stores_deref_of(body, ptr_local):
    """True if a reference to (*ptr_local) flows (through moves, casts, aggregates such as Some(..)) into a store through a
    dereference - i.e. into memory that outlives this call - or into a call argument together with such memory."""
    # forward closure of locals carrying the reborrowed reference
    carry = set()
    changed = True
    while changed:
        changed = False
        for bb in body["blocks"]:
            if bb["cleanup"]:
                continue
            for st in bb["stmts"]:
                if st["k"] != "assign" or st["place"]["p"]:
                    continue
                rv, dst = st["rv"], st["place"]["l"]
                if dst in carry:
                    continue
                src = None
                if rv["k"] in ("ref", "rawptr"):
                    pl = rv["place"]
                    if (pl["l"] == ptr_local and pl["p"] and pl["p"][0]["k"] == "deref") or (pl["l"] in carry and not pl["p"]) or \
                            (pl["l"] in carry and len(pl["p"]) == 1 and pl["p"][0]["k"] == "deref"):      # reborrow &*r of a carried reference
                        src = True
                elif rv["k"] in ("use", "cast") and rv["op"]["k"] in ("copy", "move") and not rv["op"]["place"]["p"] and rv["op"]["place"]["l"] in carry:
                    src = True
                elif rv["k"] == "aggr" and any(o["k"] in ("copy", "move") and not o["place"]["p"] and o["place"]["l"] in carry for o in rv["ops"]):
                    src = True
                if src:
                    carry.add(dst)
                    changed = True
    for bb in body["blocks"]:
        if bb["cleanup"]:
            continue
        for st in bb["stmts"]:
            if st["k"] == "assign" and any(p["k"] == "deref" for p in st["place"]["p"]):
                ops = W.operands_of_rvalue(st["rv"])
                if any(o["k"] in ("copy", "move") and not o["place"]["p"] and o["place"]["l"] in carry for o in ops):
                    return True
    return False


def signature_rule(chk, prog):
    key = "S:raw-to-Reference-is-unsafe"
    chk.obligation(key, "fns converting a raw pointer / ReferenceUnsafe parameter into a Reference are unsafe fn")
    ok = True
    n = 0
    for f in prog.facts["fns"]:
        if f.get("kind") not in ("Fn", "AssocFn") or "sig_output" not in f:
            continue
        out = f["sig_output"]
        if not (D.find_ty(out, "Reference")):
            continue
        n += 1
        raw_params = [i for i, t in enumerate(f["sig_inputs"]) if has_raw_or_refunsafe(t)]
        chk.evaluated(1, nontrivial=("sig", f["pretty"]))
        if raw_params and not f.get("unsafe") and not f.get("exported", True):
            # a private helper (e.g. `const fn wrap(inner)`) is not reachable from outside the crate: what matters is that every caller is
            # itself an unsafe fn or has no raw-pointer-carrying parameter of its own (then the pointer originates inside the crate and the
            # unsafe-operation inventory judges it)
            idx = W.callers_index(prog)
            callers = [prog.fns.get(c) for c in idx.get(f["did"], ())]
            bad_callers = [c for c in callers if c is not None and not c.get("unsafe") and any(has_raw_or_refunsafe(t) for t in c.get("sig_inputs", []))
                           and not (c.get("name") in ("clone", "from", "into_inner", "borrow", "borrow_mut") and is_adt(c.get("impl_self") or {}, "Reference"))]
            if not bad_callers:
                continue
        if raw_params and not f.get("unsafe"):
            chk.violation("C16.S", "safe-raw-constructor:" + f["pretty"], "safe fn %s (%s) builds a Reference from a raw-pointer-carrying parameter (%s); it must be `unsafe fn`"
                          % (f["pretty"], loc(f["span"]), f["sig"]), fn=f["pretty"], file=loc(f["span"]))
            ok = False
    if n < 8:
        chk.violation("floor", "C16.reference-ctors", "expected >= 8 fns returning Reference, found %d" % n)
        ok = False
    # ... and no safe fn may hand out MUTABLE access to the payload of an existing Reference: `*r.as_inner_mut() = ReferenceUnsafe::Ptr(p)`
    # would rebuild a Reference from a raw pointer without any unsafe code
    def mut_ref_to_payload(t):
        if t is None:
            return False
        k = t.get("k")
        if k == "ref":
            return (bool(t.get("mut")) and has_raw_or_refunsafe(t["ty"]) and D.find_ty(t["ty"], "ReferenceUnsafe") is not None) or mut_ref_to_payload(t["ty"])
        if k in ("ptr", "slice", "array"):
            return mut_ref_to_payload(t["ty"])
        if k == "adt":
            return any(mut_ref_to_payload(a) for a in t["args"] if a.get("k") not in ("region", "const"))
        if k == "tuple":
            return any(mut_ref_to_payload(a) for a in t["tys"])
        return False
    for f in prog.facts["fns"]:
        if f.get("kind") not in ("Fn", "AssocFn") or "sig_output" not in f or f.get("unsafe"):
            continue
        if not any(D.find_ty(t, "Reference") for t in f["sig_inputs"]):
            continue
        chk.evaluated(1, nontrivial=("sig-mut", f["pretty"]))
        if mut_ref_to_payload(f["sig_output"]):
            chk.violation("C16.S", "safe-mutable-payload-access:" + f["pretty"], "safe fn %s (%s) returns a mutable reference to the ReferenceUnsafe payload of a Reference (%s): safe code can overwrite it with a raw-pointer variant and obtain a dangling Reference"
                          % (f["pretty"], loc(f["span"]), f["sig"]), fn=f["pretty"], file=loc(f["span"]))
            ok = False
    # the payload of Reference must be private, otherwise rule S is moot
    if field_is_public(prog, ("Reference", None, 0)):
        chk.violation("C16.S", "Reference-payload-public", "the ReferenceUnsafe payload of Reference is publicly accessible")
        ok = False
    if ok:
        chk.discharge(key)


def macro_expansion_unsafe(chk, prog):
    """X: the unsafe operations that to_dyn! puts into a SAFE downstream function.  Shares the variant-set dataflow of C17.D
    (witness/todyn, analysed with the same driver); here only the memory-safety part counts: a raw-pointer constructor must be
    fed the raw-pointer payload of the same variant (not, say, Arc::as_ptr of an owning variant that is dropped at the end
    of the arm)."""
    import rules.C17 as C17
    import report
    key = "X:to_dyn-expansion-unsafe"
    chk.obligation(key, "unsafe constructor calls inside to_dyn!'s expansion are justified by the payload of the matching variant")
    sub = report.Check("C16", chk.tier)
    C17.to_dyn_expansion(sub, prog)
    chk.evaluated(max(1, sub.n_eval if hasattr(sub, "n_eval") else 1), nontrivial=(key,))
    ok = True
    for v in sub.violations:
        if v["rule"] in ("analysis-incomplete", "floor"):
            chk.violation(v["rule"], key + ":" + v["key"], v["what"])
            ok = False
        elif ":wrong-ctor:" in v["key"] or ":payload:" in v["key"]:
            chk.violation("C16.X", "to_dyn:" + v["key"].split("D:to_dyn-expansion:")[-1], v["what"] + " - in a safe downstream function this hands out a Reference whose pointer is not covered by any constructor's safety contract (dangling once the source is dropped)", **v.get("detail", {}))
            ok = False
    if ok:
        chk.discharge(key)


def macro_unsafe_hygiene(chk, prog):
    """Exported macros: no caller-supplied expression/token fragment may be expanded inside an `unsafe` block of the macro."""
    import re
    key = "M:macro-unsafe-hygiene"
    chk.obligation(key, "exported macros do not evaluate caller expressions inside their own unsafe blocks")
    ok = True
    n = 0
    for name, m in prog.macros.items():
        if not m["exported"]:
            continue
        n += 1
        toks = m["tokens"]
        frags = dict(re.findall(r"\$(\w+)\s*:\s*(\w+)", toks))
        dangerous = {k for k, v in frags.items() if v in ("expr", "tt", "block", "stmt", "ident", "item", "pat", "literal")}
        # scan for `unsafe {` ... matching `}`
        for mt in re.finditer(r"\bunsafe\s*\{", toks):
            depth, i = 1, mt.end()
            while i < len(toks) and depth:
                if toks[i] == "{":
                    depth += 1
                elif toks[i] == "}":
                    depth -= 1
                i += 1
            inner = toks[mt.end():i - 1]
            for v in re.findall(r"\$(\w+)", inner):
                chk.evaluated(1, nontrivial=(key, name, v))
                if v in dangerous:
                    chk.violation("C16.M", "macro-unsafe:%s:%s" % (name, v), "exported macro %s! (%s) expands the caller's `$%s` (%s fragment) inside its own `unsafe` block: a program without any `unsafe` can run unsafe operations through the argument"
                                  % (name, loc(m["span"]), v, frags[v]), macro=name, file=loc(m["span"]))
                    ok = False
    if n < 4:
        chk.violation("floor", "C16.macros", "expected >= 4 exported macros, found %d" % n)
        ok = False
    if ok:
        chk.discharge(key)


def static_reference_expansion(chk):
    """R: `static_reference!` as expanded in a downstream crate (witness/todyn, fn stat::make).  The pointer handed to the unsafe
    Reference::from_ptr must be the address of the expansion's own `static` item itself - reached through address-of, moves and
    pointer casts only - and nothing else in the expansion may receive or write through that address: the object then lives for
    ever and is never replaced, which is the justification of the unsafe call the caller never sees."""
    from rules import C17
    facts, err = C17.todyn_facts(("lockstatics",), None)
    for wname, macro, ctor_name in (("make", "static_reference", "from_ptr"), ("make_rw", "static_rw_lock_reference", "from_ptr_rw_lock"),
                                    ("make_mutex", "static_mutex_reference", "from_ptr_mutex")):
        _static_expansion_one(chk, facts, err, wname, macro, ctor_name)


def _static_expansion_one(chk, facts, err, wname, macro, ctor_name):
    key = "R:%s-expansion" % macro
    chk.obligation(key, "the Reference built by %s! points at the expansion's own static item" % macro)
    if facts is None:
        chk.violation("C16.R", key + ":build", "the downstream witness using %s! does not compile: %s" % (macro, err[-500:]))
        return
    fs = [f for f in facts["fns"] if f["name"] == wname and "body" in f and "stat" in f.get("pretty", f["did"])]
    if len(fs) != 1:
        raise AnchorMissing("witness stat::" + wname)
    body = fs[0]["body"]
    chk.analysed("rrtk_todyn_witness::%s (expansion of %s!)" % (wname, macro))
    defs = {}
    for bb in body["blocks"]:
        for st in bb["stmts"]:
            if st["k"] == "assign" and not st["place"]["p"]:
                defs.setdefault(st["place"]["l"], []).append(st["rv"])
        t = bb["term"]
        if t["k"] == "call" and not t["dest"]["p"]:
            defs.setdefault(t["dest"]["l"], []).append({"k": "callresult", "fn": t["func"].get("fn", {}).get("pretty", "?")})
    calls = [bb["term"] for bb in body["blocks"] if bb["term"]["k"] == "call"]
    ctor = [t for t in calls if t["func"].get("ck") == "fn" and t["func"]["fn"]["name"] == ctor_name and "Reference" in t["func"]["fn"]["pretty"]]
    ok = True
    if len(ctor) != 1:
        chk.violation("C16.R", key + ":shape", "the expansion of %s! calls Reference::%s %d times, expected once" % (macro, ctor_name, len(ctor)))
        return
    statics = set()

    def origin(l, seen):
        """None if local l is the address of a static of the expansion through address-of / moves / pointer casts; else what it is"""
        if l in seen:
            return None
        seen = seen | {l}
        ds = defs.get(l, [])
        if not ds:
            return "local _%d has no definition (an argument?)" % l
        for rv in ds:
            k = rv["k"]
            if k == "use" and rv["op"]["k"] == "const" and rv["op"].get("ck") == "static":
                if not rv["op"].get("local"):
                    return "a static of another crate (%s)" % rv["op"].get("did")
                statics.add(rv["op"]["did"])
                continue
            if k == "use" and rv["op"]["k"] in ("move", "copy") and not rv["op"]["place"]["p"]:
                r = origin(rv["op"]["place"]["l"], seen)
            elif k in ("rawptr", "ref") and [x["k"] for x in rv["place"]["p"]] == ["deref"]:
                r = origin(rv["place"]["l"], seen)
            elif k in ("rawptr", "ref") and not rv["place"]["p"]:
                r = "the address of a local temporary (_%d: a value, not a static item - it dies with the expanding function's frame)" % rv["place"]["l"]
            elif k == "cast" and rv["op"]["k"] in ("move", "copy") and not rv["op"]["place"]["p"] and rv.get("ty", {}).get("k") == "ptr":
                r = origin(rv["op"]["place"]["l"], seen)
            elif k == "callresult":
                r = "the value returned by %s" % rv["fn"]
            else:
                r = "computed by `%s`" % k
            if r is not None:
                return r
        return None
    a = ctor[0]["args"][0]
    why = "a constant" if a["k"] == "const" else ("a projection" if a["place"]["p"] else origin(a["place"]["l"], frozenset()))
    chk.evaluated(1, nontrivial=(key, "origin"))
    if why is not None:
        chk.violation("C16.R", key + ":origin", "%s! hands Reference::%s a pointer that is not the address of its own static item: it is %s; the "
                      "object behind a Reference from this call site can then be replaced, dropped or overwritten while that Reference is alive" % (macro, ctor_name, why),
                      file=loc(ctor[0]["span"]))
        ok = False
    # nothing else touches the static
    derived = set()
    changed = True
    while changed:
        changed = False
        for l, ds in defs.items():
            if l in derived:
                continue
            for rv in ds:
                src = None
                if rv["k"] == "use" and rv["op"]["k"] == "const" and rv["op"].get("ck") == "static":
                    src = True
                elif rv["k"] in ("use", "cast") and rv["op"]["k"] in ("move", "copy"):
                    src = rv["op"]["place"]["l"] in derived
                elif rv["k"] in ("rawptr", "ref"):
                    src = rv["place"]["l"] in derived
                if src:
                    derived.add(l)
                    changed = True
    for bb in body["blocks"]:
        for st in bb["stmts"]:
            if st["k"] == "assign" and st["place"]["p"] and st["place"]["l"] in derived:
                chk.violation("C16.R", key + ":store", "the expansion of %s! writes through the address of its static at run time" % macro, file=loc(st["span"]))
                ok = False
        t = bb["term"]
        if t["k"] == "call" and t is not ctor[0]:
            for a in t["args"]:
                if a["k"] in ("move", "copy") and a["place"]["l"] in derived:
                    chk.violation("C16.R", key + ":escape", "the expansion of %s! passes the address of its static to %s as well" % (macro, t["func"].get("fn", {}).get("pretty", "?")),
                                  file=loc(t["span"]))
                    ok = False
    chk.evaluated(len(body["blocks"]))
    if ok:
        chk.discharge(key)


def run(chk):
    prog = load_config("K1")
    chk.configs.append("K1")
    chk.rule("C16.T", "Uninit/Init typestate of MaybeUninit slots with concrete indices")
    chk.rule("C16.U", "every unsafe operation in a safe fn has a provenance justification")
    chk.rule("C16.L", "no raw-pointer lifetime laundering in safe fns")
    chk.rule("C16.P", "no safe dereference of a raw pointer stored in a publicly constructible field")
    chk.rule("C16.V", "Reference<T> is invariant in T in the feature-less build (compile-fail witness + compiling twin)")
    chk.rule("C16.X", "unsafe constructor calls in the downstream expansion of to_dyn! receive the payload of the same-kind variant of the converted Reference through moves and pointer casts only (the validity invariant established when that Reference was built carries over)")
    chk.rule("C16.M", "exported macros never expand caller-supplied expressions inside their own unsafe blocks")
    chk.rule("C16.S", "raw-pointer -> Reference conversions are unsafe fn; Reference payload private")
    chk.rule("C16.R", "static_reference! builds its Reference from the address of its own static item, which nothing else in the expansion touches")
    sim = S.Sim(prog)
    maxn = 5 if chk.tier == "quick" else 8
    for name in ("SumStream", "ProductStream"):
        typestate_nary(chk, prog, sim, name, maxn)
    typestate_terminal(chk, prog, sim)
    typestate_axle(chk, prog, sim, 8 if chk.tier == "thorough" else 4)
    cands = inventory(chk, prog)
    laundering_rule(chk, prog, cands)
    signature_rule(chk, prog)
    macro_unsafe_hygiene(chk, prog)
    macro_expansion_unsafe(chk, prog)
    import selftest
    def _inv_and_laundering(c, p):
        laundering_rule(c, p, inventory(c, p))
    selftest.expect(chk, "C16", _inv_and_laundering, "C16.L", "an accessor returning &'a T derived from &self through a raw pointer", "get_terminal")
    selftest.expect(chk, "C16", _inv_and_laundering, "C16.L", "a safe fn storing a raw-pointer re-borrow of its argument", "laundering-store:link_laundered")
    selftest.expect(chk, "C16", inventory, "C16.P", "a safe Deref over a public raw-pointer variant", "Borrow")
    selftest.expect(chk, "C16", inventory, "C16.U", "a raw dereference of a pointer argument in a safe fn", "unjustified:unjustified")
    selftest.expect(chk, "C16", signature_rule, "C16.S", "a safe fn building a Reference from *mut T", "from_raw_safe")
    selftest.expect(chk, "C16", signature_rule, "C16.S", "a safe fn returning &mut to a Reference's payload", "payload_mut")
    selftest.expect(chk, "C16", macro_unsafe_hygiene, "C16.M", "an exported macro expanding $e:expr inside unsafe", "bad_macro")
    if chk.tier == "thorough":
        for cfg in ("K2", "K3", "K4"):
            p2 = load_config(cfg)
            chk.configs.append(cfg)
            sub_ops = W.unsafe_ops(p2)
            chk.extra["unsafe_ops_" + cfg] = len(sub_ops)
    static_reference_expansion(chk)
    # a Borrow of a counted / locked Reference must carry the guard, a clone must take its count: otherwise safe code holds a
    # borrow or a Reference past the drop of the object (the table is C17's, evaluated here too)
    from rules import C17
    C17.reference_tables(chk, prog, S.Sim(prog))
    import witness
    # variance of Reference<T> in the feature-less build (only the raw-pointer variant exists there): a compile-fail witness with a
    # compiling twin; a covariant payload (NonNull<T> instead of *mut T) lets safe code shorten Reference<&'static str>
    witness.check(chk, "typelevel_nostd", "C16", "C16.V")
    witness.check(chk, "typelevel", "C17", "C16.V", only=("send_reference_fail", "send_reference_twin", "sync_reference_fail"))
    if chk.tier == "thorough":
        witness.check(chk, "typelevel", "C16", "C16.witness")
    chk.assume("MaybeUninit/slice/pointer std functions behave as modelled", "aliasing of two Ptr References to one static mut is out of scope (documented caveat)")
    chk.extra["std_models"] = sorted(sim.stats["models_used"])
    return ("Typestate simulation of the four MaybeUninit users over all arities/presence patterns in range, plus a crate-wide inventory of unsafe "
            "operations extracted from MIR with intra-procedural pointer provenance; each operation in a safe fn must match a justification rule. "
            "Known findings: 11 lifetime-laundering terminal accessors, 3 safe Deref impls over a publicly constructible raw-pointer variant.")
