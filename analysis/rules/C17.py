"""C17: a Reference, its clones and its to_dyn conversion denote one shared object.

  V  variant tables from MIR of ReferenceUnsafe::{clone, borrow, borrow_mut} (all variants present in the build):
     clone rebuilds the same variant from the same pointer / an Rc::clone / Arc::clone of the same payload (aliasing and
     keep-alive); borrow / borrow_mut return the borrow variant that carries the guard of the matching lock kind taken on
     the payload's target (read lock for borrow of RwLock, write lock for borrow_mut, Mutex lock for both, RefCell
     borrow / borrow_mut), and the guard is still held when the function returns.
  W  Reference::{clone, borrow, borrow_mut} delegate to the ReferenceUnsafe functions on the private payload.
  M  exported-macro hygiene: no cfg(feature = ..) inside the transcriber of a #[macro_export] macro (it is evaluated
     in the calling crate).  to_dyn! had three (defect D4, repaired in a2bc2f4); silent today.
  D  variant-set dataflow over the MIR of a downstream crate that expands to_dyn! (witness/todyn), see to_dyn_expansion.
"""
import re
from values import *
from program import load_config, subst, ty_str, is_adt, prim, AnchorMissing, loc
import sim as S
import report
import streamkit as K
import models as M

CLONE_KEEPALIVE = {"RcRefCell", "ArcRwLock", "ArcMutex"}
BORROW_TABLE = {   # variant -> (Borrow variant, guard kind, via)
    "Ptr": ("Ptr", None), "RcRefCell": ("RefCellRef", "RefGuard"), "PtrRwLock": ("RwLockReadGuard", "read"),
    "PtrMutex": ("MutexGuard", "lock"), "ArcRwLock": ("RwLockReadGuard", "read"), "ArcMutex": ("MutexGuard", "lock"),
}
BORROW_MUT_TABLE = {
    "Ptr": ("Ptr", None), "RcRefCell": ("RefCellRefMut", "RefMutGuard"), "PtrRwLock": ("RwLockWriteGuard", "write"),
    "PtrMutex": ("MutexGuard", "lock"), "ArcRwLock": ("RwLockWriteGuard", "write"), "ArcMutex": ("MutexGuard", "lock"),
}


def variants_of(prog, name):
    return [v["name"] for v in prog.adt_by_name(name)["variants"]]


def run_on_variants(chk, prog, sim, fn, key, table_fn):
    chk.obligation(key, fn["pretty"])
    chk.analysed(fn["pretty"])
    st = S.State()
    gargs = sim.identity_gargs(fn)
    a0 = sim.make_arg(st, "self", subst(fn["sig_inputs"][0], gargs))
    leaves = sim.run(fn, gargs, [a0], st)
    ok = True
    seen = set()
    for leaf in leaves:
        var = [p[2] for p in leaf.pc if p[0] == "variant" and p[1] == "self"]
        var = var[0] if var else "?"
        chk.evaluated(1, nontrivial=(key, var, repr(leaf.pc)))
        if leaf.kind == "unsupported":
            chk.violation("analysis-incomplete", key, "simulator cannot model %s (variant %s): %s" % (fn["pretty"], var, leaf.info["msg"]), site=K.leaf_site(leaf))
            ok = False
            continue
        if leaf.kind == "panic" and any(p[0] == "trycell" and p[2] == "held-elsewhere" for p in leaf.pc):
            continue    # the documented panic of a conflicting RefCell borrow, spelled with try_borrow
        if leaf.kind != "return":
            chk.violation("C17.V", "%s:%s:%s" % (fn["name"], var, leaf.kind), "%s on variant %s: %s %s" % (fn["pretty"], var, leaf.kind, leaf.info.get("msg")), fn=fn["pretty"])
            ok = False
            continue
        seen.add(var)
        msg = table_fn(sim, leaf, var)
        if msg:
            chk.violation("C17.V", "%s:%s" % (fn["name"], var), "%s on variant %s: %s" % (fn["pretty"], var, msg), fn=fn["pretty"], file=loc(fn["span"]))
            ok = False
        chk.sample({"fn": fn["name"], "variant": var, "result": repr(sim.final_value(leaf.state, leaf.value))[:160]}, cap=18)
    allv = set(variants_of(prog, "ReferenceUnsafe"))
    if seen != allv:
        chk.violation("C17.V", "%s:coverage" % fn["name"], "%s does not handle every variant: handled %s of %s" % (fn["pretty"], sorted(seen), sorted(allv)))
        ok = False
    if ok:
        chk.discharge(key)


def check_clone_from(chk, prog, sim):
    """Clone::clone_from is provided (`*self = source.clone()`), so the clone table covers it - unless an impl overrides it.
    An override on ReferenceUnsafe / Reference is interpreted on every (self variant, source variant) pair: afterwards self must
    be the source's variant carrying the source's payload (same object), with a refcount bump for the owning variants."""
    for tname in ("ReferenceUnsafe", "Reference"):
        for fn in prog.find_fns(name="clone_from", self_name=tname, trait="Clone"):
            if "body" not in fn:
                continue
            key = "V:clone_from:" + tname
            chk.obligation(key, "overridden clone_from of %s makes self denote the source's object" % tname)
            chk.analysed(fn["pretty"])
            st = S.State()
            gargs = sim.identity_gargs(fn)
            a0 = sim.make_arg(st, "self", subst(fn["sig_inputs"][0], gargs))
            b0 = sim.make_arg(st, "source", subst(fn["sig_inputs"][1], gargs))
            ok = True
            for leaf in sim.run(fn, gargs, [a0, b0], st):
                chk.evaluated(1, nontrivial=(key, repr(leaf.pc)))
                if leaf.kind != "return":
                    chk.violation("analysis-incomplete" if leaf.kind == "unsupported" else "C17.V", key + ":" + leaf.kind, "%s: %s %s (an overridden clone_from that cannot be shown equal to `*self = source.clone()`)"
                                  % (fn["pretty"], leaf.kind, leaf.info.get("msg")), fn=fn["pretty"], file=loc(fn["span"]))
                    ok = False
                    continue
                fin = sim.final_value(leaf.state, leaf.state.mem[a0.ptr.obj])
                src = sim.final_value(leaf.state, leaf.state.mem[b0.ptr.obj])
                if isinstance(fin, Struct) and len(fin.fields) == 1:
                    fin, src = fin.fields[0], (src.fields[0] if isinstance(src, Struct) and len(src.fields) == 1 else src)
                good = isinstance(fin, Enum) and isinstance(src, Enum) and fin.vname == src.vname and tuple(fin.fields) == tuple(src.fields)
                if not good and isinstance(fin, Enum) and isinstance(src, Enum) and fin.vname == src.vname and len(fin.fields) == 1:
                    # on a path where Rc/Arc::ptr_eq(self payload, source payload) was taken as TRUE the two payloads are the same target
                    pe = "ptr_eq(%s)" % ", ".join(sorted((repr(fin.fields[0]), repr(src.fields[0]))))
                    good = any(p[0] == "bool" and p[1] == pe and p[2] is True for p in leaf.pc)
                if not good:
                    chk.violation("C17.V", "clone_from:%s:%s" % (tname, getattr(src, "vname", "?")), "%s (%s): after a.clone_from(&b) with b = %r, a is %r - it does not denote b's object"
                                  % (fn["pretty"], loc(fn["span"]), src, fin), fn=fn["pretty"], file=loc(fn["span"]))
                    ok = False
            if ok:
                chk.discharge(key)


def clone_table(sim, leaf, var):
    r = sim.final_value(leaf.state, leaf.value)
    if not (isinstance(r, Enum) and r.vname == var):
        return "clone builds variant %s" % (getattr(r, "vname", r),)
    payload = Sym("self.%s.0" % var)
    if r.fields[0] != payload:
        return "clone's payload %r is not the original payload" % (r.fields[0],)
    bumped = any(e[0] == "rc_clone" and e[1] == repr(payload) for e in leaf.effects)
    if var in CLONE_KEEPALIVE and not bumped:
        return "clone copies the %s payload without Rc::clone/Arc::clone (the target may die while a clone exists)" % var
    return None


def mk_borrow_table(table):
    def f(sim, leaf, var):
        r = sim.final_value(leaf.state, leaf.value)
        exp_var, gkind = table[var]
        if not (isinstance(r, Enum) and r.vname == exp_var):
            return "returns borrow variant %s, expected %s" % (getattr(r, "vname", r), exp_var)
        p = r.fields[0]
        if gkind is None:
            return None if p == Sym("self.%s.0" % var) else "pointer payload %r is not the Reference's pointer" % (p,)
        if not isinstance(p, Opaque):
            return "payload %r is not a guard" % (p,)
        if gkind in ("RefGuard", "RefMutGuard"):
            if p.kind != gkind:
                return "guard kind %s, expected %s" % (p.kind, gkind)
            tgt = sim.obj_label(leaf.state, p.data[0])
        else:
            if p.kind != "LockGuard" or p.data[0] != gkind:
                return "lock operation %r, expected %s" % (p, gkind)
            tgt = sim.obj_label(leaf.state, p.data[1])
        if tgt != "*self.%s.0" % var:
            return "guard taken on %s, not on the Reference's target" % tgt
        released = [e for e in leaf.effects if e[0] in ("release", "unlock")]
        if released:
            return "the lock/borrow guard is released before the borrow is returned: %s" % released
        return None
    return f


def check_wrappers(chk, prog, sim):
    key = "W:Reference-delegates"
    chk.obligation(key, "Reference::{clone,borrow,borrow_mut} call the ReferenceUnsafe function of the same name on self.0")
    ok = True
    import mirwalk as W
    for name, tr in (("clone", "Clone"), ("borrow", None), ("borrow_mut", None)):
        fs = prog.find_fns(name=name, self_name="Reference", trait=tr) if tr else [f for f in prog.find_fns(name=name, self_name="Reference") if not f.get("impl_trait")]
        if len(fs) != 1:
            raise AnchorMissing("Reference::" + name)
        fn = fs[0]
        chk.analysed(fn["pretty"])
        callees = []
        for bi, t, fnj, res in W.calls_in(fn["body"]):
            tgt = res["fn"] if res else fnj
            callees.append(tgt)
        good = [c for c in callees if c["name"] == name and is_adt(c.get("impl_self") or {}, "ReferenceUnsafe")]
        chk.evaluated(1, nontrivial=(key, name))
        others = [c for c in callees if c not in good]
        # besides the delegated call only private helpers of Reference itself may appear (e.g. a private `wrap` that builds the tuple struct)
        foreign = [c for c in others if not (c.get("local") and (prog.fns.get(c["did"]) or {}).get("exported", True) is False
                                             and is_adt((prog.fns.get(c["did"]) or {}).get("impl_self") or {}, "Reference"))]
        if len(good) != 1 or foreign:
            chk.violation("C17.W", "Reference::" + name, "Reference::%s must be a single call to ReferenceUnsafe::%s; calls: %s" % (name, name, [c["pretty"] for c in callees]), fn=fn["pretty"], file=loc(fn["span"]))
            ok = False
    if ok:
        chk.discharge(key)


def macro_hygiene(chk, prog):
    key = "M:exported-macro-hygiene"
    chk.obligation(key, "no cfg(feature=..) inside exported macro transcribers")
    ok = True
    n = 0
    for name, m in prog.macros.items():
        if not m["exported"]:
            continue
        n += 1
        toks = re.sub(r"\s+", "", m["tokens"])
        for mt in re.finditer(r"#\[cfg\(((?:[^()]|\([^()]*\))*)\)\]", toks):
            pred = mt.group(1)
            for feat in re.findall(r'feature="([^"]+)"', pred):
                chk.violation("C17.M", "macro-cfg:%s:%s" % (name, feat),
                              "exported macro %s! (%s) contains #[cfg(feature = \"%s\")] in its body; the attribute is evaluated against the CALLING crate's features, so a downstream crate without such a feature falls into the unimplemented!() arm"
                              % (name, loc(m["span"]), feat), macro=name, file=loc(m["span"]))
                ok = False
        chk.evaluated(1, nontrivial=(key, name))
    if n < 4:
        chk.violation("floor", "C17.macros", "expected >= 4 exported macros, found %d" % n)
        ok = False
    if ok:
        chk.discharge(key)


CTOR_OF = {"from_ptr": "Ptr", "from_rc_ref_cell": "RcRefCell", "from_ptr_rw_lock": "PtrRwLock", "from_ptr_mutex": "PtrMutex",
           "from_arc_rw_lock": "ArcRwLock", "from_arc_mutex": "ArcMutex"}
_todyn_cache = {}


def todyn_facts(features, rrtk_dep=None, no_std=False):
    """MIR facts of the downstream expansion witness (witness/todyn), built against /repo with the given features OF THE WITNESS CRATE;
    rrtk_dep optionally replaces the dependency line (to build against another feature set of rrtk itself)."""
    import os, shutil, tempfile, program
    key = (tuple(features), rrtk_dep, no_std)
    if key not in _todyn_cache:
        work = tempfile.mkdtemp(prefix="todyn-", dir=program.tmp_root())
        dst = os.path.join(work, "todyn")
        shutil.copytree(os.path.join(program.VERIF, "witness", "todyn"), dst)
        lock = os.path.join(program.REPO, "Cargo.lock")
        if os.path.exists(lock):
            shutil.copy(lock, os.path.join(dst, "Cargo.lock"))
        if rrtk_dep:
            ct = open(os.path.join(dst, "Cargo.toml")).read()
            assert 'rrtk = { path = "/repo" }' in ct
            open(os.path.join(dst, "Cargo.toml"), "w").write(ct.replace('rrtk = { path = "/repo" }', rrtk_dep))
        if no_std:
            lp = os.path.join(dst, "src", "lib.rs")
            lt = open(lp).read()
            assert "#![allow(unused)]" in lt
            open(lp, "w").write(lt.replace("#![allow(unused)]", "#![allow(unused)]\n#![no_std]", 1))
        program.point_at_repo(os.path.join(dst, "Cargo.toml"))
        res, p = program.run_driver(dst, (["--features", ",".join(features)] if features else []), crates=["rrtk_todyn_witness"])
        shutil.rmtree(work, ignore_errors=True)
        _todyn_cache[key] = (res.get("rrtk_todyn_witness"), p.stderr[-1500:])
    return _todyn_cache[key]


NOFEAT_DEP = 'rrtk = { path = "/repo", default-features = false }'
NOSTD_DEP = 'rrtk = { path = "/repo", default-features = false, features = ["alloc", "libm"] }'


def to_dyn_expansion(chk, prog, nostd_prog=None):
    """D: what to_dyn! expands to in a calling crate.  For every variant the macro family lists, every path of the expansion
    taken by that variant ends in the constructor of the SAME variant applied to the variant's own payload (through pointer
    casts only: same object), and no listed variant can reach a panic; identical whether or not the calling crate declares /
    enables features called alloc and std."""
    import mirwalk as W
    variants = variants_of(prog, "ReferenceUnsafe")
    fam = [m for n, m in prog.macros.items() if n == "to_dyn" or n.startswith("__to_dyn")]
    if not fam:
        raise AnchorMissing("to_dyn! macro")
    listed = sorted({v for m in fam for v in re.findall(r"ReferenceUnsafe\s*::\s*(\w+)\s*\(", m["tokens"])} & set(variants))
    if len(listed) < 3:
        chk.violation("floor", "C17.to_dyn-listed", "to_dyn! lists %s: expected at least Ptr, RcRefCell, PtrRwLock" % listed)
    tables = {}
    all_listed = listed
    builds = [((), None, "caller-features=none"), (("alloc", "std"), None, "caller-features=alloc,std"), ((), "NO_STD_CALLER", "caller-is-no_std")]
    if nostd_prog is not None:
        builds.append(((), NOSTD_DEP, "rrtk-without-std(alloc,libm)"))
        builds.append(((), NOFEAT_DEP, "rrtk-without-features"))
    for feats, dep, tag in builds:
        key = "D:to_dyn-expansion:" + tag
        if dep == NOSTD_DEP:
            variants = variants_of(nostd_prog, "ReferenceUnsafe")
        elif dep == NOFEAT_DEP:
            variants = variants_of(load_config("K5"), "ReferenceUnsafe")
        listed = [v for v in all_listed if v in variants]
        chk.obligation(key, "to_dyn! expansion in a downstream crate (%s): listed variants %s" % (tag, listed))
        if dep == "NO_STD_CALLER":
            facts, err = todyn_facts(feats, None, no_std=True)     # a #![no_std] crate calling the std-enabled rrtk
        else:
            facts, err = todyn_facts(feats, dep)
        if facts is None:
            chk.violation("C17.D", key + ":build", "the downstream witness using to_dyn! does not compile (%s): %s" % (tag, err[-600:]))
            continue
        fns_ = {f["name"]: f for f in facts["fns"] if f["name"] in ("conv", "conv_again") and "body" in f}
        if len(fns_) != 2:
            raise AnchorMissing("witness conv / conv_again")
        # the argument expression is evaluated exactly once (witness conv_expr: the argument is a call to produce())
        ce = [f for f in facts["fns"] if f["name"] == "conv_expr" and "body" in f]
        if len(ce) != 1:
            raise AnchorMissing("witness conv_expr")
        keye = key + ":argument-once"
        chk.obligation(keye, "to_dyn! evaluates its argument expression exactly once (%s)" % tag)
        ncalls = 0
        for bb in ce[0]["body"]["blocks"]:
            t = bb["term"]
            if t["k"] == "call" and t["func"].get("ck") == "fn" and t["func"]["fn"]["name"] == "produce":
                ncalls += 1
        chk.evaluated(1, nontrivial=(keye, ncalls))
        if ncalls != 1:
            chk.violation("C17.D", keye, "to_dyn!(Tr, produce()) calls produce() %d times in its expansion (%s): the converted Reference is the value of another evaluation of the argument, "
                          "not the Reference the caller handed over" % (ncalls, tag))
        else:
            chk.discharge(keye)
        key0, tag0 = key, tag
        for wname in ("conv", "conv_again"):
            body = fns_[wname]["body"]
            if wname != "conv":
                tag = tag0 + ",source-already-dyn"
                key = key0 + ":from-dyn"
                chk.obligation(key, "to_dyn! on a Reference that is already a trait object (%s)" % tag0)
            blocks = body["blocks"]
            defs = W.local_defs(body)
            # aliases of the scrutinee: the result of into_inner and whole-local moves of it
            scrut = set()
            for bb in blocks:
                t = bb["term"]
                if t["k"] == "call" and t["func"].get("ck") == "fn" and t["func"]["fn"]["name"] == "into_inner" and not t["dest"]["p"]:
                    scrut.add(t["dest"]["l"])
            if not scrut:
                chk.violation("C17.D", key + ":shape", "expansion does not call Reference::into_inner")
                continue
            changed = True
            discr_of = {}
            while changed:
                changed = False
                for bb in blocks:
                    for st in bb["stmts"]:
                        if st["k"] != "assign" or st["place"]["p"]:
                            continue
                        rv = st["rv"]
                        if rv["k"] == "use" and rv["op"]["k"] in ("move", "copy") and not rv["op"]["place"]["p"] and rv["op"]["place"]["l"] in scrut and st["place"]["l"] not in scrut:
                            scrut.add(st["place"]["l"])
                            changed = True
                        if rv["k"] == "discr" and not rv["place"]["p"] and rv["place"]["l"] in scrut:
                            discr_of[st["place"]["l"]] = rv["place"]["l"]
            full = frozenset(variants)

            def classify(i):
                t = blocks[i]["term"]
                if t["k"] == "call" and t["func"].get("ck") == "fn":
                    nm = t["func"]["fn"]["name"]
                    pretty = t["func"]["fn"]["pretty"]
                    if nm in CTOR_OF and "Reference" in pretty:
                        return ("ctor", CTOR_OF[nm])
                    if "panic" in pretty:
                        return ("panic", pretty)
                if t["k"] == "unreachable":
                    return ("unreachable", None)
                return None

            def succs(i, vs):
                """successor blocks with the variant set narrowed by discriminant switches on the scrutinee."""
                t = blocks[i]["term"]
                k = t["k"]
                if k == "goto":
                    return [(t["t"], vs)]
                if k == "switch":
                    d = t["discr"]
                    if d["k"] in ("move", "copy") and not d["place"]["p"] and d["place"]["l"] in discr_of:
                        out, taken = [], set()
                        for val, tgt in t["targets"]:
                            name = variants[val] if 0 <= val < len(variants) else None
                            taken.add(name)
                            if name in vs:
                                out.append((tgt, frozenset([name])))
                        rest = frozenset(v for v in vs if v not in taken)
                        if rest and t.get("otherwise") is not None:
                            out.append((t["otherwise"], rest))
                        return out
                    return [(tgt, vs) for _, tgt in t["targets"]] + ([(t["otherwise"], vs)] if t.get("otherwise") is not None else [])
                if k in ("call", "drop", "assert"):
                    nxt = t.get("t")
                    return [(nxt, vs)] if nxt is not None else []
                return []

            def reach(stop_for=None):
                """block -> variants that can enter it; blocks that are constructor calls for variant `stop_for` are not passed through."""
                inn = {0: full}
                work = [0]
                while work:
                    i = work.pop()
                    c = classify(i)
                    if stop_for is not None and c == ("ctor", stop_for):
                        continue
                    for j, vs in succs(i, inn[i]):
                        if blocks[j]["cleanup"]:
                            continue
                        new = inn.get(j, frozenset()) | vs
                        if new != inn.get(j):
                            inn[j] = new
                            work.append(j)
                return inn
            inn = reach()
            ok = True
            table = {}
            for i, vs in sorted(inn.items()):
                c = classify(i)
                if c is None:
                    continue
                t = blocks[i]["term"]
                if c[0] == "ctor":
                    chk.evaluated(1, nontrivial=(key, "ctor", c[1], tuple(sorted(vs))))
                    if vs - {c[1]}:
                        chk.violation("C17.D", "%s:wrong-ctor:%s" % (key, c[1]), "to_dyn! expansion (%s): constructor %s is reached by variant(s) %s: the result does not denote the same kind of reference"
                                      % (tag, t["func"]["fn"]["name"], sorted(vs - {c[1]})), site=loc(t.get("span")))
                        ok = False
                    arg = t["args"][0] if t["args"] else None
                    good = False
                    if arg and arg["k"] in ("move", "copy"):
                        org = W.place_origin(body, arg["place"], defs, 0, set()) if arg["place"]["p"] else W.origins(body, arg["place"]["l"], defs)
                        good = len(org) == 1 and all(o[0] == "load" and o[1] == ("ReferenceUnsafe", c[1], 0) for o in org)
                    if not good:
                        chk.violation("C17.D", "%s:payload:%s" % (key, c[1]), "to_dyn! expansion (%s): the argument of %s is not the %s payload of the converted Reference (through moves and pointer casts only), so the result need not alias the same object"
                                      % (tag, t["func"]["fn"]["name"], c[1]), site=loc(t.get("span")))
                        ok = False
                    for v in vs:
                        table.setdefault(v, set()).add("ctor:" + c[1])
                elif c[0] in ("panic", "unreachable"):
                    chk.evaluated(1, nontrivial=(key, c[0], tuple(sorted(vs))))
                    hit = sorted(set(vs) & set(listed))
                    for v in vs:
                        table.setdefault(v, set()).add("panic")
                    if hit:
                        chk.violation("C17.D", "%s:panics:%s" % (key, ",".join(hit)), "to_dyn! expansion (%s): variant(s) %s listed by the macro reach %s instead of being converted"
                                      % (tag, hit, c[1] or "unreachable"), site=loc(t.get("span")))
                        ok = False
            rets = [i for i, bb in enumerate(blocks) if bb["term"]["k"] == "return" and not bb["cleanup"]]
            for v in listed:
                r2 = reach(stop_for=v)
                chk.evaluated(1, nontrivial=(key, "must-pass", v))
                if any(v in r2.get(i, ()) for i in rets):
                    chk.violation("C17.D", "%s:bypass:%s" % (key, v), "to_dyn! expansion (%s): variant %s can reach the return without passing through its constructor" % (tag, v))
                    ok = False
                if "ctor:" + v not in table.get(v, ()):
                    chk.violation("C17.D", "%s:unconverted:%s" % (key, v), "to_dyn! expansion (%s): no constructor call is reached by listed variant %s" % (tag, v))
                    ok = False
            if not dep and wname == "conv":
                tables[tag] = {v: sorted(x) for v, x in table.items()}
            chk.sample({"to_dyn": tag, "table": {v: sorted(x) for v, x in table.items()}}, cap=30)
            if ok:
                chk.discharge(key)
    if len(tables) == 2:
        a, b = list(tables.values())
        key = "D:to_dyn-expansion:feature-independent"
        chk.obligation(key, "the expansion is the same whether or not the calling crate enables features named alloc/std")
        chk.evaluated(1, nontrivial=(key,))
        if a != b:
            chk.violation("C17.D", key, "to_dyn! expands differently depending on the CALLING crate's features: %s vs %s" % (a, b))
        else:
            chk.discharge(key)


def reference_tables(chk, prog, sim):
    """per-variant tables of clone / borrow / borrow_mut and the delegating wrappers (shared with C16: a borrow without its
    guard, or a clone without its count, outlives the object)"""
    M.LOCAL_MODELS_ENABLED = False
    try:
        clone = prog.find_fn(name="clone", self_name="ReferenceUnsafe", trait="Clone")
        borrow = [f for f in prog.find_fns(name="borrow", self_name="ReferenceUnsafe") if not f.get("impl_trait")]
        borrow_mut = [f for f in prog.find_fns(name="borrow_mut", self_name="ReferenceUnsafe") if not f.get("impl_trait")]
        if len(borrow) != 1 or len(borrow_mut) != 1:
            raise AnchorMissing("ReferenceUnsafe::borrow / borrow_mut")
        run_on_variants(chk, prog, sim, clone, "V:clone", clone_table)
        run_on_variants(chk, prog, sim, borrow[0], "V:borrow", mk_borrow_table(BORROW_TABLE))
        run_on_variants(chk, prog, sim, borrow_mut[0], "V:borrow_mut", mk_borrow_table(BORROW_MUT_TABLE))
        check_wrappers(chk, prog, sim)
        check_clone_from(chk, prog, sim)
    finally:
        M.LOCAL_MODELS_ENABLED = True


def impls_in_every_build(chk):
    """'for every variant available in the build ... any clone': Reference and ReferenceUnsafe are Clone, and ReferenceUnsafe
    converts into Reference, in every feature configuration - an impl gated on a feature leaves the remaining variants of a
    smaller build without clone()."""
    want = [("core::clone::Clone", "Reference<T>"), ("core::clone::Clone", "ReferenceUnsafe<T>")]
    for cfg in ("K1", "K2", "K3", "K5"):
        p = load_config(cfg)
        if cfg not in chk.configs:
            chk.configs.append(cfg)
        key = "I:impls@" + cfg
        chk.obligation(key, "Clone impls of Reference / ReferenceUnsafe exist in configuration " + cfg)
        have = {(re.sub(r"^(std|alloc)::", "core::", i.get("trait")), ty_str(i["self"])) for i in p.impls if i.get("trait")}
        chk.evaluated(len(want), nontrivial=(key,))
        miss = [w for w in want if w not in have]
        for tr, ty in miss:
            chk.violation("C17.V", "impl:%s:%s@%s" % (tr, ty, cfg), "[configuration %s] %s does not implement %s in this build although its variants exist: a Reference cannot be cloned there"
                          % (cfg, ty, tr))
        if not miss:
            chk.discharge(key)


def run(chk):
    prog = load_config("K1")
    chk.configs.append("K1")
    chk.rule("C17.V", "per-variant tables of ReferenceUnsafe::{clone,borrow,borrow_mut}")
    chk.rule("C17.W", "Reference wrappers delegate to the same-named ReferenceUnsafe function")
    chk.rule("C17.M", "no cfg(feature) inside exported macro bodies")
    chk.rule("C17.D", "to_dyn! expansion in a downstream crate (MIR of witness/todyn): each listed variant is rebuilt as the same variant from its own payload through pointer casts only; listed variants never reach unimplemented!(); independent of the caller's features")
    sim = S.Sim(prog)
    reference_tables(chk, prog, sim)
    macro_hygiene(chk, prog)
    impls_in_every_build(chk)
    # static_reference!: the Reference must point at the expansion's own static, initialised once and never replaced (shared with C16)
    from rules import C16
    subs = report.Check("C17", chk.tier)
    C16.static_reference_expansion(subs)
    chk.evaluations += subs.evaluations
    keys_ = "D:static_reference-expansion"
    chk.obligation(keys_, "static_reference! hands out the address of its own, never replaced static (table shared with C16)")
    for v in subs.violations:
        chk.violation("C17.D" if v["rule"].startswith("C16") else v["rule"], "static:" + v["key"], "every clone must keep denoting the same live object: " + v["what"], **v["detail"])
    if not subs.violations:
        chk.discharge(keys_)
    to_dyn_expansion(chk, prog, load_config("K2"))
    chk.configs.append("K2")
    if chk.tier == "thorough":
        # variant sets of the other configurations: tables must hold for whichever variants exist there
        for cfg in ("K2", "K3"):
            p2 = load_config(cfg)
            chk.configs.append(cfg)
            s2 = S.Sim(p2)
            M.LOCAL_MODELS_ENABLED = False
            try:
                c2 = p2.find_fn(name="clone", self_name="ReferenceUnsafe", trait="Clone")
                b2 = [f for f in p2.find_fns(name="borrow", self_name="ReferenceUnsafe") if not f.get("impl_trait")][0]
                bm2 = [f for f in p2.find_fns(name="borrow_mut", self_name="ReferenceUnsafe") if not f.get("impl_trait")][0]
                run_on_variants(chk, p2, s2, c2, "V:clone@" + cfg, clone_table)
                run_on_variants(chk, p2, s2, b2, "V:borrow@" + cfg, mk_borrow_table(BORROW_TABLE))
                run_on_variants(chk, p2, s2, bm2, "V:borrow_mut@" + cfg, mk_borrow_table(BORROW_MUT_TABLE))
            finally:
                M.LOCAL_MODELS_ENABLED = True
    import selftest
    selftest.expect(chk, "C17", macro_hygiene, "C17.M", "an exported macro with #[cfg(feature = ..)] in its body", "bad_macro")
    import witness
    if True:
        witness.check(chk, "typelevel", "C17", "C17.send")
    chk.assume("std Mutex/RwLock/RefCell provide mutual exclusion (no lost update is delegated to them; the tables show the right lock is taken and held)",
               "lock poisoning is not modelled")
    chk.extra["std_models"] = sorted(sim.stats["models_used"])
    return ("Per-variant abstract interpretation of the Reference implementation: clone preserves variant and payload identity with a refcount bump, "
            "borrow/borrow_mut take and return the guard of the matching lock on the payload's target; token-level hygiene rule on exported macros "
            "(D4, to_dyn!'s cfg(feature) attributes, was found by this rule and repaired); the expansion of to_dyn! in a downstream crate is analysed from MIR (variant-set dataflow, four builds). The concurrency clause (no lost update for all schedules) is not decided "
            "beyond 'the std lock is taken and held'.")
