"""C01: dimensional analysis - exponents compose additively, mismatches panic, constants and conversions.

All operator impls on Unit / Quantity (and the mixed forms with Time / DimensionlessInteger) are abstractly interpreted
with SYMBOLIC exponents (integer linear terms) and symbolic f32 values: the result unit must be the documented linear
function of the operand exponents for all exponents at once, the numeric part must be the same f32 operator on the raw
values in operand order, and the panic leaves must be exactly the 'units differ' cases.  Constants are evaluated from
their initialisers and compared with the exponents their names state; conversions are tabulated over the 7x7 grid.
"""
import itertools
from values import *
from program import load_config, subst, ty_str, is_adt, prim, AnchorMissing, loc
import sim as S
import streamkit as K
import devkit as D
import dimkit as Q
from rules.C03 import rel_allowed


def forced_equal(sim, st, x, y):
    return rel_allowed(sim, st, x, y) <= {"="}

def possibly_equal(sim, st, x, y):
    return "=" in rel_allowed(sim, st, x, y)


_UNIT_LEAVES = [None]


def sym_unit(name):
    """the two exponent symbols of a symbolic Unit called `name` (leaf names follow the type's own layout)"""
    if _UNIT_LEAVES[0] is None:
        try:
            p_ = load_config("K1")
            _UNIT_LEAVES[0] = Q.unit_leaf_names(S.Sim(p_), p_) or ["millimeter_exp", "second_exp"]
        except Exception:
            _UNIT_LEAVES[0] = ["millimeter_exp", "second_exp"]
        if len(_UNIT_LEAVES[0]) != 2:
            _UNIT_LEAVES[0] = ["millimeter_exp", "second_exp"]
    return (Sym(name + "." + _UNIT_LEAVES[0][0]), Sym(name + "." + _UNIT_LEAVES[0][1]))


def check_constants(chk, prog, sim):
    key = "a:constants-table"
    chk.obligation(key, "every named unit constant has the exponents its name states; the grid is complete")
    consts = [f for f in prog.facts["fns"] if f["kind"].startswith("Const") and "::constants::" in f["did"] and "body" in f
              and is_adt(f["body"]["locals"][0]["ty"], "Unit")]
    ok = True
    grid = {}
    for f in consts:
        name = f["did"].split("::")[-1]
        leaves = Q.run_simple(sim, f, [])
        chk.evaluated(1, nontrivial=("const", name))
        if len(leaves) != 1 or leaves[0].kind != "return":
            chk.violation("analysis-incomplete", key, "cannot evaluate constant %s: %s" % (name, [l.info for l in leaves][:1]))
            ok = False
            continue
        ex = Q.unit_exps(sim, leaves[0].state, leaves[0].value)
        want = Q.parse_unit_name(name)
        got = tuple(e.val for e in ex) if ex and all(isinstance(e, Const) for e in ex) else None
        if want is None:
            chk.violation("C01.constants", "const-name:" + name, "constant %s does not follow the unit naming grammar" % name, file=loc(f["span"]))
            ok = False
        elif got != want:
            chk.violation("C01.constants", "const:" + name, "constant %s (%s) is Unit::new%s but its name states %s" % (name, loc(f["span"]), got, want), file=loc(f["span"]))
            ok = False
        grid.setdefault(got, []).append(name)
        chk.sample({"constant": name, "exponents": got}, cap=5)
    want_grid = set(itertools.product(range(-3, 4), repeat=2))
    if set(grid) != want_grid or any(len(v) != 1 for v in grid.values()):
        missing = sorted(want_grid - set(grid))
        dup = {k: v for k, v in grid.items() if len(v) > 1}
        chk.violation("C01.constants", "grid", "the constants do not cover the 7x7 exponent grid exactly once (missing %s, duplicated %s)" % (missing, dup))
        ok = False
    if len(consts) < 49:
        chk.violation("floor", "C01.constants", "expected 49 unit constants, found %d" % len(consts))
        ok = False
    # Unit::new maps arg0 -> millimeter exponent, arg1 -> second exponent
    new = [f for f in prog.find_fns(name="new", self_name="Unit") if not f.get("impl_trait")]
    if len(new) != 1:
        raise AnchorMissing("Unit::new")
    ls = Q.run_simple(sim, new[0], [Sym("m", prim("i8")), Sym("s", prim("i8"))])
    ex = Q.unit_exps(sim, ls[0].state, ls[0].value) if ls and ls[0].kind == "return" else None
    if ex != (Sym("m"), Sym("s")):
        chk.violation("C01.constants", "Unit::new", "Unit::new(m, s) does not store (millimeter_exp, second_exp) = (m, s): %r" % (ex,))
        ok = False
    if ok:
        chk.discharge(key)
    return len(consts)


def expected_unit(tr, a, b):
    base = Q.BASE[tr]
    if base == "Mul":
        return (int_add(a[0], b[0]), int_add(a[1], b[1]))
    if base == "Div":
        return (int_sub(a[0], b[0]), int_sub(a[1], b[1]))
    return a


def check_unit_like(chk, sim, imp, tr, fn, is_quantity):
    """Operator impl on Unit or homogeneous Quantity with symbolic operands."""
    tname = "Quantity" if is_quantity else "Unit"
    key = "op:%s" % imp["trait_ref"]
    chk.obligation(key, "unit/value/panic table of " + imp["trait_ref"])
    chk.analysed(fn["pretty"])
    st = S.State()
    gargs = sim.identity_gargs(fn)
    unary = tr == "Neg"
    a0 = sim.make_arg(st, "a", subst(fn["sig_inputs"][0], gargs))
    args = [a0] + ([] if unary else [sim.make_arg(st, "b", subst(fn["sig_inputs"][1], gargs))])
    leaves = sim.run(fn, gargs, args, st)
    ua = sym_unit("a.unit" if is_quantity else "a")
    ub = sym_unit("b.unit" if is_quantity else "b")
    additive = Q.BASE[tr] in ("Add", "Sub")
    ok = True
    for leaf in leaves:
        chk.evaluated(1, nontrivial=(key, repr(leaf.pc)))
        stl = leaf.state
        if leaf.kind == "unsupported":
            chk.violation("analysis-incomplete", key, "simulator cannot model %s: %s" % (imp["trait_ref"], leaf.info["msg"]), site=K.leaf_site(leaf))
            ok = False
            continue
        same = forced_equal(sim, stl, ua[0], ub[0]) and forced_equal(sim, stl, ua[1], ub[1]) if not unary else True
        maybe_same = possibly_equal(sim, stl, ua[0], ub[0]) and possibly_equal(sim, stl, ua[1], ub[1]) if not unary else True
        if leaf.kind == "panic":
            if not additive or maybe_same:
                chk.violation("C01.panic-iff", key, "%s panics on a path where the operand units %s (path %s)" % (imp["trait_ref"], "may be equal" if additive else "are irrelevant", leaf.pc),
                              fn=fn["pretty"], file=loc(fn["span"]), site=K.leaf_site(leaf))
                ok = False
            continue
        if leaf.kind != "return":
            chk.violation("C01.op", key, "%s: %s %s" % (imp["trait_ref"], leaf.kind, leaf.info.get("msg")))
            ok = False
            continue
        if additive and not same:
            chk.violation("C01.panic-iff", key, "%s returns normally although the operand units may differ (path %s)" % (imp["trait_ref"], leaf.pc), fn=fn["pretty"], file=loc(fn["span"]))
            ok = False
            continue
        res = stl.mem[a0.ptr.obj] if tr in Q.OPSA else leaf.value
        res = sim.final_value(stl, res)
        if is_quantity:
            if not (isinstance(res, Struct) and len(res.fields) == 2):
                chk.violation("C01.op", key, "%s: result is not a quantity: %r" % (imp["trait_ref"], res))
                ok = False
                continue
            val, unit = res.fields
            expv = Term(Q.BASE[tr], (Sym("a.value"),) if unary else (Sym("a.value"), Sym("b.value")))
            if val != expv:
                chk.violation("C01.value", key, "%s: numeric part is %r, expected the f32 operator on the raw values in operand order %r" % (imp["trait_ref"], val, expv),
                              fn=fn["pretty"], file=loc(fn["span"]))
                ok = False
            got = Q.unit_exps(sim, stl, unit)
        else:
            got = Q.unit_exps(sim, stl, res)
        exp = expected_unit(tr, ua, ub)
        if got is None or got[0] != exp[0] or got[1] != exp[1]:
            # for additive ops a == b on this path, so either operand's exponents are acceptable
            if not (additive and got is not None and got in (ua, ub)):
                chk.violation("C01.unit", key, "%s: result unit exponents %r, expected %r" % (imp["trait_ref"], got, exp), fn=fn["pretty"], file=loc(fn["span"]))
                ok = False
        chk.sample({"impl": imp["trait_ref"], "path": [list(p) for p in leaf.pc][:3], "result": repr(res)[:120]}, cap=10)
    if additive and not any(l.kind == "panic" for l in leaves):
        chk.violation("C01.panic-iff", key, "%s never panics: a unit mismatch is not rejected" % imp["trait_ref"], fn=fn["pretty"], file=loc(fn["span"]))
        ok = False
    if ok:
        chk.discharge(key)


def converted(sim, prog, st, v, ty):
    """Quantity::from(v) for Time / DimensionlessInteger operands (by simulating the From impl), identity for Quantity."""
    n = ty_str(ty)
    if n == "Quantity":
        return v
    f = Q.find_from(prog, "Quantity", n)
    ls = sim.run(f, sim.identity_gargs(f), [v], st)
    if len(ls) != 1 or ls[0].kind != "return":
        raise ConversionBranches(n, f, [(l.kind, l.info.get("msg"), [p for p in l.pc][:3]) for l in ls])
    return sim.final_value(ls[0].state, ls[0].value), ls[0].state


class ConversionBranches(Exception):
    def __init__(self, n, fn, outcomes):
        Exception.__init__(self, "conversion of %s" % n)
        self.n, self.fn, self.outcomes = n, fn, outcomes


def check_mixed(chk, prog, sim, imp, tr, fn):
    """Mixed-operand impl yielding a Quantity must equal the Quantity operator applied after converting the operands."""
    key = "mixed:%s" % imp["trait_ref"]
    chk.obligation(key, "delegation agreement of " + imp["trait_ref"])
    chk.analysed(fn["pretty"])
    gargs = sim.identity_gargs(fn)
    lt = imp["trait_args"][0]
    rt = imp["trait_args"][1] if len(imp["trait_args"]) > 1 else lt
    base = Q.BASE[tr]
    st = S.State()
    a0 = sim.make_arg(st, "a", subst(fn["sig_inputs"][0], gargs))
    b0 = sim.make_arg(st, "b", subst(fn["sig_inputs"][1], gargs))
    leaves = sim.run(fn, gargs, [a0, b0], st)
    got = set()
    for l in leaves:
        if l.kind == "unsupported":
            chk.violation("analysis-incomplete", key, "simulator cannot model %s: %s" % (imp["trait_ref"], l.info["msg"]), site=K.leaf_site(l))
            return
        got.add(Q.leaf_outcome(sim, l, (lambda lf: lf.state.mem[a0.ptr.obj]) if tr in Q.OPSA else None))
        chk.evaluated(1, nontrivial=(key, repr(l.pc)))
    # reference: homogeneous Quantity operator on converted operands
    qop = [x for x in Q.ops_impls(prog, ("Quantity",)) if x[1] == (tr.replace("Assign", "")) and ty_str(x[0]["trait_args"][1]) == "Quantity"]
    if len(qop) != 1:
        raise AnchorMissing("homogeneous Quantity %s" % tr)
    qfn = qop[0][2]
    st2 = S.State()
    av, bv = Sym("a", lt), Sym("b", rt)
    try:
        r = converted(sim, prog, st2, av, lt)
        if isinstance(r, tuple):
            av, st2 = r[0], r[1].copy()
            st2.frames = []
        r = converted(sim, prog, st2, bv, rt)
        if isinstance(r, tuple):
            bv, st2 = r[0], r[1].copy()
            st2.frames = []
    except ConversionBranches as e:
        unsup = any(o[0] == "unsupported" for o in e.outcomes)
        chk.violation("analysis-incomplete" if unsup else "C01.value", key + ":conversion", "Quantity::from(%s) is not a single total conversion (it %s): %s"
                      % (e.n, "could not be modelled" if unsup else "branches or can panic depending on the value", e.outcomes[:3]), fn=e.fn["pretty"], file=loc(e.fn["span"]))
        return
    ref = set()
    for l in sim.run(qfn, sim.identity_gargs(qfn), [av, bv], st2):
        ref.add(Q.leaf_outcome(sim, l))
        chk.evaluated(1)
    strip = lambda s: {(k, v) for (k, v, pc) in s}
    if strip(got) != strip(ref):
        chk.violation("C01.delegation", key, "%s does not equal the Quantity operator applied after converting the operands: got %s, expected %s"
                      % (imp["trait_ref"], sorted(strip(got))[:2], sorted(strip(ref))[:2]), fn=fn["pretty"], file=loc(fn["span"]))
        return
    chk.discharge(key)


def check_partial_ord(chk, prog, sim):
    key = "f:Quantity-partial_cmp"
    chk.obligation(key, "ordering quantities panics iff units differ, otherwise compares the raw values in order")
    fn = prog.find_fn(name="partial_cmp", self_name="Quantity", trait="PartialOrd")
    chk.analysed(fn["pretty"])
    st = S.State()
    gargs = sim.identity_gargs(fn)
    a0 = sim.make_arg(st, "a", subst(fn["sig_inputs"][0], gargs))
    b0 = sim.make_arg(st, "b", subst(fn["sig_inputs"][1], gargs))
    ua, ub = sym_unit("a.unit"), sym_unit("b.unit")
    ok = True
    npanic = 0
    for leaf in sim.run(fn, gargs, [a0, b0], st):
        chk.evaluated(1, nontrivial=(key, repr(leaf.pc)))
        stl = leaf.state
        same = forced_equal(sim, stl, ua[0], ub[0]) and forced_equal(sim, stl, ua[1], ub[1])
        maybe_same = possibly_equal(sim, stl, ua[0], ub[0]) and possibly_equal(sim, stl, ua[1], ub[1])
        if leaf.kind == "panic":
            npanic += 1
            if maybe_same:
                chk.violation("C01.panic-iff", key, "partial_cmp panics although units may be equal (path %s)" % (leaf.pc,), fn=fn["pretty"])
                ok = False
            continue
        if leaf.kind != "return":
            chk.violation("analysis-incomplete" if leaf.kind == "unsupported" else "C01.op", key, "partial_cmp: %s %s" % (leaf.kind, leaf.info.get("msg")))
            ok = False
            continue
        if not same:
            chk.violation("C01.panic-iff", key, "partial_cmp returns although units may differ (path %s)" % (leaf.pc,), fn=fn["pretty"], file=loc(fn["span"]))
            ok = False
        fre = [p for p in leaf.pc if p[0] == "frel"]
        r = sim.final_value(stl, leaf.value)
        want = None
        for p in fre:
            if p[1] == "a.value ? b.value":
                want = {"<": "Less", "=": "Equal", ">": "Greater", "U": None}.get(p[2], "?")
            elif p[1] == "b.value ? a.value":
                want = {"<": "Greater", "=": "Equal", ">": "Less", "U": None}.get(p[2], "?")
        gotn = None if (isinstance(r, Enum) and r.vname == "None") else (r.fields[0].vname if isinstance(r, Enum) and r.fields else "?")
        if not fre or want == "?" or gotn != want:
            chk.violation("C01.op", key, "partial_cmp result %r does not follow the f32 comparison of the raw values in order (path %s)" % (r, leaf.pc), fn=fn["pretty"], file=loc(fn["span"]))
            ok = False
    if npanic == 0:
        chk.violation("C01.panic-iff", key, "partial_cmp never panics: ordering mismatched units is not rejected", fn=fn["pretty"], file=loc(fn["span"]))
        ok = False
    if ok:
        chk.discharge(key)


def check_ord_overrides(chk, prog, sim):
    """`<`, `<=`, `>`, `>=` on quantities go through PartialOrd::{lt,le,gt,ge}; when the impl overrides any of them (instead of
    inheriting the provided methods, which call partial_cmp) each override must itself panic iff the units differ and be
    the f32 comparison of the raw values."""
    table = {"lt": {"<"}, "le": {"<", "="}, "gt": {">"}, "ge": {">", "="}}
    ua, ub = sym_unit("a.unit"), sym_unit("b.unit")
    for name, truth in table.items():
        fns = prog.find_fns(name=name, self_name="Quantity", trait="PartialOrd")
        for fn in fns:
            if "body" not in fn:
                continue
            key = "f:Quantity-" + name
            chk.obligation(key, "overridden PartialOrd::%s panics iff units differ, otherwise compares the raw values" % name)
            chk.analysed(fn["pretty"])
            st = S.State()
            gargs = sim.identity_gargs(fn)
            a0 = sim.make_arg(st, "a", subst(fn["sig_inputs"][0], gargs))
            b0 = sim.make_arg(st, "b", subst(fn["sig_inputs"][1], gargs))
            ok = True
            npanic = 0
            for leaf in sim.run(fn, gargs, [a0, b0], st):
                chk.evaluated(1, nontrivial=(key, repr(leaf.pc)))
                stl = leaf.state
                same = forced_equal(sim, stl, ua[0], ub[0]) and forced_equal(sim, stl, ua[1], ub[1])
                maybe_same = possibly_equal(sim, stl, ua[0], ub[0]) and possibly_equal(sim, stl, ua[1], ub[1])
                if leaf.kind == "panic":
                    npanic += 1
                    if maybe_same:
                        chk.violation("C01.panic-iff", key, "%s panics although units may be equal (path %s)" % (name, leaf.pc), fn=fn["pretty"])
                        ok = False
                    continue
                if leaf.kind != "return":
                    chk.violation("analysis-incomplete" if leaf.kind == "unsupported" else "C01.op", key, "%s: %s %s" % (name, leaf.kind, leaf.info.get("msg")))
                    ok = False
                    continue
                if not same:
                    chk.violation("C01.panic-iff", key, "Quantity %s Quantity (PartialOrd::%s, %s) returns although the units may differ (path %s): ordering mismatched units is not rejected by this operator"
                                  % ({"lt": "<", "le": "<=", "gt": ">", "ge": ">="}[name], name, loc(fn["span"]), leaf.pc), fn=fn["pretty"], file=loc(fn["span"]))
                    ok = False
                    continue
                r = sim.final_value(stl, leaf.value)
                rel = None
                for p in leaf.pc:
                    if p[0] == "frel" and p[1] == "a.value ? b.value":
                        rel = set(p[2])
                    elif p[0] == "frel" and p[1] == "b.value ? a.value":
                        rel = {{"<": ">", ">": "<"}.get(c, c) for c in p[2]}
                if rel is None or not isinstance(r, Const):
                    chk.violation("C01.op", key, "%s result %r is not decided by the f32 comparison of the raw values (path %s)" % (name, r, leaf.pc), fn=fn["pretty"], file=loc(fn["span"]))
                    ok = False
                    continue
                if (bool(r.val) and not rel <= truth) or (not bool(r.val) and rel & truth):
                    chk.violation("C01.op", key, "%s returns %s when a.value %s b.value" % (name, r.val, "".join(sorted(rel))), fn=fn["pretty"], file=loc(fn["span"]))
                    ok = False
            if npanic == 0:
                chk.violation("C01.panic-iff", key, "%s never panics: ordering mismatched units is not rejected" % name, fn=fn["pretty"], file=loc(fn["span"]))
                ok = False
            if ok:
                chk.discharge(key)


def check_two_quantity_api(chk, prog, sim):
    """Every exported fn of the crate that takes two Quantity operands (whatever its name: an inherent `max`, a helper...) is a way
    to combine or order two quantities, so it must panic iff the units differ - except multiplication / division (units legitimately
    differ) and equality (a unit mismatch is simply 'not equal')."""
    key = "h:two-quantity-api"
    chk.obligation(key, "no exported fn combines or orders two quantities without requiring equal units")
    ok = True
    n = 0
    ua, ub = sym_unit("a.unit"), sym_unit("b.unit")

    def is_q(t):
        return ty_str(t) == "Quantity" or (t.get("k") == "ref" and ty_str(t["ty"]) == "Quantity")
    for f in prog.facts["fns"]:
        if f.get("kind") not in ("Fn", "AssocFn") or "body" not in f or not f.get("exported", True) or f.get("unsafe"):
            continue
        ins = f.get("sig_inputs", [])
        if len(ins) != 2 or not all(is_q(t) for t in ins):
            continue
        tr = (f.get("impl_trait") or "").split("::")[-1]
        if tr in ("Mul", "Div", "MulAssign", "DivAssign", "PartialEq"):
            continue
        n += 1
        st = S.State()
        gargs = sim.identity_gargs(f)
        a0 = sim.make_arg(st, "a", subst(ins[0], gargs))
        b0 = sim.make_arg(st, "b", subst(ins[1], gargs))
        for leaf in sim.run(f, gargs, [a0, b0], st):
            chk.evaluated(1, nontrivial=(key, f["pretty"], repr(leaf.pc)))
            if leaf.kind == "unsupported":
                chk.violation("analysis-incomplete", key + ":" + f["pretty"], "cannot model %s: %s" % (f["pretty"], leaf.info.get("msg")))
                ok = False
                break
            if leaf.kind != "return":
                continue
            same = forced_equal(sim, leaf.state, ua[0], ub[0]) and forced_equal(sim, leaf.state, ua[1], ub[1])
            if not same:
                chk.violation("C01.panic-iff", "two-quantity-api:" + f["pretty"], "%s (%s) takes two quantities and returns normally although their units may differ: quantities of different units are combined / ordered without a panic"
                              % (f["pretty"], loc(f["span"])), fn=f["pretty"], file=loc(f["span"]))
                ok = False
                break
    chk.extra["two_quantity_fns"] = n
    if n < 5:
        chk.violation("floor", "C01.two-quantity-fns", "expected >= 5 exported fns with two Quantity operands (Add, Sub, their assign forms, partial_cmp), found %d" % n)
        ok = False
    if ok:
        chk.discharge(key)


def check_piece_conversions(chk, prog, sim, rule, key, want, tag=""):
    """MotionProfilePiece -> PositionDerivative / Unit: defined exactly for the three moving pieces (shared with C06, which
    also evaluates it with dimension checking compiled out, where only the presence pattern remains)."""
    from program import units_enabled
    ok = True
    mp = prog.adt_by_name("MotionProfilePiece")
    mty = {"k": "adt", "did": mp["did"], "name": "MotionProfilePiece", "args": []}
    tp = Q.find_try_from(prog, "PositionDerivative", "MotionProfilePiece")
    tu = Q.find_try_from(prog, "Unit", "MotionProfilePiece")
    wantp = {"BeforeStart": None, "InitialAcceleration": "Acceleration", "ConstantVelocity": "Velocity", "EndAcceleration": "Acceleration", "Complete": None}
    for vn, w in wantp.items():
        for fnx, kind in ((tp, "pd"), (tu, "unit")):
            if fnx is None:
                raise AnchorMissing("TryFrom<MotionProfilePiece>")
            ls = Q.run_simple(sim, fnx, [sim.mk_enum(mty, vn)])
            chk.evaluated(1, nontrivial=(key, "piece", kind, vn, tag))
            r = sim.final_value(ls[0].state, ls[0].value) if len(ls) == 1 and ls[0].kind == "return" else None
            if w is None:
                good = isinstance(r, Enum) and r.vname == "Err"
            elif kind == "pd":
                good = isinstance(r, Enum) and r.vname == "Ok" and r.fields[0].vname == w
            elif not units_enabled(prog):
                good = isinstance(r, Enum) and r.vname == "Ok"
            else:
                ex = Q.unit_exps(sim, ls[0].state, r.fields[0]) if isinstance(r, Enum) and r.vname == "Ok" else None
                good = ex is not None and tuple(getattr(e, "val", None) for e in ex) == want[w]
            if not good:
                chk.violation(rule, "piece:%s:%s%s" % (kind, vn, tag), "%sconversion of MotionProfilePiece::%s to %s gives %r (defined exactly for the three moving pieces)" % (("[%s] " % tag.strip("@")) if tag else "", vn, kind, r),
                              fn=fnx["pretty"], file=loc(fnx["span"]))
                ok = False
    return ok


def check_conversions(chk, prog, sim):
    key = "g:conversions"
    chk.obligation(key, "position/velocity/acceleration <-> mm, mm/s, mm/s^2 in both directions; everything else rejected")
    ok = True
    pd = prog.adt_by_name("PositionDerivative")
    pdty = {"k": "adt", "did": pd["did"], "name": "PositionDerivative", "args": []}
    want = {"Position": (1, 0), "Velocity": (1, -1), "Acceleration": (1, -2)}
    f = Q.find_from(prog, "Unit", "PositionDerivative")
    chk.analysed(f["pretty"])
    for vn, w in want.items():
        ls = Q.run_simple(sim, f, [sim.mk_enum(pdty, vn)])
        chk.evaluated(1, nontrivial=(key, "pd->unit", vn))
        ex = Q.unit_exps(sim, ls[0].state, ls[0].value) if len(ls) == 1 and ls[0].kind == "return" else None
        got = tuple(e.val for e in ex) if ex and all(isinstance(e, Const) for e in ex) else None
        if got != w:
            chk.violation("C01.conversion", "Unit::from(%s)" % vn, "Unit::from(PositionDerivative::%s) = %s, expected %s" % (vn, got, w), fn=f["pretty"], file=loc(f["span"]))
            ok = False
    inv = {v: k for k, v in want.items()}
    tf = Q.find_try_from(prog, "PositionDerivative", "Unit")
    tq = Q.find_try_from(prog, "Command", "Quantity")
    qty = Q.quantity_ty(prog)
    grid = list(itertools.product(range(-3, 4), repeat=2)) + [(1, -3), (4, 0), (1, 60), (-60, -2)]
    for (m, s) in grid:
        u = Q.unit_value(sim, prog, m, s)
        if tf:
            ls = Q.run_simple(sim, tf, [u])
            chk.evaluated(1, nontrivial=(key, "unit->pd", m, s))
            r = sim.final_value(ls[0].state, ls[0].value) if len(ls) == 1 and ls[0].kind == "return" else None
            exp = inv.get((m, s))
            good = isinstance(r, Enum) and ((exp and r.vname == "Ok" and r.fields[0].vname == exp) or (not exp and r.vname == "Err"))
            if not good:
                chk.violation("C01.conversion", "PositionDerivative::try_from(%d,%d)" % (m, s), "PositionDerivative::try_from(Unit(%d,%d)) = %r, expected %s" % (m, s, r, exp or "Err"),
                              fn=tf["pretty"], file=loc(tf["span"]))
                ok = False
        if tq:
            q = Struct(qty, (Sym("x", prim("f32")), u))
            ls = Q.run_simple(sim, tq, [q])
            chk.evaluated(1, nontrivial=(key, "quantity->command", m, s))
            r = sim.final_value(ls[0].state, ls[0].value) if len(ls) == 1 and ls[0].kind == "return" else None
            exp = inv.get((m, s))
            good = isinstance(r, Enum) and ((exp and r.vname == "Ok" and r.fields[0].vname == exp and r.fields[0].fields[0] == Sym("x")) or (not exp and r.vname == "Err"))
            if not good:
                chk.violation("C01.conversion", "Command::try_from(%d,%d)" % (m, s), "Command::try_from(Quantity(x, Unit(%d,%d))) = %r, expected %s" % (m, s, r, exp or "Err"),
                              fn=tq["pretty"], file=loc(tq["span"]))
                ok = False
    # Command -> Quantity
    fc = Q.find_from(prog, "Quantity", "Command")
    cmd = prog.adt_by_name("Command")
    cty = {"k": "adt", "did": cmd["did"], "name": "Command", "args": []}
    for vn, w in want.items():
        ls = Q.run_simple(sim, fc, [sim.mk_enum(cty, vn, [Sym("x", prim("f32"))])])
        chk.evaluated(1, nontrivial=(key, "command->quantity", vn))
        r = sim.final_value(ls[0].state, ls[0].value) if len(ls) == 1 and ls[0].kind == "return" else None
        ex = Q.unit_exps(sim, ls[0].state, r.fields[1]) if isinstance(r, Struct) and len(r.fields) == 2 else None
        got = tuple(e.val for e in ex) if ex and all(isinstance(e, Const) for e in ex) else None
        if not (isinstance(r, Struct) and r.fields[0] == Sym("x") and got == w):
            chk.violation("C01.conversion", "Quantity::from(Command::%s)" % vn, "Quantity::from(Command::%s(x)) = %r, expected (x, %s)" % (vn, r, w), fn=fc["pretty"], file=loc(fc["span"]))
            ok = False
    # MotionProfilePiece -> PositionDerivative -> Unit
    if not check_piece_conversions(chk, prog, sim, "C01.conversion", key, want):
        ok = False
    if ok:
        chk.discharge(key)


def check_eq_helpers(chk, prog, sim):
    key = "c:unit-equality-helpers"
    chk.obligation(key, "const_eq / eq_assume_true true iff both exponents equal; assert_eq_assume_ok panics iff they differ")
    ok = True
    ua, ub = sym_unit("a"), sym_unit("b")
    for name, kind in (("const_eq", "bool"), ("eq_assume_true", "bool"), ("eq_assume_false", "bool"), ("assert_eq_assume_ok", "assert"), ("const_assert_eq", "assert")):
        fs = [f for f in prog.find_fns(name=name, self_name="Unit") if not f.get("impl_trait")]
        if len(fs) != 1:
            raise AnchorMissing("Unit::" + name)
        fn = fs[0]
        chk.analysed(fn["pretty"])
        st = S.State()
        gargs = sim.identity_gargs(fn)
        a0 = sim.make_arg(st, "a", subst(fn["sig_inputs"][0], gargs))
        b0 = sim.make_arg(st, "b", subst(fn["sig_inputs"][1], gargs))
        for leaf in sim.run(fn, gargs, [a0, b0], st):
            chk.evaluated(1, nontrivial=(key, name, repr(leaf.pc)))
            stl = leaf.state
            same = forced_equal(sim, stl, ua[0], ub[0]) and forced_equal(sim, stl, ua[1], ub[1])
            maybe_same = possibly_equal(sim, stl, ua[0], ub[0]) and possibly_equal(sim, stl, ua[1], ub[1])
            if leaf.kind == "unsupported":
                chk.violation("analysis-incomplete", key, "Unit::%s: %s" % (name, leaf.info["msg"]))
                ok = False
            elif kind == "bool":
                r = sim.resolve(stl, leaf.value) if leaf.kind == "return" else None
                good = isinstance(r, Const) and ((r.val and same) or ((not r.val) and not maybe_same))
                if not good:
                    chk.violation("C01.panic-iff", "Unit::" + name, "Unit::%s returns %r on path %s: must be true exactly when both exponents are equal" % (name, r, leaf.pc), fn=fn["pretty"], file=loc(fn["span"]))
                    ok = False
            else:
                good = (leaf.kind == "return" and same) or (leaf.kind == "panic" and not maybe_same)
                if not good:
                    chk.violation("C01.panic-iff", "Unit::" + name, "Unit::%s %s on path %s: must panic exactly when the units differ" % (name, leaf.kind, leaf.pc), fn=fn["pretty"], file=loc(fn["span"]))
                    ok = False
    if ok:
        chk.discharge(key)


def run_config(chk, cfg, primary):
    before = len(chk.violations)
    try:
        _run_config(chk, cfg, primary)
    finally:
        if not primary:
            for v in chk.violations[before:]:
                v["key"] += "@" + cfg
                v["what"] = "[configuration %s] %s" % (cfg, v["what"])


def _run_config(chk, cfg, primary):
    prog = load_config(cfg)
    chk.configs.append(cfg)
    if not prog.adt_by_name("Unit")["variants"][0]["fields"]:
        raise AnchorMissing("configuration %s has dimension checking compiled out; C01 needs a checking configuration" % cfg)
    sim = S.Sim(prog)
    ncon = check_constants(chk, prog, sim) if primary else 0
    impls = Q.ops_impls(prog)
    n_unit = n_q = n_mixed = 0
    for imp, tr, fn in impls:
        sname = imp["self"]["name"]
        rhs = imp["trait_args"][1] if len(imp["trait_args"]) > 1 else imp["self"]
        if sname == "Unit":
            check_unit_like(chk, sim, imp, tr, fn, False)
            n_unit += 1
        elif sname == "Quantity" and (ty_str(rhs) == "Quantity" or (rhs.get("k") == "ref" and ty_str(rhs["ty"]) == "Quantity")):
            # by-value and by-reference right operands alike: `q += &r` must check units exactly like `q += r`
            check_unit_like(chk, sim, imp, tr, fn, True)
            n_q += 1
        elif "Quantity" in (sname, ty_str(rhs)) or (is_adt(fn["sig_output"], "Quantity")):
            check_mixed(chk, prog, sim, imp, tr, fn)
            n_mixed += 1
    # abs
    fa = [f for f in prog.find_fns(name="abs", self_name="Quantity") if not f.get("impl_trait")]
    if len(fa) != 1:
        raise AnchorMissing("Quantity::abs")
    key = "d:Quantity::abs"
    chk.obligation(key, "abs keeps the unit and takes |value|")
    good = True
    for leaf in Q.run_simple(sim, fa[0], [Sym("a", Q.quantity_ty(prog))]):
        chk.evaluated(1, nontrivial=(key, repr(leaf.pc)))
        r = sim.final_value(leaf.state, leaf.value) if leaf.kind == "return" else None
        okv = False
        if isinstance(r, Struct) and len(r.fields) == 2:
            v = r.fields[0]
            frel = [p for p in leaf.pc if p[0] == "frel"]
            # with std the numeric part must be f32::abs itself ("exactly the f32 result of the same operator": |-0.0| = +0.0);
            # the sign select is the audited variant of builds without std (C19.N), where it is all there is
            has_std = "feature=std" in prog.facts.get("cfg", [])
            okv = v == Term("abs", (Sym("a.value"),)) or (not has_std and frel and v in (Sym("a.value"), Term("Neg", (Sym("a.value"),))))
            ex = Q.unit_exps(sim, leaf.state, r.fields[1])
            okv = okv and ex == sym_unit("a.unit")
        if not okv:
            chk.violation("C01.value", key, "Quantity::abs returns %r on path %s" % (r, leaf.pc), fn=fa[0]["pretty"], file=loc(fa[0]["span"]))
            good = False
    if good:
        chk.discharge(key)
    if primary:
        # mixed operands: the numeric part is "the same operator on the raw values" only if the integer operand is converted
        # exactly (ns as f32 / 1e9, n as f32); the conversion shapes are C18's table, evaluated here as part of C01.value
        import rules.C18 as C18
        import report
        sub = report.Check("C01", chk.tier)
        C18.check_conversions(sub, prog, sim)
        chk.evaluated(1, nontrivial=("mixed-conversions",))
        for v in sub.violations:
            if "Quantity::from(" in v["key"] or v["rule"] == "analysis-incomplete":
                chk.violation("C01.value" if v["rule"] != "analysis-incomplete" else v["rule"], "mixed-conversion:" + v["key"],
                              "mixed Quantity/Time/DimensionlessInteger operators convert the integer operand inexactly: " + v["what"], **v.get("detail", {}))
    check_partial_ord(chk, prog, sim)
    check_ord_overrides(chk, prog, sim)
    if primary:
        check_two_quantity_api(chk, prog, sim)
    check_eq_helpers(chk, prog, sim)
    check_conversions(chk, prog, sim)
    if primary:
        if len(impls) < 64:
            chk.violation("floor", "C01.ops-impls", "expected 64 operator impls on Unit/Quantity/Time/DimensionlessInteger, found %d" % len(impls))
        chk.extra.update({"constants": ncon, "unit_ops": n_unit, "quantity_ops": n_q, "mixed_ops": n_mixed, "ops_impls_total": len(impls)})
    chk.extra.setdefault("std_models", [])
    chk.extra["std_models"] = sorted(set(chk.extra["std_models"]) | sim.stats["models_used"])


def run(chk):
    chk.rule("C01.constants", "constant initialiser == exponents stated by the name; 7x7 grid exactly once")
    chk.rule("C01.unit", "result exponents: Mul adds, Div subtracts (self minus rhs), Add/Sub/Neg/abs keep")
    chk.rule("C01.value", "numeric part is the same f32 operator on the raw values in operand order")
    chk.rule("C01.panic-iff", "Add/Sub/ordering return iff both exponents are equal, panic otherwise")
    chk.rule("C01.delegation", "mixed impls == Quantity operator after Quantity::from on non-Quantity operands (same outcomes incl. panics)")
    chk.rule("C01.conversion", "PositionDerivative/Command/MotionProfilePiece <-> Unit/Quantity tables over the 7x7 grid")
    run_config(chk, "K1", True)
    # "with dimension checking enabled" also covers the release profile with dim_check_release (K7): the gates must be there too
    run_config(chk, "K7", False)
    if chk.tier == "thorough":
        run_config(chk, "K2", False)
    chk.assume("i8 exponent overflow not modelled (exponents are mathematical integers)", "f32 operators are uninterpreted terms: 'same operator on raw values' is syntactic identity")
    return ("Symbolic-exponent abstract interpretation of every operator impl on Unit/Quantity and of the mixed Time/DimensionlessInteger forms; "
            "exponents are integer linear terms so additivity is decided for all exponents at once; panic leaves are compared with the 'units differ' "
            "condition under each path; constants evaluated from MIR; conversions tabulated over the grid.")
