import sys, os, json, importlib, traceback
sys.path.insert(0, os.path.dirname(os.path.abspath(__file__)))
import report, program


def main():
    if len(sys.argv) >= 3 and sys.argv[1] == "explain":
        v = json.load(open(sys.argv[2]))
        print("property %s rule %s\nkey: %s\n%s" % (v["property"], v["rule"], v["key"], v["what"]))
        print(json.dumps(v.get("detail", {}), indent=1, default=str))
        return 0
    pid, tier = sys.argv[1], (sys.argv[2] if len(sys.argv) > 2 else os.environ.get("VERIF_TIER", "quick"))
    chk = report.Check(pid, tier)
    # wall-clock watchdog: a wrong formula can send the algebra into minutes of fruitless simplification; fail closed instead
    import signal
    budget = int(os.environ.get("VERIF_TIME_BUDGET", "900" if tier == "quick" else "5400"))

    class TimeBudget(Exception):
        pass

    def on_alarm(sig, frm):
        raise TimeBudget()
    signal.signal(signal.SIGALRM, on_alarm)
    signal.alarm(budget)
    try:
        mod = importlib.import_module("rules." + pid)
        expl = mod.run(chk) or ""
        if tier == "thorough":
            # thorough tier: the same rule tables on the other feature configurations (no_std + alloc + libm with checking in a
            # debug profile = K2; std with checking compiled out = K4), as C19 does for all properties at once
            import rules.C19 as C19
            if pid in C19.VALUE_RULES_ALL or pid == "C01":
                for cfg in (("K2",) if pid == "C01" else ("K2", "K4")):
                    before = len(chk.violations)
                    C19.run_rules_under(chk, cfg, [pid])
                    for v in chk.violations[before:]:
                        v["rule"] = v["key"].split(":")[1] if v["rule"] == "C19.E" and v["key"].count(":") >= 2 else v["rule"]
                    if cfg not in chk.configs:
                        chk.configs.append(cfg)
    except program.AnchorMissing as e:
        chk.violation("anchor-missing", str(e), "an obligated item could not be located in the analysed program: %s" % e)
        expl = "aborted: anchor missing"
    except program.BuildError as e:
        chk.violation("build-failed", "build", "a configuration required by this check no longer builds", stderr=str(e)[-3000:])
        expl = "aborted: build failed"
    except TimeBudget:
        chk.violation("analysis-incomplete", "time-budget", "the analysis did not finish within %d s (the unchanged tree needs a small fraction of that): fail closed" % budget)
        expl = "aborted: time budget"
    except Exception as e:
        chk.violation("analysis-crashed", type(e).__name__, "analysis crashed (fail closed): %s" % e, tb=traceback.format_exc()[-3000:])
        expl = "aborted: analysis crashed"
    signal.alarm(0)
    return chk.finish(expl)


if __name__ == "__main__":
    sys.exit(main())
