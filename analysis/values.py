"""Abstract values of the property simulator. All values are immutable and hashable."""
from program import ty_str


class V:
    __slots__ = ()


class Const(V):
    __slots__ = ("val", "ty", "_h")

    def __init__(self, val, ty=None):
        self.val = val
        self.ty = ty
        self._h = hash(("C", val if not isinstance(val, float) else repr(val)))

    def __eq__(self, o):
        return isinstance(o, Const) and o._h == self._h and repr(o.val) == repr(self.val) and type(o.val) is type(self.val) and \
            (self.ty is None or o.ty is None or _tyname(o.ty) == _tyname(self.ty))

    def __hash__(self):
        return self._h

    def __repr__(self):
        if self.val is None:
            return "()"
        return "%r%s" % (self.val, (":" + _tyname(self.ty)) if self.ty else "")


def _tyname(t):
    if t is None:
        return ""
    if t.get("k") == "prim":
        return t["name"]
    return ty_str(t)


class LenConst(Const):
    """The length of a concretely unrolled list (VecDeque / Vec).  Equal to the plain constant; the subclass only lets the simulator
    notice when code compares the length with a threshold above it - behaviour that a bounded unrolling can never reach."""
    __slots__ = ()


class Sym(V):
    """Opaque atom identified by its name."""
    __slots__ = ("name", "ty", "_h")

    def __init__(self, name, ty=None):
        self.name = name
        self.ty = ty
        self._h = hash(("S", name))

    def __eq__(self, o):
        return isinstance(o, Sym) and o.name == self.name

    def __hash__(self):
        return self._h

    def __repr__(self):
        return self.name


class Term(V):
    __slots__ = ("op", "args", "ty", "_h")

    def __init__(self, op, args, ty=None):
        self.op = op
        self.args = tuple(args)
        self.ty = ty
        self._h = hash(("T", op, self.args))

    def __eq__(self, o):
        return isinstance(o, Term) and o._h == self._h and o.op == self.op and o.args == self.args

    def __hash__(self):
        return self._h

    def __repr__(self):
        return "%s(%s)" % (self.op, ", ".join(repr(a) for a in self.args))


class Lin(V):
    """Integer linear expression: sum coef*atom + c. atoms are Sym/Term values. Normalised: no zero coefs,
    sorted by repr; never a bare constant (that is Const) ."""
    __slots__ = ("terms", "c", "ty", "_h")

    def __init__(self, terms, c, ty=None):
        self.terms = tuple(terms)
        self.c = c
        self.ty = ty
        self._h = hash(("L", self.terms, c))

    def __eq__(self, o):
        return isinstance(o, Lin) and o._h == self._h and o.terms == self.terms and o.c == self.c

    def __hash__(self):
        return self._h

    def __repr__(self):
        parts = []
        for a, k in self.terms:
            if k == 1:
                parts.append("%r" % (a,))
            elif k == -1:
                parts.append("-%r" % (a,))
            else:
                parts.append("%d*%r" % (k, a))
        if self.c:
            parts.append(str(self.c))
        return "(" + " + ".join(parts) + ")"


class Struct(V):
    __slots__ = ("ty", "fields", "_h")

    def __init__(self, ty, fields):
        self.ty = ty
        self.fields = tuple(fields)
        self._h = hash(("St", _tyname(ty), self.fields))

    def __eq__(self, o):
        return isinstance(o, Struct) and o._h == self._h and o.fields == self.fields and _tyname(o.ty) == _tyname(self.ty)

    def __hash__(self):
        return self._h

    def __repr__(self):
        n = self.ty["name"] if self.ty and self.ty.get("k") == "adt" else ""
        return "%s{%s}" % (n, ", ".join(repr(f) for f in self.fields))


class Enum(V):
    __slots__ = ("ty", "variant", "vname", "fields", "_h")

    def __init__(self, ty, variant, vname, fields):
        self.ty = ty
        self.variant = variant
        self.vname = vname
        self.fields = tuple(fields)
        self._h = hash(("E", variant, vname, self.fields))

    def __eq__(self, o):
        return isinstance(o, Enum) and o._h == self._h and o.variant == self.variant and o.fields == self.fields and o.vname == self.vname

    def __hash__(self):
        return self._h

    def __repr__(self):
        if not self.fields:
            return self.vname
        return "%s(%s)" % (self.vname, ", ".join(repr(f) for f in self.fields))


class Array(V):
    __slots__ = ("elems", "ty", "_h")

    def __init__(self, elems, ty=None):
        self.elems = tuple(elems)
        self.ty = ty
        self._h = hash(("A", self.elems))

    def __eq__(self, o):
        return isinstance(o, Array) and o._h == self._h and o.elems == self.elems

    def __hash__(self):
        return self._h

    def __repr__(self):
        return "[%s]" % ", ".join(repr(e) for e in self.elems)


class Ptr:
    __slots__ = ("obj", "path", "_h")

    def __init__(self, obj, path=()):
        self.obj = obj
        self.path = tuple(path)
        self._h = hash((obj, self.path))

    def __eq__(self, o):
        return isinstance(o, Ptr) and o.obj == self.obj and o.path == self.path

    def __hash__(self):
        return self._h

    def __repr__(self):
        return "@%s%s" % (self.obj, "".join("." + "".join(str(x) for x in p) for p in self.path))

    def ext(self, *steps):
        return Ptr(self.obj, self.path + tuple(steps))


class Ref(V):
    __slots__ = ("ptr", "mut", "raw", "tag", "_h")

    def __init__(self, ptr, mut=False, raw=False, tag=None):
        self.ptr = ptr
        self.mut = mut
        self.raw = raw
        self.tag = tag
        self._h = hash(("R", ptr, tag))

    def __eq__(self, o):
        return isinstance(o, Ref) and o.ptr == self.ptr and o.tag == self.tag

    def __hash__(self):
        return self._h

    def __repr__(self):
        return ("*" if self.raw else "&") + repr(self.ptr)


class UninitT(V):
    __slots__ = ()

    def __repr__(self):
        return "<uninit>"

    def __eq__(self, o):
        return isinstance(o, UninitT)

    def __hash__(self):
        return 7919


UNINIT = UninitT()


class FnV(V):
    __slots__ = ("fn", "resolved", "gargs", "_h")

    def __init__(self, fn, resolved, gargs=None):
        self.fn = fn
        self.resolved = resolved
        self.gargs = gargs or []
        self._h = hash(("F", fn["did"]))

    def __eq__(self, o):
        return isinstance(o, FnV) and o.fn["did"] == self.fn["did"]

    def __hash__(self):
        return self._h

    def __repr__(self):
        return "fn " + self.fn["pretty"]


class Opaque(V):
    """Modelled std object (RefCell, guard, iterator, MaybeUninit, Rc...). kind + immutable data tuple."""
    __slots__ = ("kind", "data", "ty", "_h")

    def __init__(self, kind, data, ty=None):
        self.kind = kind
        self.data = tuple(data)
        self.ty = ty
        self._h = hash(("O", kind, self.data))

    def __eq__(self, o):
        return isinstance(o, Opaque) and o.kind == self.kind and o.data == self.data

    def __hash__(self):
        return self._h

    def __repr__(self):
        return "%s<%s>" % (self.kind, ", ".join(repr(d) for d in self.data))


UNIT = Struct({"k": "tuple", "tys": []}, ())


def is_unit(v):
    return isinstance(v, Struct) and not v.fields and v.ty is not None and v.ty.get("k") == "tuple"


# ---------------------------------------------------------------------------------------------
# integer linear arithmetic

def _atoms(v):
    """Return (dict atom->coef, const) for an int-valued abstract value."""
    if isinstance(v, Const) and isinstance(v.val, int) and not isinstance(v.val, bool):
        return {}, v.val
    if isinstance(v, Lin):
        return dict(v.terms), v.c
    return {v: 1}, 0


def mk_lin(d, c, ty=None):
    items = [(a, k) for a, k in d.items() if k != 0]
    if not items:
        return Const(c, ty)
    items.sort(key=lambda x: repr(x[0]))
    if len(items) == 1 and items[0][1] == 1 and c == 0:
        return items[0][0]
    return Lin(items, c, ty)


def int_add(a, b, ty=None):
    da, ca = _atoms(a)
    db, cb = _atoms(b)
    d = dict(da)
    for k, v in db.items():
        d[k] = d.get(k, 0) + v
    return mk_lin(d, ca + cb, ty)


def int_neg(a, ty=None):
    da, ca = _atoms(a)
    return mk_lin({k: -v for k, v in da.items()}, -ca, ty)


def int_sub(a, b, ty=None):
    return int_add(a, int_neg(b, ty), ty)


def int_mul(a, b, ty=None):
    da, ca = _atoms(a)
    db, cb = _atoms(b)
    if not da:
        return mk_lin({k: v * ca for k, v in db.items()}, ca * cb, ty)
    if not db:
        return mk_lin({k: v * cb for k, v in da.items()}, ca * cb, ty)
    x, y = (a, b) if repr(a) <= repr(b) else (b, a)
    return Term("IMul", (x, y), ty)
