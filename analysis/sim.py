"""propsim: path-sensitive abstract interpreter over mirfacts MIR (engine B).

Nothing concrete is executed: values are symbols, provenance terms, or elements of finite domains
(enum variants, order relations, booleans).  Branches on undecided atoms fork the abstract state.
"""
import struct as _struct
import itertools
from values import *
from program import subst, subst_const, const_val, ty_str, is_adt, prim, adt_ty, tuple_ty, loc, UNIT_TY


class Fork(Exception):
    def __init__(self, choices):
        self.choices = choices  # list of (pc_entry, fn(state))


class Unsupported(Exception):
    pass


class SimPanic(Exception):
    def __init__(self, kind, msg="", span=None):
        self.kind, self.msg, self.span = kind, msg, span


class SimUB(Exception):
    def __init__(self, kind, msg="", span=None):
        self.kind, self.msg, self.span = kind, msg, span


class Frame:
    __slots__ = ("fn", "body", "gargs", "locals", "bb", "si", "dest", "ret_bb", "tag")

    def __init__(self, fn, body, gargs, locals_, dest, ret_bb, tag=None):
        self.fn, self.body, self.gargs, self.locals = fn, body, gargs, locals_
        self.bb, self.si = 0, 0
        self.dest, self.ret_bb, self.tag = dest, ret_bb, tag

    def copy(self):
        f = Frame(self.fn, self.body, self.gargs, self.locals, self.dest, self.ret_bb, self.tag)
        f.bb, f.si = self.bb, self.si
        return f


ALL3 = frozenset("<=>")
ALL4 = frozenset("<=>U")


class State:
    def __init__(self):
        self.mem = {}
        self.labels = {}
        self.frames = []
        self.refine = {}
        self.rels = {}      # key -> allowed frozenset (ints: sign of key; floats: relation of pair)
        self.bools = {}     # value -> bool
        self.pc = []
        self.effects = []
        self.versions = {}
        self.consts = {}
        self.refobjs = {}   # name -> obj id (referents of symbolic references)
        self.oracle = {}    # (label, method, version) -> value
        self.nobj = 0
        self.steps = 0
        self.notes = set()
        self.arith = []     # checked (overflow-guarded) arithmetic on symbolic operands, in execution order
        self.arith_results = []   # the value each of those operations produced (same order)
        self.result = None

    def copy(self):
        s = State.__new__(State)
        s.mem = dict(self.mem)
        s.labels = self.labels  # append-only, shared
        s.frames = [f.copy() for f in self.frames]
        s.refine = dict(self.refine)
        s.rels = dict(self.rels)
        s.bools = dict(self.bools)
        s.pc = list(self.pc)
        s.effects = list(self.effects)
        s.versions = dict(self.versions)
        s.consts = dict(self.consts)
        s.refobjs = dict(self.refobjs)
        s.oracle = dict(self.oracle)
        s.nobj = self.nobj
        s.steps = self.steps
        s.notes = set(self.notes)
        s.arith = list(self.arith)
        s.arith_results = list(self.arith_results)
        s.result = self.result
        return s

    def new_obj(self, label, val=UNINIT):
        self.nobj += 1
        oid = "%s#%d" % (label, self.nobj)
        self.mem[oid] = val
        return oid


class Leaf:
    def __init__(self, kind, value, state, info=None):
        self.kind = kind          # 'return' | 'panic' | 'ub' | 'unsupported'
        self.value = value
        self.state = state
        self.info = info or {}
        self.pc = state.pc if state else []
        self.effects = state.effects if state else []

    def __repr__(self):
        return "Leaf(%s, %r, pc=%r)" % (self.kind, self.value if self.kind == "return" else self.info, self.pc)


def decode_scalar(bits, size, ty):
    name = ty["name"] if ty.get("k") == "prim" else None
    if name == "bool":
        return bits != 0
    if name in ("f32",):
        return _struct.unpack("<f", _struct.pack("<I", bits & 0xFFFFFFFF))[0]
    if name in ("f64",):
        return _struct.unpack("<d", _struct.pack("<Q", bits & 0xFFFFFFFFFFFFFFFF))[0]
    if name == "char":
        return chr(bits)
    if name and name[0] == "i":
        nb = size * 8
        if bits >= 1 << (nb - 1):
            bits -= 1 << nb
        return bits
    return bits


INT_BITS = {"i8": 8, "i16": 16, "i32": 32, "i64": 64, "i128": 128, "isize": 64, "u8": 8, "u16": 16, "u32": 32, "u64": 64, "u128": 128, "usize": 64}


def wrap_int(v, ty):
    """Wrap a mathematical integer into the range of a fixed-width primitive type."""
    n = ty.get("name") if ty and ty.get("k") == "prim" else None
    if n not in INT_BITS:
        return v
    b = INT_BITS[n]
    v &= (1 << b) - 1
    if n[0] == "i" and v >= 1 << (b - 1):
        v -= 1 << b
    return v


def is_float_ty(t):
    return t is not None and t.get("k") == "prim" and t["name"] in ("f32", "f64")


def is_int_ty(t):
    return t is not None and t.get("k") == "prim" and (t["name"][0] in "iu") and t["name"] not in ("u", "i")


def is_bool_ty(t):
    return t is not None and t.get("k") == "prim" and t["name"] == "bool"


OBJECT_TRAITS = {"Getter", "TimeGetter", "Updatable", "Settable", "History", "Device"}
MUTATING_METHODS = {"update", "set", "impl_set", "follow", "stop_following", "update_following_data",
                    "update_terminals", "get_settable_data_mut"}


class Sim:
    def __init__(self, prog, max_steps=40000, max_leaves=20000, models=None, oracle_hook=None):
        self.prog = prog
        self.max_steps = max_steps
        self.max_leaves = max_leaves
        import models as _m
        self.models = _m
        self.oracle_hook = oracle_hook   # fn(st, label, method, args, ret_ty) -> value or None
        self.inline_filter = None        # fn(fnjson) -> bool : False => treat as opaque term
        self.oracle_fresh = False        # True: every oracle call gets its own answer, even when the receiver was not mutated in between
        self.stats = {"steps": 0, "forks": 0, "calls_inlined": 0, "models_used": set(), "oracles": set()}

    # ------------------------------------------------------------------ type helpers
    def local_ty(self, fr, l):
        return subst(fr.body["locals"][l]["ty"], fr.gargs)

    def place_ty(self, fr, place):
        t = self.local_ty(fr, place["l"])
        for p in place["p"]:
            k = p["k"]
            if k == "deref":
                if t.get("k") in ("ref", "ptr"):
                    t = t["ty"]
                elif is_adt(t, "Box"):
                    t = t["args"][0]
                else:
                    t = None
                    break
            elif k == "field":
                t = subst(p["ty"], fr.gargs)
            elif k in ("index", "cindex"):
                t = t["ty"] if t and t.get("k") in ("array", "slice") else None
                if t is None:
                    break
            elif k == "downcast":
                pass
            else:
                t = None
                break
        return t

    def operand_ty(self, fr, op):
        if op["k"] in ("copy", "move"):
            return self.place_ty(fr, op["place"])
        if op["k"] == "const":
            return subst(op["ty"], fr.gargs)
        return None

    def adt_fields(self, ty, variant=0):
        """[(name, ty)] of a struct/variant for an ADT type (generic args substituted) or tuple type."""
        if ty.get("k") == "tuple":
            return [(str(i), t) for i, t in enumerate(ty["tys"])]
        if ty.get("k") != "adt":
            return None
        a = self.prog.adt(ty["did"])
        if a is None or a.get("opaque"):
            return None
        v = a["variants"][variant]
        return [(f["name"], subst(f["ty"], ty["args"])) for f in v["fields"]]

    # ------------------------------------------------------------------ symbolic expansion
    def resolve(self, st, v):
        while isinstance(v, Sym) and v.name in st.refine:
            v = st.refine[v.name]
        return v

    def expand(self, st, v):
        """Expand a Sym of struct/tuple/array type into a container of child Syms (deterministic)."""
        v = self.resolve(st, v)
        if not isinstance(v, Sym) or v.ty is None:
            return v
        t = v.ty
        k = t.get("k")
        if k == "tuple":
            return Struct(t, [Sym("%s.%d" % (v.name, i), x) for i, x in enumerate(t["tys"])])
        if k == "array":
            n = const_val(t["len"])
            if n is None:
                raise Unsupported("array of symbolic length %s" % ty_str(t))
            return Array([Sym("%s[%d]" % (v.name, i), t["ty"]) for i in range(n)], t)
        if k == "adt":
            a = self.prog.adt(t["did"])
            if a is None:
                return v
            if t["name"] == "Reference" and self.models.LOCAL_MODELS_ENABLED:
                return v   # rrtk::Reference is modelled as an opaque handle (identity = symbol name)
            if a["kind"] == "struct" and not a.get("opaque"):
                fs = self.adt_fields(t)
                return Struct(t, [Sym("%s.%s" % (v.name, n), ft) for n, ft in fs])
            if t["name"] == "RefCell" and a.get("opaque"):
                inner = t["args"][0]
                return Opaque("RefCell", (Sym(v.name + ".inner", inner), 0), t)
        return v

    def enum_variants(self, ty):
        a = self.prog.adt(ty["did"]) if ty and ty.get("k") == "adt" else None
        if a is None or a["kind"] != "enum" or a.get("opaque"):
            return None
        return a["variants"]

    def force_variant(self, st, v):
        """Ensure v is an Enum; fork over variants if it is an undetermined Sym."""
        v = self.resolve(st, v)
        if isinstance(v, Enum):
            return v
        if isinstance(v, Sym):
            vs = self.enum_variants(v.ty)
            if vs is None:
                raise Unsupported("discriminant of non-enum symbol %r : %s" % (v, ty_str(v.ty)))
            choices = []
            for i, var in enumerate(vs):
                fields = [Sym("%s.%s.%s" % (v.name, var["name"], f["name"]), subst(f["ty"], v.ty["args"])) for f in var["fields"]]
                ev = Enum(v.ty, i, var["name"], fields)
                choices.append((("variant", v.name, var["name"]), (lambda s, n=v.name, e=ev: s.refine.__setitem__(n, e))))
            raise Fork(choices)
        raise Unsupported("discriminant of %r" % (v,))

    def mk_enum(self, ty, vname, fields=()):
        vs = self.enum_variants(ty)
        for i, var in enumerate(vs):
            if var["name"] == vname:
                return Enum(ty, i, vname, fields)
        raise KeyError(vname)

    # ------------------------------------------------------------------ memory
    def get_step(self, st, cur, step, for_write=False):
        cur = self.expand(st, cur)
        k = step[0]
        if k == "f":
            if isinstance(cur, (Struct, Enum)):
                if step[1] >= len(cur.fields):
                    raise Unsupported("field %d of %r" % (step[1], cur))
                return cur.fields[step[1]]
            if isinstance(cur, Opaque) and cur.kind == "Closure":
                return cur.data[1][step[1]]
            if cur is UNINIT:
                return UNINIT
            raise Unsupported("field %d of %r" % (step[1], cur))
        if k == "d":
            if cur is UNINIT and for_write:
                return UNINIT
            cur = self.force_variant(st, cur)
            if cur.variant != step[1]:
                raise SimUB("downcast", "read variant %d of %r" % (step[1], cur))
            return cur
        if k == "i":
            if isinstance(cur, Array):
                if not (0 <= step[1] < len(cur.elems)):
                    raise SimUB("oob", "index %d of array of %d" % (step[1], len(cur.elems)))
                return cur.elems[step[1]]
            if isinstance(cur, Opaque) and cur.kind == "List":
                if not (0 <= step[1] < len(cur.data[0])):
                    raise SimUB("oob", "index %d of list of %d" % (step[1], len(cur.data[0])))
                return cur.data[0][step[1]]
            raise Unsupported("index into %r" % (cur,))
        if k == "inner":
            if isinstance(cur, Opaque) and cur.kind == "RefCell":
                return cur.data[0]
            raise Unsupported("inner of %r" % (cur,))
        if k == "mu":
            if isinstance(cur, Opaque) and cur.kind == "MU":
                return cur.data[0]
            raise Unsupported("mu of %r" % (cur,))
        raise Unsupported("step %r" % (step,))

    def set_step(self, st, cur, step, new, ty_hint=None):
        cur = self.expand(st, cur)
        k = step[0]
        if k == "f":
            if isinstance(cur, Struct):
                fs = list(cur.fields)
                fs[step[1]] = new
                return Struct(cur.ty, fs)
            if isinstance(cur, Enum):
                fs = list(cur.fields)
                fs[step[1]] = new
                return Enum(cur.ty, cur.variant, cur.vname, fs)
            raise Unsupported("write field %d of %r" % (step[1], cur))
        if k == "d":
            return new
        if k == "i":
            if isinstance(cur, Array):
                if not (0 <= step[1] < len(cur.elems)):
                    raise SimUB("oob", "write index %d of array of %d" % (step[1], len(cur.elems)))
                es = list(cur.elems)
                es[step[1]] = new
                return Array(es, cur.ty)
            if isinstance(cur, Opaque) and cur.kind == "List":
                es = list(cur.data[0])
                es[step[1]] = new
                return Opaque("List", (tuple(es),), cur.ty)
            raise Unsupported("write index into %r" % (cur,))
        if k == "inner":
            if isinstance(cur, Opaque) and cur.kind == "RefCell":
                return Opaque("RefCell", (new, cur.data[1]), cur.ty)
        if k == "mu":
            if isinstance(cur, Opaque) and cur.kind == "MU":
                return Opaque("MU", (new,), cur.ty)
        raise Unsupported("write step %r of %r" % (step, cur))

    def read(self, st, ptr):
        if ptr.obj not in st.mem:
            raise SimUB("dangling", "read of dead object %s" % ptr.obj)
        cur = st.mem[ptr.obj]
        for step in ptr.path:
            cur = self.get_step(st, cur, step)
        return self.resolve(st, cur)

    def write(self, st, ptr, val):
        if ptr.obj not in st.mem:
            raise SimUB("dangling", "write to dead object %s" % ptr.obj)

        def rec(cur, path):
            if not path:
                return val
            step = path[0]
            child = self.get_step(st, cur, step, for_write=True) if len(path) > 1 or step[0] == "d" else None
            if step[0] == "d":
                # writing into a variant payload: keep enum shell
                cur2 = self.expand(st, cur)
                if len(path) == 1:
                    return val
                inner = rec(cur2, path[1:])
                return inner
            newchild = rec(child, path[1:]) if len(path) > 1 else val
            return self.set_step(st, cur, step, newchild)
        st.mem[ptr.obj] = rec(st.mem[ptr.obj], ptr.path)

    # ------------------------------------------------------------------ places / operands
    def eval_place(self, st, fr, place):
        ptr = Ptr(fr.locals[place["l"]])
        for p in place["p"]:
            k = p["k"]
            if k == "deref":
                v = self.read(st, ptr)
                ptr = self.deref_value(st, v)
            elif k == "field":
                ptr = ptr.ext(("f", p["i"]))
            elif k == "downcast":
                ptr = ptr.ext(("d", p["v"]))
            elif k == "index":
                iv = self.read(st, Ptr(fr.locals[p["local"]]))
                if not (isinstance(iv, Const) and isinstance(iv.val, int)):
                    raise Unsupported("symbolic index %r" % (iv,))
                ptr = self.index_ptr(st, ptr, iv.val)
            elif k == "cindex":
                if p["from_end"]:
                    # `[.., last]` patterns: offset counted from the end of the (concrete-length) slice / array
                    if ptr.path and ptr.path[-1][0] == "sl":
                        n = ptr.path[-1][2] - ptr.path[-1][1]
                    else:
                        tgt = self.expand(st, self.read(st, ptr))
                        if isinstance(tgt, Array):
                            n = len(tgt.elems)
                        elif isinstance(tgt, Opaque) and tgt.kind == "List":
                            n = len(tgt.data[0])
                        else:
                            raise Unsupported("from_end index into %r" % (tgt,))
                    ptr = self.index_ptr(st, ptr, n - p["offset"])
                else:
                    ptr = self.index_ptr(st, ptr, p["offset"])
            else:
                raise Unsupported("projection " + k)
        return ptr

    def index_ptr(self, st, ptr, i):
        # slices are represented by pointers to arrays with an optional ('sl', from, to) window step
        if ptr.path and ptr.path[-1][0] == "sl":
            _, a, b = ptr.path[-1]
            if not (0 <= i < b - a):
                raise SimUB("oob", "index %d of slice of %d" % (i, b - a))
            return Ptr(ptr.obj, ptr.path[:-1] + (("i", a + i),))
        return ptr.ext(("i", i))

    def deref_value(self, st, v):
        v = self.resolve(st, v)
        if isinstance(v, Ref):
            return v.ptr
        if isinstance(v, Sym) and v.ty is not None and v.ty.get("k") in ("ref", "ptr"):
            # symbolic reference: materialise a fresh referent object
            if v.name not in st.refobjs:
                oid = st.new_obj("*" + v.name, Sym("*" + v.name, v.ty["ty"]))
                st.labels[oid] = "*" + v.name
                st.refobjs[v.name] = oid
            return Ptr(st.refobjs[v.name])
        if isinstance(v, Opaque) and v.kind in ("Rc", "Arc", "Box"):
            return v.data[0]
        if isinstance(v, Sym) and v.ty is not None and v.ty.get("k") == "adt" and v.ty["name"] in ("Rc", "Arc", "Box"):
            if v.name not in st.refobjs:
                oid = st.new_obj("*" + v.name, Sym("*" + v.name, v.ty["args"][0]))
                st.labels[oid] = "*" + v.name
                st.refobjs[v.name] = oid
            return Ptr(st.refobjs[v.name])
        if isinstance(v, Const) and isinstance(v.val, str):
            key = "str:" + v.val
            if key not in st.refobjs:
                st.refobjs[key] = st.new_obj("str", v)
            return Ptr(st.refobjs[key])
        raise Unsupported("deref of %r" % (v,))

    def eval_operand(self, st, fr, op):
        k = op["k"]
        if k in ("copy", "move"):
            v = self.read(st, self.eval_place(st, fr, op["place"]))
            if v is UNINIT:
                raise SimUB("uninit-read", "read of uninitialised place %r" % (op["place"],))
            return v
        if k == "const":
            return self.eval_const(st, fr, op)
        if k == "runtime_checks":
            return Const(False, prim("bool"))
        raise Unsupported("operand " + k)

    def eval_const(self, st, fr, c):
        ty = subst(c["ty"], fr.gargs)
        ck = c["ck"]
        if ck == "scalar":
            return Const(decode_scalar(c["bits"], c["size"], ty), ty)
        if ck == "fn":
            return FnV(c["fn"], c.get("resolved"), fr.gargs)
        if ck == "zst":
            if ty.get("k") == "adt":
                a = self.prog.adt(ty["did"])
                if a and a["kind"] == "enum":
                    # single inhabited zero-sized variant
                    for i, var in enumerate(a["variants"]):
                        if not var["nfields"]:
                            return Enum(ty, i, var["name"], ())
                return Struct(ty, ())
            if ty.get("k") == "tuple":
                return UNIT
            return Struct(ty, ())
        if ck == "ty":
            cc = subst_const(c["c"], fr.gargs)
            n = const_val(cc)
            if n is None:
                return Sym("const:" + cc.get("name", "?"), ty)
            return Const(n, ty)
        if ck == "slice":
            return Const(c["s"], ty)
        if ck == "unevaluated":
            if "bits" in c:
                return Const(decode_scalar(c["bits"], c["size"], ty), ty)
            if c["promoted"] is not None:
                key = ("promoted", fr.fn["did"], c["promoted"], repr(fr.gargs))
                if key not in st.consts:
                    body = fr.fn["promoted"][c["promoted"]]
                    st.consts[key] = self.run_nested(st, fr.fn, body, fr.gargs, [], "promoted")
                return st.consts[key]
            f = self.prog.fns.get(c["did"])
            if f is not None and "body" in f:
                gargs = [subst(a, fr.gargs) for a in c["args"]]
                key = ("const", c["did"], repr(gargs))
                if key not in st.consts:
                    st.consts[key] = self.run_nested(st, f, f["body"], gargs, [], "const")
                return st.consts[key]
            ra = self.resolve_assoc_const(c, [subst(a, fr.gargs) for a in c["args"]])
            if ra is not None:
                f2, g2 = ra
                key = ("const", f2["did"], repr(g2))
                if key not in st.consts:
                    st.consts[key] = self.run_nested(st, f2, f2["body"], g2, [], "const")
                return st.consts[key]
            raise Unsupported("unevaluated const " + c["pretty"])
        raise Unsupported("const kind %s: %s" % (ck, c.get("s")))

    # ------------------------------------------------------------------ relations
    def int_sign(self, st, d, true_set):
        """Decide whether sign(d) in true_set ('<','=','>'), forking if undecided."""
        if isinstance(d, Const):
            s = "<" if d.val < 0 else ("=" if d.val == 0 else ">")
            return s in true_set
        key, flip = self.canon_int(d)
        ts = frozenset({"<": ">", ">": "<", "=": "="}[x] for x in true_set) if flip else frozenset(true_set)
        allowed = self.int_allowed(st, key)
        if allowed <= ts:
            return True
        if not (allowed & ts):
            return False
        yes, no = allowed & ts, allowed - ts
        raise Fork([(("rel", repr(key), "".join(sorted(yes))), lambda s, k=key, a=yes: s.rels.__setitem__(k, a)),
                    (("rel", repr(key), "".join(sorted(no))), lambda s, k=key, a=no: s.rels.__setitem__(k, a))])

    def assume_int_rel(self, st, a, b, allowed):
        """Constrain the relation of a vs b (abstract ints) to `allowed` (subset of '<=>')."""
        d = int_sub(a, b)
        if isinstance(d, Const):
            return
        key, flip = self.canon_int(d)
        al = frozenset({"<": ">", ">": "<", "=": "="}[x] for x in allowed) if flip else frozenset(allowed)
        st.rels[key] = st.rels.get(key, ALL3) & al

    def canon_int(self, d):
        if isinstance(d, Lin):
            if d.terms[0][1] < 0:
                return int_neg(d), True
            return d, False
        return d, False

    def simple_pair(self, key):
        """key as (u, v) meaning key = u - v with u, v atoms or ('c', n)."""
        if isinstance(key, Lin):
            if len(key.terms) == 2 and key.c == 0 and sorted(k for _, k in key.terms) == [-1, 1]:
                pos = [a for a, k in key.terms if k == 1][0]
                neg = [a for a, k in key.terms if k == -1][0]
                return (pos, neg)
            if len(key.terms) == 1 and key.terms[0][1] == 1:
                return (key.terms[0][0], ("c", -key.c))
            return None
        if isinstance(key, (Sym, Term)):
            return (key, ("c", 0))
        return None

    def int_allowed(self, st, key):
        allowed = st.rels.get(key, ALL3)
        qp = self.simple_pair(key)
        if qp is None:
            return allowed
        # machine-integer range: every i64 value is >= i64::MIN and <= i64::MAX
        if isinstance(qp[1], tuple) and qp[1][1] == -(1 << 63):
            allowed = allowed & frozenset("=>")
        if isinstance(qp[1], tuple) and qp[1][1] == (1 << 63) - 1:
            allowed = allowed & frozenset("=<")
        cons = []
        for k, a in st.rels.items():
            if a is ALL4 or (isinstance(k, tuple)):
                continue
            sp = self.simple_pair(k)
            if sp is not None and k != key:
                cons.append((sp[0], sp[1], a))
        if not cons:
            return allowed
        atoms = []
        for u, v, _ in cons + [(qp[0], qp[1], None)]:
            for x in (u, v):
                if x not in atoms:
                    atoms.append(x)
        if len(atoms) > 7:
            st.notes.add("order-transitivity-skipped")
            return allowed
        consts = [x for x in atoms if isinstance(x, tuple)]
        res = set()
        n = len(atoms)
        idx = {a: i for i, a in enumerate(atoms)}
        for ranks in weak_orderings(n):
            ok = True
            for i in range(len(consts)):
                for j in range(i + 1, len(consts)):
                    ci, cj = consts[i], consts[j]
                    if rel_of(ranks[idx[ci]], ranks[idx[cj]]) != rel_of(ci[1], cj[1]):
                        ok = False
                        break
                if not ok:
                    break
            if not ok:
                continue
            for u, v, a in cons:
                if rel_of(ranks[idx[u]], ranks[idx[v]]) not in a:
                    ok = False
                    break
            if ok:
                res.add(rel_of(ranks[idx[qp[0]]], ranks[idx[qp[1]]]))
        return allowed & frozenset(res)

    def float_rel(self, st, a, b, true_set):
        if isinstance(a, Const) and isinstance(b, Const) and isinstance(a.val, float) and isinstance(b.val, float):
            x, y = a.val, b.val
            r = "U" if (x != x or y != y) else ("<" if x < y else ("=" if x == y else ">"))
            return r in true_set
        flip = repr(a) > repr(b)
        key = ("frel", b, a) if flip else ("frel", a, b)
        ts = frozenset({"<": ">", ">": "<", "=": "=", "U": "U"}[x] for x in true_set) if flip else frozenset(true_set)
        allowed = st.rels.get(key, ALL4)
        if a == b:
            allowed = allowed & frozenset("=U")
        if allowed <= ts:
            return True
        if not (allowed & ts):
            return False
        yes, no = allowed & ts, allowed - ts
        raise Fork([(("frel", "%r ? %r" % (key[1], key[2]), "".join(sorted(yes))), lambda s, k=key, a_=yes: s.rels.__setitem__(k, a_)),
                    (("frel", "%r ? %r" % (key[1], key[2]), "".join(sorted(no))), lambda s, k=key, a_=no: s.rels.__setitem__(k, a_))])

    def decide_bool(self, st, v):
        v = self.resolve(st, v)
        if isinstance(v, Const):
            return bool(v.val)
        if isinstance(v, Term) and v.op == "Not":
            return not self.decide_bool(st, v.args[0])
        if isinstance(v, Term) and v.op.startswith("Cmp:"):
            _, op, kind = v.op.split(":")
            ty = prim("bool") if kind == "b" else (prim("f32") if kind == "f" else prim("i64"))
            r = self.binop(st, op, v.args[0], v.args[1], ty, prim("bool"), lazy_off=True)
            return bool(r.val)
        if isinstance(v, Term) and v.op in ("BitAnd", "BitOr", "BitXor") and len(v.args) == 2:
            x = self.decide_bool(st, v.args[0])
            if v.op == "BitAnd" and not x:
                return False
            if v.op == "BitOr" and x:
                return True
            y = self.decide_bool(st, v.args[1])
            return {"BitAnd": x and y, "BitOr": x or y, "BitXor": x != y}[v.op]
        if v in st.bools:
            return st.bools[v]
        raise Fork([(("bool", repr(v), True), lambda s, k=v: s.bools.__setitem__(k, True)),
                    (("bool", repr(v), False), lambda s, k=v: s.bools.__setitem__(k, False))])

    # ------------------------------------------------------------------ rvalues
    CMP_SETS = {"Lt": "<", "Le": "<=", "Gt": ">", "Ge": ">=", "Eq": "=", "Ne": "<>"}

    def binop(self, st, op, a, b, ty_a, res_ty, lazy_off=False):
        a, b = self.resolve(st, a), self.resolve(st, b)
        fl = is_float_ty(ty_a) or (isinstance(a, Const) and isinstance(a.val, float))
        if op in self.CMP_SETS and not lazy_off:
            # comparisons are decided lazily: fork only when the boolean is branched on
            try:
                return self.binop(st, op, a, b, ty_a, res_ty, lazy_off=True)
            except Fork:
                kind = "b" if (is_bool_ty(ty_a) or (isinstance(a, Const) and isinstance(a.val, bool))) else ("f" if fl else "i")
                return Term("Cmp:%s:%s" % (op, kind), (a, b), prim("bool"))
        if op in self.CMP_SETS and (isinstance(a, LenConst) or isinstance(b, LenConst)):
            ln, other = (a, b) if isinstance(a, LenConst) else (b, a)
            if isinstance(other, Const) and isinstance(other.val, int) and not isinstance(other, LenConst) and other.val > max(ln.val, 2) + 1:
                # a length threshold the unrolled list cannot reach (e.g. `len() > 32` with 3 queued samples): whatever lies behind it is
                # outside what this bounded exploration can show
                st.notes.add("length-threshold:%d" % other.val)
        if op in self.CMP_SETS:
            if is_bool_ty(ty_a) or (isinstance(a, Const) and isinstance(a.val, bool)):
                x, y = self.decide_bool(st, a), self.decide_bool(st, b)
                r = {"Eq": x == y, "Ne": x != y, "Lt": x < y, "Le": x <= y, "Gt": x > y, "Ge": x >= y}[op]
                return Const(r, prim("bool"))
            if fl:
                ts = set(self.CMP_SETS[op])
                if op == "Ne":
                    ts.add("U")
                return Const(self.float_rel(st, a, b, ts), prim("bool"))
            if isinstance(a, Ref) or isinstance(b, Ref):
                if op in ("Eq", "Ne") and isinstance(a, Ref) and isinstance(b, Ref):
                    return Const((a.ptr == b.ptr) == (op == "Eq"), prim("bool"))
                raise Unsupported("pointer comparison")
            if isinstance(a, Const) and isinstance(a.val, str):
                return Const((a.val == b.val) == (op == "Eq"), prim("bool"))
            d = int_sub(a, b)
            return Const(self.int_sign(st, d, set(self.CMP_SETS[op])), prim("bool"))
        if op == "Cmp":
            d = int_sub(a, b)
            ordty = res_ty
            if self.int_sign(st, d, {"<"}):
                return self.mk_enum(ordty, "Less")
            if self.int_sign(st, d, {"="}):
                return self.mk_enum(ordty, "Equal")
            return self.mk_enum(ordty, "Greater")
        base = op.replace("WithOverflow", "").replace("Unchecked", "")
        if fl:
            r = Term(base, (a, b), ty_a)
        elif is_bool_ty(ty_a):
            if isinstance(a, Const) and isinstance(b, Const):
                r = Const({"BitAnd": a.val and b.val, "BitOr": a.val or b.val, "BitXor": a.val != b.val}[base], prim("bool"))
            elif base == "BitAnd" and any(isinstance(x, Const) and x.val is False for x in (a, b)):
                r = Const(False, prim("bool"))
            elif base == "BitOr" and any(isinstance(x, Const) and x.val is True for x in (a, b)):
                r = Const(True, prim("bool"))
            elif base == "BitAnd" and any(isinstance(x, Const) and x.val is True for x in (a, b)):
                r = b if isinstance(a, Const) else a
            elif base == "BitOr" and any(isinstance(x, Const) and x.val is False for x in (a, b)):
                r = b if isinstance(a, Const) else a
            else:
                r = Term(base, (a, b), ty_a)
        else:
            if base == "Add":
                r = int_add(a, b, ty_a)
            elif base == "Sub":
                r = int_sub(a, b, ty_a)
            elif base == "Mul":
                r = int_mul(a, b, ty_a)
            elif base in ("Div", "Rem") and isinstance(a, Const) and isinstance(b, Const) and b.val != 0:
                q = abs(a.val) // abs(b.val)
                q = q if (a.val >= 0) == (b.val > 0) else -q
                r = Const(q if base == "Div" else a.val - q * b.val, ty_a)
            elif base in ("BitAnd", "BitOr", "BitXor", "Shl", "Shr") and isinstance(a, Const) and isinstance(b, Const) and \
                    (base not in ("Shl", "Shr") or 0 <= b.val < 128):
                r = Const(wrap_int({"BitAnd": lambda: a.val & b.val, "BitOr": lambda: a.val | b.val, "BitXor": lambda: a.val ^ b.val,
                                    "Shl": lambda: a.val << b.val, "Shr": lambda: a.val >> b.val}[base](), ty_a), ty_a)
            else:
                r = Term("I" + base, (a, b), ty_a)
        if op.endswith("WithOverflow"):
            st.notes.add("assume-no-integer-overflow")
            ovf = False
            if isinstance(a, Const) and isinstance(b, Const) and isinstance(a.val, int) and isinstance(b.val, int) and not isinstance(a.val, bool):
                # concrete operands: the overflow flag is exact (e.g. `N - 1` with const N = 0)
                m = {"Add": a.val + b.val, "Sub": a.val - b.val, "Mul": a.val * b.val}.get(base)
                ovf = m is not None and wrap_int(m, ty_a) != m
            else:
                st.arith.append((base, repr(a), repr(b)))
                st.arith_results.append(r)
            return Struct(tuple_ty([ty_a, prim("bool")]), (r, Const(ovf, prim("bool"))))
        return r

    def eval_rvalue(self, st, fr, rv, dest_ty):
        k = rv["k"]
        if k == "use":
            return self.eval_operand(st, fr, rv["op"])
        if k == "ref":
            return Ref(self.eval_place(st, fr, rv["place"]), rv["mut"])
        if k == "rawptr":
            return Ref(self.eval_place(st, fr, rv["place"]), "Mut" in rv["kind"], raw=True)
        if k == "binop":
            a = self.eval_operand(st, fr, rv["a"])
            b = self.eval_operand(st, fr, rv["b"])
            return self.binop(st, rv["op"], a, b, self.operand_ty(fr, rv["a"]), dest_ty)
        if k == "unop":
            a = self.resolve(st, self.eval_operand(st, fr, rv["a"]))
            ta = self.operand_ty(fr, rv["a"])
            if rv["op"] == "Not":
                if isinstance(a, Const) and isinstance(a.val, bool):
                    return Const(not a.val, a.ty)
                if isinstance(a, Const) and isinstance(a.val, int):
                    return Const(~a.val, a.ty)
                if isinstance(a, Term) and a.op == "Not":
                    return a.args[0]
                return Term("Not", (a,), ta)
            if rv["op"] == "Neg":
                if is_float_ty(ta) or (isinstance(a, Const) and isinstance(a.val, float)):
                    return Term("Neg", (a,), ta)
                if not isinstance(a, Const):
                    st.arith.append(("Neg", repr(a), ""))      # integer negation overflows for MIN: part of the arithmetic footprint
                    st.arith_results.append(int_neg(a, ta))
                return int_neg(a, ta)
            if rv["op"] == "PtrMetadata":
                return self.ptr_len(st, a)
            raise Unsupported("unop " + rv["op"])
        if k == "discr":
            v = self.read(st, self.eval_place(st, fr, rv["place"]))
            if isinstance(v, Opaque) or isinstance(v, (Struct,)):
                raise Unsupported("discriminant of %r" % (v,))
            e = self.force_variant(st, v)
            vs = self.enum_variants(e.ty)
            return Const(vs[e.variant]["discr"], dest_ty)
        if k == "aggr":
            ops = [self.eval_operand(st, fr, o) for o in rv["ops"]]
            ak = rv["ak"]
            if ak == "tuple":
                return Struct(dest_ty if dest_ty and dest_ty.get("k") == "tuple" else tuple_ty([None] * len(ops)), ops) if ops else UNIT
            if ak == "array":
                return Array(ops, dest_ty)
            if ak == "adt":
                a = self.prog.adt(rv["did"])
                ty = {"k": "adt", "did": rv["did"], "name": rv["did"].split("::")[-1], "args": [subst(x, fr.gargs) for x in rv["args"]]}
                if a and a["kind"] == "enum":
                    return Enum(ty, rv["v"], a["variants"][rv["v"]]["name"], ops)
                return Struct(ty, ops)
            if ak == "closure":
                return Opaque("Closure", (rv["did"], tuple(ops), GBox(fr.gargs)), dest_ty)
            raise Unsupported("aggregate " + ak)
        if k == "repeat":
            n = const_val(subst_const(rv["n"], fr.gargs))
            if n is None:
                raise Unsupported("repeat with symbolic length")
            v = self.eval_operand(st, fr, rv["op"])
            return Array([v] * n, dest_ty)
        if k == "cast":
            v = self.resolve(st, self.eval_operand(st, fr, rv["op"]))
            kind = rv["kind"]
            tty = subst(rv["ty"], fr.gargs)
            if kind.startswith("PointerCoercion"):
                if "Unsize" in kind and isinstance(v, Ref):
                    return Ref(v.ptr, v.mut, v.raw, v.tag)
                return v
            if kind == "PtrToPtr" or kind == "FnPtrToPtr":
                return v
            if kind == "IntToInt":
                if isinstance(v, Const) and isinstance(v.val, (int, bool)):
                    return Const(wrap_int(int(v.val), tty), tty)
                sty = getattr(v, "ty", None)
                sb = INT_BITS.get(sty.get("name")) if sty and sty.get("k") == "prim" else None
                db = INT_BITS.get(tty.get("name")) if tty and tty.get("k") == "prim" else None
                if sb and db and db < sb:
                    return Term("Cast:IntTrunc", (v,), tty)      # narrowing: drops the high bits, NOT the identity
                return v if isinstance(v, (Sym, Lin)) else Term("Cast:IntToInt", (v,), tty)
            if kind == "Transmute":
                if isinstance(v, Ref):
                    return v
                return Term("Transmute", (v,), tty)
            if kind in ("PointerExposeProvenance",):
                return Term("PtrToInt", (Sym(repr(v)),), tty)
            return Term("Cast:" + kind, (v,), tty)
        if k == "tlref":
            raise Unsupported("thread local")
        raise Unsupported("rvalue " + k)

    def ptr_len(self, st, r):
        r = self.resolve(st, r)
        if isinstance(r, Ref):
            if r.ptr.path and r.ptr.path[-1][0] == "sl":
                _, a, b = r.ptr.path[-1]
                return Const(b - a, prim("usize"))
            tgt = self.expand(st, self.read(st, r.ptr))
            if isinstance(tgt, Array):
                return Const(len(tgt.elems), prim("usize"))
            if isinstance(tgt, Opaque) and tgt.kind == "List":
                return Const(len(tgt.data[0]), prim("usize"))      # &[T] obtained by dereferencing a Vec / VecDeque-backed list
        raise Unsupported("PtrMetadata of %r (-> %r)" % (r, self.read(st, r.ptr) if isinstance(r, Ref) else None))

    # ------------------------------------------------------------------ frames / calls
    def push_frame(self, st, fn, body, gargs, args, dest, ret_bb, tag=None):
        name = fn["name"] or fn["did"].split("::")[-1]
        locals_ = []
        for i in range(len(body["locals"])):
            locals_.append(st.new_obj("%s._%d" % (name, i)))
        fr = Frame(fn, body, gargs, locals_, dest, ret_bb, tag)
        if len(args) != body["arg_count"]:
            raise Unsupported("arity mismatch calling %s: %d vs %d" % (fn["pretty"], len(args), body["arg_count"]))
        for i, a in enumerate(args):
            st.mem[locals_[i + 1]] = a
        st.frames.append(fr)
        if len(st.frames) > 60:
            raise Unsupported("call depth > 60 (recursion?)")
        return fr

    def pop_frame(self, st):
        fr = st.frames.pop()
        ret = st.mem.get(fr.locals[0], UNINIT)
        if fr.tag not in ("promoted", "const"):   # promoted/const bodies return references to their own locals (statics)
            for o in fr.locals:
                st.mem.pop(o, None)
        return fr, ret

    def run_nested(self, st, fn, body, gargs, args, tag):
        """Run a body to completion in-place (no forks allowed); returns its value."""
        depth = len(st.frames)
        tmp = st.new_obj("tmp")
        self.push_frame(st, fn, body, gargs, args, Ptr(tmp), None, tag)
        try:
            while len(st.frames) > depth:
                self.step_inplace(st)
        except Fork:
            raise Unsupported("fork inside constant evaluation of " + fn["pretty"])
        v = st.mem.pop(tmp)
        return v

    def callee_gargs(self, fr, fnj):
        return [subst(a, fr.gargs) for a in fnj["args"]]

    def exec_call(self, st, fr, term):
        func = term["func"]
        if func["k"] != "const" or func.get("ck") != "fn":
            fv = self.resolve(st, self.eval_operand(st, fr, func))
            if isinstance(fv, FnV):
                fnj, res, cg = fv.fn, fv.resolved, fv.gargs
            else:
                raise Unsupported("indirect call through %r" % (fv,))
        else:
            fnj, res, cg = func["fn"], func.get("resolved"), fr.gargs
        args = [self.eval_operand(st, fr, a) for a in term["args"]]
        dest = self.eval_place(st, fr, term["dest"])
        ret_ty = self.place_ty(fr, term["dest"])
        self.invoke(st, fnj, res, cg, args, dest, ret_ty, term["t"], term["span"])

    def invoke(self, st, fnj, res, caller_gargs, args, dest, ret_ty, ret_bb, span):
        """Dispatch a call: inline a local body, apply a model, or treat as an oracle. ret_bb == -1: synchronous call
        (the caller's position is not touched)."""
        fr = st.frames[-1] if st.frames else None
        target = res["fn"] if res else fnj
        gargs = [subst(a, caller_gargs) for a in target["args"]]
        # python-side trait resolution for calls left generic by rustc but concrete after substitution
        if not res and fnj.get("trait"):
            r2 = self.resolve_trait_call(fnj, gargs)
            if r2 is not None:
                target, gargs = r2
                res = {"fn": target, "kind": "item"}
        # rust-call ABI: a closure body called through Fn/FnMut/FnOnce takes the argument tuple spread out
        if res is not None and "{closure" in target.get("did", "") and (fnj.get("trait") or "").split("::")[-1] in ("Fn", "FnMut", "FnOnce") and len(args) == 2:
            tup = self.expand(st, self.resolve(st, args[1]))
            f0 = self.prog.fns.get(target["did"])
            if isinstance(tup, Struct) and f0 is not None and "body" in f0 and f0["body"]["arg_count"] == 1 + len(tup.fields):
                args = [args[0]] + list(tup.fields)
                a0ty = f0["body"]["locals"][1]["ty"]
                if a0ty.get("k") != "ref" and isinstance(self.resolve(st, args[0]), Ref):
                    args[0] = self.read(st, self.resolve(st, args[0]).ptr)       # call_once through a by-value closure
        call = {"fn": target, "orig": fnj, "args": args, "gargs": gargs, "ret_ty": ret_ty, "span": span,
                "frame": fr, "resolved": res is not None, "dest": dest, "ret_bb": ret_bb}
        # 0. tuple-struct / tuple-variant constructor used as a function value
        ct = target.get("ctor") or fnj.get("ctor")
        if ct:
            aty = ret_ty if (ret_ty is not None and ret_ty.get("k") == "adt" and ret_ty.get("did") == ct["adt"]) else \
                {"k": "adt", "did": ct["adt"], "name": ct["adt_name"], "args": gargs}
            r = Struct(aty, tuple(args)) if ct.get("is_struct") else self.mk_enum(aty, ct["variant"], list(args))
            self.finish_call(st, fr, dest, r, ret_bb)
            return
        # 1. local function with MIR
        if target.get("local") and res is not None:
            f = self.prog.fns.get(target["did"])
            if f is not None and "body" in f and self.inline_filter is not None and not self.inline_filter(f):
                # deliberately opaque callee: logged effect + fresh symbolic result
                call2 = dict(call)
                gs = ",".join(ty_str(g) for g in gargs)
                call2["orig"] = {"trait": "opaque::" + ((f.get("impl_self") or {}).get("name") or "fn") + ("<%s>" % gs if gs else ""), "name": f["name"]}
                r = self.oracle_call(st, call2)
                self.finish_call(st, fr, dest, r, ret_bb)
                return
            if f is not None and "body" in f:
                m = self.models.find_local_model(self, target, f)
                if m is None:
                    self.stats["calls_inlined"] += 1
                    self.push_frame(st, f, f["body"], gargs, args, dest, ret_bb)
                    return
                r = m(self, st, call)
                self.finish_call(st, fr, dest, r, ret_bb)
                return
        # 1b. operator trait call left generic by rustc whose Self is a primitive after substitution
        if res is None and fnj.get("trait") and gargs and gargs[0].get("k") == "prim":
            r = self.builtin_op(st, fnj, gargs, args, ret_ty)
            if r is not NotImplemented:
                self.finish_call(st, fr, dest, r, ret_bb)
                return
        # 2. model
        m = self.models.find_model(self, target, fnj, res is not None)
        if m is not None:
            self.stats["models_used"].add(target["pretty"])
            r = m(self, st, call)
            if r is NotImplemented:
                return  # model pushed a frame itself
            self.finish_call(st, fr, dest, r, ret_bb)
            return
        # 3. oracle: unresolved trait method on an opaque receiver
        if res is None and fnj.get("trait"):
            r = self.oracle_call(st, call)
            self.finish_call(st, fr, dest, r, ret_bb)
            return
        raise Unsupported("no model for call to %s" % target["pretty"])

    def call_sync(self, st, callable_, args, ret_ty=None, span=None):
        """Synchronously call a closure / fn item value and return its result (forks and panics propagate)."""
        callable_ = self.resolve(st, callable_)
        if isinstance(callable_, Ref):
            callable_ = self.read(st, callable_.ptr)
        depth = len(st.frames)
        tmp = st.new_obj("tmp")
        if isinstance(callable_, Opaque) and callable_.kind == "Closure":
            fn = self.prog.fns.get(callable_.data[0])
            if fn is None or "body" not in fn:
                raise Unsupported("closure body missing")
            body = fn["body"]
            gargs = list(callable_.data[2].g) if len(callable_.data) > 2 else []
            n = len(fn["generics"])
            gargs = gargs + [{"k": "param", "name": fn["generics"][i]["name"], "idx": i} for i in range(len(gargs), n)]
            sty = body["locals"][1]["ty"]
            if sty.get("k") == "ref":
                oid = st.new_obj("closure", callable_)
                a0 = Ref(Ptr(oid), sty.get("mut", False))
            else:
                a0 = callable_
            self.push_frame(st, fn, body, gargs, [a0] + list(args), Ptr(tmp), -1)
        elif isinstance(callable_, FnV):
            self.invoke(st, callable_.fn, callable_.resolved, callable_.gargs, list(args), Ptr(tmp), ret_ty, -1, span)
        else:
            raise Unsupported("call of %r" % (callable_,))
        while len(st.frames) > depth:
            self.step_inplace(st)
        v = st.mem.pop(tmp)
        return UNIT if v is UNINIT else v

    BUILTIN_BIN = {"add": "Add", "sub": "Sub", "mul": "Mul", "div": "Div"}
    BUILTIN_ASSIGN = {"add_assign": "Add", "sub_assign": "Sub", "mul_assign": "Mul", "div_assign": "Div"}
    OTHER_BIN = {"Rem": "rem", "BitAnd": "bitand", "BitOr": "bitor", "BitXor": "bitxor", "Shl": "shl", "Shr": "shr"}

    def builtin_op(self, st, fnj, gargs, args, ret_ty):
        name = fnj["name"]
        t = gargs[0]
        tr = fnj["trait"].split("::")[-1]
        if tr in ("Add", "Sub", "Mul", "Div") and name in self.BUILTIN_BIN:
            return self.binop(st, self.BUILTIN_BIN[name], args[0], args[1], t, ret_ty)
        if tr in self.OTHER_BIN and name == self.OTHER_BIN[tr]:
            return Term(tr, (self.resolve(st, args[0]), self.resolve(st, args[1])), ret_ty)
        if tr.endswith("Assign") and tr[:-6] in self.OTHER_BIN and name == self.OTHER_BIN[tr[:-6]] + "_assign":
            p = self.deref_value(st, args[0])
            self.write(st, p, Term(tr[:-6], (self.resolve(st, self.read(st, p)), self.resolve(st, args[1])), t))
            return UNIT
        if tr.endswith("Assign") and name in self.BUILTIN_ASSIGN:
            p = self.deref_value(st, args[0])
            self.write(st, p, self.binop(st, self.BUILTIN_ASSIGN[name], self.read(st, p), args[1], t, t))
            return UNIT
        if tr == "Not" and name == "not":
            a = self.resolve(st, args[0])
            if isinstance(a, Const):
                return Const((not a.val) if isinstance(a.val, bool) else ~a.val, a.ty)
            return Term("Not", (a,), t)
        if tr == "Neg" and name == "neg":
            a = self.resolve(st, args[0])
            return Term("Neg", (a,), t) if is_float_ty(t) else int_neg(a, t)
        return NotImplemented

    def find_impl(self, trait, gargs):
        """(impl, binding) of the crate's impl of `trait` (normalised path) that applies to the self type gargs[0]: an impl for that
        very type (local or foreign: `impl PrivateTrait for RefCell<Terminal>`), or the trait's blanket impl (`impl<T: Bound> Tr for T`)
        when that is its only impl - rustc has already checked that the call is well-typed, so the only applicable impl is the one."""
        if not gargs:
            return None
        self_ty = gargs[0]
        cands = [imp for imp in self.prog.impls if self.models.norm(imp.get("trait", "")) == trait]
        blanket = [imp for imp in cands if imp["self"].get("k") == "param"]
        for imp in cands:
            if imp["self"].get("k") == "param":
                continue
            if imp["self"].get("k") != self_ty.get("k"):
                continue
            if self_ty.get("k") == "adt" and imp["self"]["did"] != self_ty["did"]:
                continue
            if self_ty.get("k") == "prim" and imp["self"]["name"] != self_ty["name"]:
                continue
            if self_ty.get("k") not in ("adt", "prim"):
                continue
            targs = imp["trait_args"]
            binding = {}
            if not all(unify(p, g, binding) for p, g in zip(targs, gargs[:len(targs)])):
                continue
            return imp, binding
        if len(blanket) == 1:
            # no impl for this very type applies (checked above), so the blanket impl is the one rustc selected
            imp = blanket[0]
            binding = {}
            if all(unify(p, g, binding) for p, g in zip(imp["trait_args"], gargs[:len(imp["trait_args"])])):
                return imp, binding
        return None

    def resolve_trait_call(self, fnj, gargs):
        """Find a local impl of fnj's trait method for the (now concrete) self type."""
        if not gargs:
            return None
        trait = self.models.norm(fnj["trait"])
        found = self.find_impl(trait, gargs)
        if found is None:
            return None
        imp, binding = found
        for it in imp["items"]:
            if it["name"] == fnj["name"]:
                f = self.prog.fns.get(it["did"])
                if f is None:
                    return None
                n = len(f["generics"])
                ig = [binding.get(i, {"k": "param", "name": f["generics"][i]["name"], "idx": i}) for i in range(n)]
                tgt = {"did": f["did"], "pretty": f["pretty"], "name": f["name"], "local": True, "args": ig,
                       "impl_trait": imp["trait"], "impl_self": imp["self"], "impl_derived": imp["derived"]}
                return tgt, ig
        # provided (default) method of a local trait
        for f in self.prog.by_name.get(fnj["name"], []):
            if f.get("trait_default") and self.models.norm(f.get("trait", "")) == trait and "body" in f:
                n = len(f["generics"])
                ig = list(gargs[:n]) + [{"k": "param", "name": f["generics"][i]["name"], "idx": i} for i in range(len(gargs), n)]
                tgt = {"did": f["did"], "pretty": f["pretty"], "name": f["name"], "local": True, "args": ig, "trait": f["trait"]}
                return tgt, ig
        return None

    def norm_alias(self, t):
        """`<X as Tr>::Name` with the impl of Tr for X known: the impl's own type for Name (None: leave it)"""
        import re as _re
        m = _re.match(r"^<(.*) as (.*)>::(\w+)$", self.models.norm(t.get("s", "")))
        if not m or not t.get("args"):
            return None
        trait, name = m.group(2), m.group(3)
        trait = trait.split("<")[0]
        found = self.find_impl(trait, t["args"])
        if found is None:
            return None
        imp, binding = found
        for it in imp["items"]:
            if it["name"] == name and "ty" in it:
                n = len(imp.get("generics", []))
                ig = [binding.get(i, {"k": "param", "name": imp["generics"][i]["name"], "idx": i}) for i in range(n)]
                return subst(it["ty"], ig) if ig else it["ty"]
        return None

    def resolve_assoc_const(self, c, gargs):
        """an associated const named through its trait (`<T as Tr>::K`): the item of the impl that applies to gargs[0]"""
        pretty = self.models.norm(c.get("pretty", ""))
        if "::" not in pretty:
            return None
        trait, name = pretty.rsplit("::", 1)
        found = self.find_impl(trait, gargs)
        if found is None:
            return None
        imp, binding = found
        for it in imp["items"]:
            if it["name"] == name:
                f = self.prog.fns.get(it["did"])
                if f is not None and "body" in f:
                    n = len(f["generics"])
                    ig = [binding.get(i, {"k": "param", "name": f["generics"][i]["name"], "idx": i}) for i in range(n)]
                    return f, ig
        return None

    def finish_call(self, st, fr, dest, r, ret_bb):
        if r is None:
            r = UNIT
        self.write(st, dest, r)
        if ret_bb == -1:
            return
        if ret_bb is None:
            raise Unsupported("call without return target returned")
        fr.bb, fr.si = ret_bb, 0

    def obj_label(self, st, ptr):
        base = st.labels.get(ptr.obj, ptr.obj.split("#")[0])
        s = base
        for p in ptr.path:
            s += "." + "".join(str(x) for x in p)
        return s

    def oracle_call(self, st, call):
        fnj = call["orig"]
        trait = fnj["trait"].split("::")[-1]
        method = fnj["name"]
        args = call["args"]
        recv = self.resolve(st, args[0]) if args else None
        if isinstance(recv, Ref):
            label = self.obj_label(st, recv.ptr)
        else:
            label = repr(recv)
        ver = st.versions.get(label, 0)
        if method in MUTATING_METHODS or (isinstance(recv, Ref) and recv.mut):
            st.versions[label] = ver + 1
        self.stats["oracles"].add("%s::%s" % (trait, method))
        st.effects.append(("call", label, "%s::%s" % (trait, method), tuple(args[1:])))
        key = (label, method, ver, tuple(args[1:]))
        if self.oracle_fresh:
            # adversarial environment: a repeated poll of the same object is a NEW answer (external getters are not pure)
            key = key + (len([1 for e in st.effects if e[0] == "call" and e[1] == label and e[2].endswith("::" + method)]),)
        if key in st.oracle:
            return st.oracle[key]
        v = None
        if self.oracle_hook is not None:
            v = self.oracle_hook(self, st, label, "%s::%s" % (trait, method), args, call["ret_ty"], ver)
        if v is None:
            n = len([1 for k in st.oracle if k[0] == label and k[1] == method])
            v = Sym("%s.%s()%s" % (label, method, ("#%d" % n) if n else ""), call["ret_ty"])
        st.oracle[key] = v
        return v

    # ------------------------------------------------------------------ drop
    def drop_value(self, st, v, depth=0):
        v = self.resolve(st, v)
        if isinstance(v, Opaque):
            if v.kind in ("RefGuard", "RefMutGuard"):
                self.models.release_guard(self, st, v)
            elif v.kind == "LockGuard":
                st.effects.append(("unlock", v.data[0], self.obj_label(st, v.data[1])))
            elif v.kind == "RBorrow":
                st.effects.append(("ref_release", self.obj_label(st, v.data[0])))
            elif v.kind in ("Closure",):
                for x in v.data[1]:
                    self.drop_value(st, x, depth + 1)
        elif isinstance(v, (Struct, Enum)):
            for f in v.fields:
                self.drop_value(st, f, depth + 1)
        elif isinstance(v, Array):
            for f in v.elems:
                self.drop_value(st, f, depth + 1)

    # ------------------------------------------------------------------ stepping
    def step_inplace(self, st):
        fr = st.frames[-1]
        bb = fr.body["blocks"][fr.bb]
        st.steps += 1
        self.stats["steps"] += 1
        if st.steps > self.max_steps:
            raise Unsupported("step limit exceeded in " + fr.fn["pretty"])
        if fr.si < len(bb["stmts"]):
            s = bb["stmts"][fr.si]
            k = s["k"]
            if k == "assign":
                dty = self.place_ty(fr, s["place"])
                try:
                    v = self.eval_rvalue(st, fr, s["rv"], dty)
                except (SimUB, SimPanic) as e:
                    if e.span is None:
                        e.span = s.get("span")
                    raise
                self.write(st, self.eval_place(st, fr, s["place"]), v)
            elif k == "live":
                st.mem[fr.locals[s["l"]]] = UNINIT
            elif k == "dead":
                pass
            elif k == "setdiscr":
                ptr = self.eval_place(st, fr, s["place"])
                cur = self.read(st, ptr)
                ty = self.place_ty(fr, s["place"])
                vs = self.enum_variants(ty)
                if vs is None:
                    raise Unsupported("setdiscr on non-enum")
                if isinstance(cur, Enum) and cur.variant == s["v"]:
                    pass
                else:
                    self.write(st, ptr, Enum(ty, s["v"], vs[s["v"]]["name"], [UNINIT] * vs[s["v"]]["nfields"]))
            elif k == "intrinsic":
                pass
            else:
                raise Unsupported("statement " + k + " " + s.get("s", ""))
            fr.si += 1
            return
        t = bb["term"]
        k = t["k"]
        try:
            if k == "goto":
                fr.bb, fr.si = t["t"], 0
            elif k == "switch":
                v = self.resolve(st, self.eval_operand(st, fr, t["discr"]))
                if not isinstance(v, Const):
                    if is_bool_ty(subst(t["dty"], fr.gargs)):
                        v = Const(self.decide_bool(st, v), prim("bool"))
                    else:
                        raise Unsupported("switch on symbolic %r" % (v,))
                iv = int(v.val)
                if iv < 0:
                    dn = subst(t["dty"], fr.gargs).get("name", "")
                    bits = {"i8": 8, "i16": 16, "i32": 32, "i64": 64, "i128": 128, "isize": 64}.get(dn, 64)
                    iv &= (1 << bits) - 1
                tgt = t["otherwise"]
                for val, bbx in t["targets"]:
                    if val == iv:
                        tgt = bbx
                        break
                fr.bb, fr.si = tgt, 0
            elif k == "return":
                fr2, ret = self.pop_frame(st)
                if ret is UNINIT and ty_str(self_ret_ty(fr2)) == "()":
                    ret = UNIT
                if fr2.tag and fr2.tag[0] == "post":
                    ret = self.models.POST[fr2.tag[1]](self, st, ret, fr2.tag[2])
                if fr2.dest is not None:
                    self.write(st, fr2.dest, ret)
                if st.frames and fr2.ret_bb is not None and fr2.ret_bb != -1:
                    caller = st.frames[-1]
                    caller.bb, caller.si = fr2.ret_bb, 0
                elif not st.frames:
                    st.result = ret
            elif k == "call":
                self.exec_call(st, fr, t)
            elif k == "drop":
                ptr = self.eval_place(st, fr, t["place"])
                v = st.mem.get(ptr.obj, UNINIT) if not ptr.path else self.read(st, ptr)
                if v is not UNINIT:
                    self.drop_value(st, v)
                fr.bb, fr.si = t["t"], 0
            elif k == "assert":
                msg = t["msg"]
                if msg in ("MisalignedPointerDereference", "NullPointerDereference") or msg.startswith("InvalidEnumConstruction"):
                    fr.bb, fr.si = t["t"], 0
                else:
                    c = self.resolve(st, self.eval_operand(st, fr, t["cond"]))
                    if isinstance(c, Const):
                        ok = bool(c.val) == t["expected"]
                    else:
                        if msg.startswith("Overflow") or msg == "OverflowNeg":
                            st.notes.add("assume-no-integer-overflow")
                            ok = True
                        elif msg in ("DivisionByZero", "RemainderByZero"):
                            st.notes.add("assume-nonzero-divisor")
                            ok = True
                        else:
                            ok = self.decide_bool(st, c) == t["expected"]
                    if ok:
                        fr.bb, fr.si = t["t"], 0
                    else:
                        raise SimPanic("assert:" + msg, msg, t["span"])
            elif k == "unreachable":
                raise SimUB("unreachable", "reached MIR Unreachable", t["span"])
            else:
                raise Unsupported("terminator " + k)
        except (SimUB, SimPanic) as e:
            if e.span is None:
                e.span = t.get("span")
            raise

    def explore(self, st0):
        """Run all paths from st0; returns list of Leaf."""
        leaves = []
        work = [st0]
        while work:
            st = work.pop()
            while True:
                trial = st.copy()
                try:
                    if not st.frames:
                        r = self.resolve(st, st.result)
                        if isinstance(r, Term) and is_bool_ty(r.ty) and (r.op.startswith("Cmp:") or r.op in ("BitAnd", "BitOr", "BitXor", "Not")):
                            trial.result = Const(self.decide_bool(trial, r), prim("bool"))   # may fork
                            st = trial
                            continue
                        leaves.append(Leaf("return", st.result, st))
                        break
                    self.step_inplace(trial)
                    st = trial
                except Fork as f:
                    self.stats["forks"] += 1
                    for pc_entry, fn in reversed(f.choices):
                        s2 = st.copy()
                        fn(s2)
                        s2.pc.append(pc_entry)
                        work.append(s2)
                    break
                except SimPanic as e:
                    leaves.append(Leaf("panic", None, trial, {"kind": e.kind, "msg": e.msg, "span": e.span, "fn": cur_fn(trial)}))
                    break
                except SimUB as e:
                    leaves.append(Leaf("ub", None, trial, {"kind": e.kind, "msg": e.msg, "span": e.span, "fn": cur_fn(trial)}))
                    break
                except Unsupported as e:
                    leaves.append(Leaf("unsupported", None, trial, {"msg": str(e), "fn": cur_fn(trial), "span": cur_span(trial)}))
                    break
            if len(leaves) > self.max_leaves:
                leaves.append(Leaf("unsupported", None, st, {"msg": "leaf limit exceeded", "fn": "?", "span": None}))
                break
        return leaves

    def run(self, fn, gargs, args, st=None):
        """Simulate fn (facts JSON) with generic args and argument values; returns leaves."""
        st = st or State()
        import program as _program
        _program.NORMALISER[0] = self.norm_alias      # alias types are normalised against THIS program's impls while it runs
        if "body" not in fn:
            raise Unsupported("no body for " + fn["pretty"])
        try:
            self.push_frame(st, fn, fn["body"], gargs, args, None, None)
        except Unsupported as e:
            return [Leaf("unsupported", None, st, {"msg": str(e), "fn": fn["pretty"], "span": None})]
        return self.explore(st)

    # convenience constructors --------------------------------------------------------------
    def identity_gargs(self, fn):
        out = []
        for g in fn["generics"]:
            if g["kind"] == "type":
                out.append({"k": "param", "name": g["name"], "idx": g["idx"]})
            elif g["kind"] == "const":
                out.append({"k": "const", "c": {"k": "param", "name": g["name"], "idx": g["idx"]}})
            else:
                out.append({"k": "region", "r": {"k": "erased"}})
        return out

    def make_arg(self, st, name, ty):
        """Symbolic argument of type ty; references get a fresh referent object."""
        if ty.get("k") in ("ref", "ptr"):
            oid = st.new_obj(name, self.make_arg(st, name, ty["ty"]))
            st.labels[oid] = name
            return Ref(Ptr(oid), ty.get("mut", False))
        return Sym(name, ty)

    def final_value(self, st, v, depth=0):
        """Fully resolve a value for reporting/comparison (expands refinements and struct symbols recursively)."""
        v = self.resolve(st, v)
        if depth > 12:
            return v
        if isinstance(v, Sym) and v.ty is not None and v.ty.get("k") in ("adt", "tuple", "array"):
            try:
                v = self.expand(st, v)
            except Unsupported:
                pass
        if isinstance(v, Struct):
            return Struct(v.ty, [self.final_value(st, f, depth + 1) for f in v.fields])
        if isinstance(v, Enum):
            return Enum(v.ty, v.variant, v.vname, [self.final_value(st, f, depth + 1) for f in v.fields])
        if isinstance(v, Array):
            return Array([self.final_value(st, f, depth + 1) for f in v.elems], v.ty)
        if isinstance(v, Opaque) and v.kind in ("RefCell", "MU"):
            return Opaque(v.kind, (self.final_value(st, v.data[0], depth + 1),) + v.data[1:], v.ty)
        if isinstance(v, Opaque) and v.kind == "List":
            return Opaque("List", (tuple(self.final_value(st, e, depth + 1) for e in v.data[0]),), v.ty)
        return v


class GBox:
    """Hashable wrapper carrying generic args along with a closure value."""
    def __init__(self, g):
        self.g = g
        self._k = repr(g)

    def __eq__(self, o):
        return isinstance(o, GBox) and o._k == self._k

    def __hash__(self):
        return hash(self._k)

    def __repr__(self):
        return "<gargs>"


def self_ret_ty(fr):
    return subst(fr.body["locals"][0]["ty"], fr.gargs)


def cur_fn(st):
    return st.frames[-1].fn["pretty"] if st.frames else "?"


def cur_span(st):
    if not st.frames:
        return None
    fr = st.frames[-1]
    bb = fr.body["blocks"][fr.bb]
    if fr.si < len(bb["stmts"]):
        return bb["stmts"][fr.si].get("span")
    return bb["term"].get("span")


def rel_of(a, b):
    return "<" if a < b else ("=" if a == b else ">")


_wo_cache = {}


def weak_orderings(n):
    """All rank tuples (surjective onto 0..k-1) = weak orderings of n items."""
    if n in _wo_cache:
        return _wo_cache[n]
    res = []
    for t in itertools.product(range(n), repeat=n):
        m = max(t) if t else -1
        if set(t) == set(range(m + 1)):
            res.append(t)
    _wo_cache[n] = res
    return res


def unify(pat, ty, binding):
    """Unify impl-side type/generic-arg pattern with a concrete generic arg; binds params by index."""
    if pat.get("k") == "region" or ty.get("k") == "region":
        return True
    if pat.get("k") == "param":
        i = pat["idx"]
        if i in binding:
            return repr(binding[i]) == repr(ty)
        binding[i] = ty
        return True
    if pat.get("k") == "const":
        c = pat["c"]
        if c.get("k") == "param":
            binding[c["idx"]] = ty
            return True
        return ty.get("k") == "const" and ty["c"] == c
    if pat.get("k") != ty.get("k"):
        return False
    k = pat["k"]
    if k == "prim":
        return pat["name"] == ty["name"]
    if k == "adt":
        return pat["did"] == ty["did"] and all(unify(a, b, binding) for a, b in zip(pat["args"], ty["args"]))
    if k in ("ref", "ptr", "slice"):
        return unify(pat["ty"], ty["ty"], binding)
    if k == "tuple":
        return len(pat["tys"]) == len(ty["tys"]) and all(unify(a, b, binding) for a, b in zip(pat["tys"], ty["tys"]))
    if k == "array":
        return unify(pat["ty"], ty["ty"], binding)
    return repr(pat) == repr(ty)
