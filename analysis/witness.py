"""Engine E: type-level witnesses.  Small downstream programs that must compile, or must fail to compile with a given
error code; each failing witness has a compiling twin so that a merely broken path cannot pass as 'fails to compile'."""
import os, re, json, subprocess, tempfile, shutil
import program

WITNESS_DIR = os.path.join(program.VERIF, "witness")
_cache = {}


def expectations(crate):
    d = os.path.join(WITNESS_DIR, crate, "src", "bin")
    out = {}
    for f in sorted(os.listdir(d)):
        if not f.endswith(".rs"):
            continue
        txt = open(os.path.join(d, f)).read()
        m = re.search(r"^//@ expect: (pass|fail)(?: (E\d+))?", txt, re.M)
        prop = re.search(r"^//@ (property|known-finding): (\S+)\s+(.*)$", txt, re.M)
        out[f[:-3]] = {"expect": m.group(1), "code": m.group(2), "kind": prop.group(1) if prop else None,
                       "property": prop.group(2) if prop else None, "text": prop.group(3) if prop else ""}
    return out


def run(crate):
    """Type-check every bin of the witness crate against /repo's current tree. Returns {bin: set(error codes) | None if it compiled}."""
    if crate in _cache:
        return _cache[crate]
    src = os.path.join(WITNESS_DIR, crate)
    work = tempfile.mkdtemp(prefix="witness-", dir=program.tmp_root())
    dst = os.path.join(work, crate)
    shutil.copytree(src, dst)
    lock = os.path.join(program.REPO, "Cargo.lock")
    if os.path.exists(lock):
        shutil.copy(lock, os.path.join(dst, "Cargo.lock"))
    program.point_at_repo(os.path.join(dst, "Cargo.toml"))
    env = dict(os.environ, CARGO_TARGET_DIR=os.path.join(work, "target"), CARGO_NET_OFFLINE="true")
    p = subprocess.run(["cargo", "+nightly", "check", "--offline", "--bins", "--keep-going", "--message-format=json"],
                       cwd=dst, env=env, capture_output=True, text=True)
    res = {}
    built = set()
    for l in p.stdout.splitlines():
        try:
            m = json.loads(l)
        except Exception:
            continue
        if m.get("reason") == "compiler-message" and m["message"]["level"] == "error" and "bin" in m["target"]["kind"]:
            code = (m["message"].get("code") or {}).get("code")
            res.setdefault(m["target"]["name"], set()).add(code or "?")
        if m.get("reason") == "compiler-artifact" and "bin" in m["target"]["kind"]:
            built.add(m["target"]["name"])
    for b in built:
        res.setdefault(b, None)
    shutil.rmtree(work, ignore_errors=True)
    dep_failed = p.returncode != 0 and not res
    _cache[crate] = (res, dep_failed, p.stderr[-2000:])
    return _cache[crate]


def check(chk, crate, prop, rule, only=None):
    """Evaluate the witnesses of `crate` that belong to property `prop`; violations under `rule`."""
    exp = expectations(crate)
    res, dep_failed, err = run(crate)
    mine = {k: v for k, v in exp.items() if v["property"] == prop and (only is None or k in only)}
    key = "witness:" + crate + ("" if only is None else ":" + prop)
    chk.obligation(key, "%d type-level witnesses (%s)" % (len(mine), crate))
    ok = True
    if dep_failed:
        chk.violation("analysis-incomplete", key, "witness crate could not be type-checked at all: %s" % err[-400:])
        return
    for name, e in mine.items():
        chk.evaluated(1, nontrivial=(key, name))
        got = res.get(name, "missing")
        if got == "missing":
            chk.violation("analysis-incomplete", key + ":" + name, "witness %s produced no result" % name)
            ok = False
            continue
        if e["expect"] == "pass":
            if got is not None:
                if e["kind"] == "known-finding":
                    chk.notes.append("known-finding witness %s no longer compiles (the defect may be repaired): %s" % (name, sorted(got)))
                else:
                    chk.violation(rule, "witness:" + name, "witness %s must compile but fails with %s: %s" % (name, sorted(got), e["text"]))
                    ok = False
        else:
            if got is None:
                chk.violation(rule, "witness:" + name, "witness %s must be rejected by the compiler (%s) but type-checks: %s" % (name, e["code"], e["text"]))
                ok = False
            elif e["code"] and e["code"] not in got:
                chk.violation(rule, "witness:" + name, "witness %s fails with %s instead of %s (the witness no longer tests what it should)" % (name, sorted(got), e["code"]))
                ok = False
        chk.sample({"witness": name, "expect": e["expect"] + (" " + e["code"] if e["code"] else ""), "got": "compiles" if got is None else sorted(got)}, cap=20)
    if ok:
        chk.discharge(key)
