"""Shared helpers for the dimensional-analysis properties (C01, C18, C19)."""
import re
from values import *
from program import subst, ty_str, is_adt, prim, AnchorMissing, loc
import sim as S
import devkit as D

OPS2 = {"Add": "add", "Sub": "sub", "Mul": "mul", "Div": "div"}
OPSA = {"AddAssign": "add_assign", "SubAssign": "sub_assign", "MulAssign": "mul_assign", "DivAssign": "div_assign"}
OPS1 = {"Neg": "neg"}
ALLOPS = {**OPS2, **OPSA, **OPS1}
BASE = {"Add": "Add", "Sub": "Sub", "Mul": "Mul", "Div": "Div", "AddAssign": "Add", "SubAssign": "Sub", "MulAssign": "Mul", "DivAssign": "Div", "Neg": "Neg"}
DIM_TYPES = ("Unit", "Quantity", "Time", "DimensionlessInteger")


def ops_impls(prog, self_names=DIM_TYPES):
    out = []
    for imp in prog.impls:
        tr = imp.get("trait", "").split("::")[-1]
        if tr in ALLOPS and imp["self"].get("k") == "adt" and imp["self"]["name"] in self_names:
            it = [i for i in imp["items"] if i["name"] == ALLOPS[tr]]
            if it:
                out.append((imp, tr, prog.fns[it[0]["did"]]))
    return out


def parse_unit_name(name):
    """(mm, s) exponents stated by a constant's name, or None."""
    if name == "DIMENSIONLESS":
        return (0, 0)
    exp = {"MILLIMETER": 0, "SECOND": 0}

    def part(s, sign):
        toks = s.split("_")
        i = 0
        while i < len(toks):
            u = toks[i]
            if u not in exp:
                raise ValueError(name)
            p = 1
            if i + 1 < len(toks) and toks[i + 1] in ("SQUARED", "CUBED"):
                p = 2 if toks[i + 1] == "SQUARED" else 3
                i += 1
            exp[u] += sign * p
            i += 1
    try:
        if name.startswith("INVERSE_"):
            part(name[len("INVERSE_"):], -1)
        elif "_PER_" in name:
            a, b = name.split("_PER_")
            part(a, 1)
            part(b, -1)
        else:
            part(name, 1)
    except ValueError:
        return None
    return (exp["MILLIMETER"], exp["SECOND"])


def _is_exp_ty(t):
    return t.get("k") == "prim" and t.get("name") in ("i8", "i16", "i32", "i64", "isize")


def unit_value(sim, prog, m, s):
    """Unit with the two exponents m, s - the first and second integer leaf of the type, wherever a maintainer keeps them
    (two fields today; private newtypes or a private sub-struct are looked through: layout)"""
    import layout
    uty = unit_ty(prog)
    fs = sim.adt_fields(uty)
    if not fs:
        return Struct(uty, ())
    todo = [m, s]

    def leaf(dotted, t):
        if _is_exp_ty(t) and todo:
            x = todo.pop(0)
            return x if isinstance(x, V) else Const(x, t)
        if is_adt(t, "PhantomData"):
            return Struct(t, ())
        return None
    v = layout.build_symbolic(sim, uty, leaf, prefix="unit")
    if todo:
        raise AnchorMissing("two integer exponents of Unit")
    return v


def unit_leaf_names(sim, prog):
    """dotted names of the two exponent leaves of Unit (e.g. millimeter_exp, second_exp - or millimeter_exp.0, ...)"""
    import layout
    out = []

    def leaf(dotted, t):
        if _is_exp_ty(t):
            out.append(dotted)
        return None
    layout.build_symbolic(sim, unit_ty(prog), leaf, prefix="unit")
    return out[:2]


def unit_ty(prog):
    a = prog.adt_by_name("Unit")
    return {"k": "adt", "did": a["did"], "name": "Unit", "args": []}


def quantity_ty(prog):
    a = prog.adt_by_name("Quantity")
    return {"k": "adt", "did": a["did"], "name": "Quantity", "args": []}


def unit_exps(sim, st, v):
    """(mm, s) abstract ints of a Unit value (None if units are compiled out)."""
    import layout
    v = sim.final_value(st, v)
    if isinstance(v, Struct) and v.fields:
        ls = [x for _n, x in layout.value_leaves(sim, v) if not (isinstance(x, Struct) and not x.fields) and not isinstance(x, Opaque)]
        if len(ls) == 2:
            return ls[0], ls[1]
    return None


def run_simple(sim, fn, args, gargs=None, st=None):
    st = st or S.State()
    gargs = gargs if gargs is not None else sim.identity_gargs(fn)
    return sim.run(fn, gargs, args, st)


def leaf_outcome(sim, leaf, result_of=None):
    """Canonical outcome of a leaf for set comparison: (kind, value, pc-set)."""
    if leaf.kind == "return":
        v = result_of(leaf) if result_of else leaf.value
        return ("return", repr(D.comm_norm(sim.final_value(leaf.state, v))), frozenset(map(repr, leaf.pc)))
    if leaf.kind == "panic":
        return ("panic", leaf.info.get("kind"), frozenset(map(repr, leaf.pc)))
    return (leaf.kind, leaf.info.get("msg"), frozenset(map(repr, leaf.pc)))


def find_from(prog, target, source):
    """fn of `impl From<source> for target`."""
    for imp in prog.impls:
        if imp.get("trait", "").split("::")[-1] == "From" and imp["self"].get("k") in ("adt", "prim") and ty_str(imp["self"]) == target \
                and ty_str(imp["trait_args"][1]) == source:
            return prog.fns[[i for i in imp["items"] if i["name"] == "from"][0]["did"]]
    raise AnchorMissing("impl From<%s> for %s" % (source, target))


def find_try_from(prog, target, source):
    for imp in prog.impls:
        if imp.get("trait", "").split("::")[-1] == "TryFrom" and ty_str(imp["self"]) == target and ty_str(imp["trait_args"][1]) == source:
            return prog.fns[[i for i in imp["items"] if i["name"] == "try_from"][0]["did"]]
    return None
