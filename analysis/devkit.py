"""Terminal / device modelling helpers: concrete abstract heaps of RefCell<Terminal> cells."""
from values import *
from program import subst, ty_str, is_adt, prim, AnchorMissing, loc
import sim as S
import streamkit as K


def find_ty(t, name):
    """First ADT type named `name` inside type JSON t."""
    if t is None:
        return None
    if is_adt(t, name):
        return t
    k = t.get("k")
    if k in ("ref", "ptr", "slice", "array"):
        return find_ty(t["ty"], name)
    if k == "adt":
        for a in t["args"]:
            r = find_ty(a, name) if a.get("k") not in ("region", "const") else None
            if r:
                return r
    if k == "tuple":
        for a in t["tys"]:
            r = find_ty(a, name)
            if r:
                return r
    return None


class Heap:
    """Builder of terminal cells in a simulator state."""
    following = False      # True: terminals follow a (symbolic) getter for state and command

    def __init__(self, sim, st, terminal_ty):
        self.sim, self.st, self.tty = sim, st, terminal_ty
        import layout
        self.cells = {}
        # where a terminal keeps its two settable-data records and its partner link: found by type through private sub-structs,
        # tuples and newtypes (layout.leaves), not by position or name
        self.leaves = layout.leaves(sim, terminal_ty, stop=("SettableData", "Option", "RefCell"))

        def one(pred, what):
            c = [(n, t, p) for (n, t, p) in self.leaves if pred(t)]
            if len(c) != 1:
                raise AnchorMissing("Terminal %s field" % what)
            return c[0]
        _, self.ty_state, self.p_state = one(lambda t: is_adt(t, "SettableData") and "State" in ty_str(t), "state settable-data")
        _, self.ty_cmd, self.p_cmd = one(lambda t: is_adt(t, "SettableData") and "Command" in ty_str(t), "command settable-data")
        _, self.ty_other, self.p_other = one(lambda t: is_adt(t, "Option") and t["args"][0].get("k") == "ref", "partner-link")

    def build_value(self, ty, prefix, special, path=()):
        """a value of struct type ty with the leaves in `special` (path -> value) and fresh symbols elsewhere"""
        import layout
        fs = []
        for i, (n, t) in enumerate(layout.children(self.sim, ty)):
            p = path + (i,)
            if p in special:
                fs.append(special[p])
            elif layout.transparent(self.sim, t, ("SettableData", "Option", "RefCell")):
                fs.append(self.build_value(t, prefix + "." + n, special, p))
            else:
                fs.append(Sym(prefix + "." + n, t))
        return Struct(ty, fs)

    def get(self, term_val, which):
        import layout
        return layout.get_path(self.sim, None, term_val, {"state": self.p_state, "cmd": self.p_cmd, "other": self.p_other}[which])

    def with_other(self, term_val, other_val):
        import layout
        return layout.set_path(self.sim, None, term_val, self.p_other, other_val)

    def settable(self, ty, req):
        """SettableData in the state (following a fresh symbolic getter | nothing, last request req | none) - built through the
        crate's own constructor / set / follow (sdkit), whatever its fields are"""
        import sdkit
        k = sdkit.kit(self.sim, self.sim.prog)
        fol = None
        if self.following:
            ffn = sdkit.trait_default(self.sim.prog, "Settable", "follow")
            gty = subst(ffn["sig_inputs"][1], self.sim.identity_gargs(ffn))
            fol = Sym("followed_%d" % len(self.st.mem), gty)
        return k.make(ty, following=fol, request=req)

    def datum(self, opt_ty_holder, tag, prefix):
        """Datum value of the payload type stored in SettableData<Datum<X>,E> field idx."""
        sd_ty = {"state": self.ty_state, "cmd": self.ty_cmd}[opt_ty_holder]
        dty = sd_ty["args"][0]
        fs = self.sim.adt_fields(dty)
        return Struct(dty, (Struct(fs[0][1], (Sym("t%s%s" % (prefix, tag), prim("i64")),)), Sym("%s%s" % (prefix, tag), fs[1][1])))

    def terminal(self, tag, state=False, cmd=False, other=None):
        oty = self.ty_other
        special = {
            self.p_state: self.settable(self.ty_state, self.datum("state", tag, "s") if state else None),
            self.p_cmd: self.settable(self.ty_cmd, self.datum("cmd", tag, "c") if cmd else None),
            self.p_other: self.sim.mk_enum(oty, "None") if other is None else self.sim.mk_enum(oty, "Some", [Ref(Ptr(other))]),
        }
        return self.build_value(self.tty, "cell_" + tag, special)

    def cell(self, tag, state=False, cmd=False):
        oid = self.st.new_obj("cell_" + tag, Opaque("RefCell", (self.terminal(tag, state, cmd), 0)))
        self.st.labels[oid] = "cell_" + tag
        self.cells[tag] = oid
        return oid

    def link(self, a, b):
        for x, y in ((a, b), (b, a)):
            cell = self.st.mem[self.cells[x]]
            t = self.with_other(cell.data[0], self.sim.mk_enum(self.ty_other, "Some", [Ref(Ptr(self.cells[y]))]))
            self.st.mem[self.cells[x]] = Opaque("RefCell", (t, cell.data[1]))

    def partner(self, st, tag):
        cell = self.sim.final_value(st, st.mem[self.cells[tag]])
        o = self.get(cell.data[0], "other")
        if isinstance(o, Enum) and o.vname == "Some":
            r = o.fields[0]
            for k, oid in self.cells.items():
                if isinstance(r, Ref) and r.ptr.obj == oid:
                    return k
            return "?"
        return None

    def borrow_state(self, st, tag):
        return st.mem[self.cells[tag]].data[1]

    def slot(self, st, tag, which):
        cell = self.sim.final_value(st, st.mem[self.cells[tag]])
        sd = self.get(cell.data[0], "state" if which == "state" else "cmd")
        import sdkit
        return sdkit.kit(self.sim, self.sim.prog).request_option(None, sd)


def comm_norm(v):
    """Normalise commutative float Add/Mul terms (IEEE add/mul are commutative) for comparison."""
    if isinstance(v, Term):
        args = tuple(comm_norm(a) for a in v.args)
        if v.op in ("Add", "Mul"):
            args = tuple(sorted(args, key=repr))
        return Term(v.op, args, v.ty)
    if isinstance(v, Struct):
        return Struct(v.ty, [comm_norm(f) for f in v.fields])
    if isinstance(v, Enum):
        return Enum(v.ty, v.variant, v.vname, [comm_norm(f) for f in v.fields])
    return v


def terminal_getters(prog):
    out = {}
    for f in prog.find_fns(name="get", self_name="Terminal", trait="Getter"):
        t = ty_str(f["impl_trait_args"][1])
        out[t] = f
    for k in ("State", "Command", "TerminalData"):
        if k not in out:
            raise AnchorMissing("Getter<%s> for Terminal" % k)
    return out


def run_terminal_get(sim, prog, getfn, own_state, own_cmd, partner, p_state=False, p_cmd=False, following=False):
    """Simulate <Terminal as Getter<X>>::get on terminal 'a' (optionally linked to 'b')."""
    st = S.State()
    gargs = sim.identity_gargs(getfn)
    tty = subst(getfn["impl_self"], gargs)
    h = Heap(sim, st, tty)
    h.following = following
    h.cell("a", own_state, own_cmd)
    if partner:
        h.cell("b", p_state, p_cmd)
        h.link("a", "b")
    self_ref = Ref(Ptr(h.cells["a"]).ext(("inner",)), False)
    leaves = sim.run(getfn, gargs, [self_ref], st)
    return leaves, h


def check_c03(chk, prog, sim):
    """C03 obligations on terminal reads: state mean carries the newest time, command read selects the newest."""
    gets = terminal_getters(prog)
    for which, key in (("State", "terminal-read:state"), ("Command", "terminal-read:command"), ("TerminalData", "terminal-read:data")):
        chk.obligation(key, "timestamp rule of <Terminal as Getter<%s>>::get" % which)
        fn = gets[which]
        chk.analysed(fn["pretty"])
        ok = True
        for own_s in (False, True):
            for own_c in (False, True):
                for partner in (False, True):
                    for ps in ((False, True) if partner else (False,)):
                        for pc_ in ((False, True) if partner else (False,)):
                            leaves, h = run_terminal_get(sim, prog, fn, own_s, own_c, partner, ps, pc_)
                            case = "own(s=%d,c=%d) partner=%s(s=%d,c=%d)" % (own_s, own_c, partner, ps, pc_)
                            for leaf in leaves:
                                chk.evaluated(1, nontrivial=(key, case, repr(leaf.pc)))
                                if leaf.kind != "return":
                                    chk.violation("analysis-incomplete" if leaf.kind == "unsupported" else "C03.terminal", key + ":" + case,
                                                  "Terminal Getter<%s> %s: %s %s" % (which, case, leaf.kind, leaf.info.get("msg")), site=K.leaf_site(leaf))
                                    ok = False
                                    continue
                                ta = K.time_arith(leaf)
                                if ta:
                                    chk.violation("C03.terminal", key + ":time-arithmetic", "Terminal Getter<%s> %s does integer arithmetic on timestamps (%s %s %s) instead of comparing them: overflows for near-extreme timestamps"
                                                  % ((which, case) + tuple(ta[0])), fn=fn["pretty"])
                                    ok = False
                                g = K.classify_output(sim, leaf.state, leaf.value)
                                if which == "State":
                                    cands = [Sym("tsa")] * own_s + [Sym("tsb")] * (partner and ps)
                                elif which == "Command":
                                    cands = [Sym("tca")] * own_c + [Sym("tcb")] * (partner and pc_)
                                else:
                                    s_c = [Sym("tsa")] * own_s + [Sym("tsb")] * (partner and ps)
                                    c_c = [Sym("tca")] * own_c + [Sym("tcb")] * (partner and pc_)
                                    cands = s_c if s_c else c_c   # the state's timestamp wins when there is one
                                if not cands:
                                    good = g == ("N",)
                                else:
                                    good = g is not None and g[0] == "S" and g[1] in cands and K.no_candidate_newer(sim, leaf.state, g[1], cands)
                                if not good:
                                    chk.violation("C03.terminal", key + ":" + case, "Terminal Getter<%s> with %s on path %s returns %r; expected %s"
                                                  % (which, case, leaf.pc, g, "None" if not cands else "the newest of %s" % cands), fn=fn["pretty"], file=loc(fn["span"]))
                                    ok = False
        if ok:
            chk.discharge(key)


# ------------------------------------------------------------------------------------------------
# devices: explicit self values with inline terminal cells

class DeviceHeap:
    """Device value whose RefCell<Terminal> fields are concrete cells; optional partner cells per terminal."""
    def __init__(self, sim, prog, fn, gargs, st, presets=None):
        self.sim, self.prog, self.st = sim, prog, st
        self.dev_ty = subst(fn["sig_inputs"][0], gargs)["ty"]
        self.tty = find_ty(self.dev_ty_fields_ty(), "Terminal")
        self.h = Heap(sim, st, self.tty)
        self.terms = []       # (path-steps to the cell inside the device value, tag)
        self.partners = {}    # tag -> partner cell obj
        self.presets = presets or {}

    def dev_ty_fields_ty(self):
        import layout
        for n, t, p in layout.leaves(self.sim, self.dev_ty, stop=("RefCell", "Reference", "SettableData")):
            r = find_ty(t, "Terminal")
            if r:
                return t
        raise AnchorMissing("terminal field of device")

    def build(self, config):
        """config: list per terminal of dict(state=bool, cmd=bool, partner=None|dict(state=bool, cmd=bool)).
        Terminals are taken in declaration order of the RefCell<Terminal> leaves of the device (arrays expand; private sub-structs,
        newtypes and tuples are looked through: layout)."""
        import layout
        sim, st = self.sim, self.st
        ti = [0]

        def has_term(t):
            return bool(find_ty(t, "Terminal")) or (layout.transparent(sim, t, ("RefCell", "Reference", "SettableData")) and any(has_term(ct) for _n, ct in layout.children(sim, t)))

        def build(ty, prefix, steps):
            vals = []
            for i, (n, t) in enumerate(layout.children(sim, ty)):
                here = steps + (("f", i),)
                dotted = (prefix + "." + n) if prefix else n
                if is_adt(t, "RefCell") and find_ty(t, "Terminal"):
                    vals.append(self._cell(config[ti[0]], ti[0]))
                    self.terms.append((here, str(ti[0])))
                    ti[0] += 1
                elif t.get("k") == "array" and is_adt(t["ty"], "RefCell") and find_ty(t["ty"], "Terminal"):
                    from program import const_val
                    k = const_val(t["len"])
                    elems = []
                    for j in range(k):
                        elems.append(self._cell(config[ti[0]], ti[0]))
                        self.terms.append((here + (("i", j),), str(ti[0])))
                        ti[0] += 1
                    vals.append(Array(elems, t))
                elif dotted in self.presets:
                    vals.append(self.presets[dotted])
                elif layout.transparent(sim, t, ("RefCell", "Reference", "SettableData")) and has_term(t):
                    vals.append(build(t, dotted, here))
                else:
                    vals.append(Sym("self." + dotted, t))
            return Struct(ty, vals)
        devval = build(self.dev_ty, "", ())
        self.oid = st.new_obj("dev", devval)
        st.labels[self.oid] = "dev"
        # link partners (need device object id for back references)
        for (path, tag), conf in zip(self.terms, config):
            if conf.get("partner") is not None:
                pc = conf["partner"]
                poid = st.new_obj("partner_" + tag, Opaque("RefCell", (self.h.terminal("p" + tag, pc.get("state", False), pc.get("cmd", False)), 0)))
                st.labels[poid] = "partner_" + tag
                self.partners[tag] = poid
                # partner.other -> device terminal cell ; device terminal.other -> partner
                cellptr = Ptr(self.oid, path)
                pv = st.mem[poid]
                oty = self.h.ty_other
                st.mem[poid] = Opaque("RefCell", (self.h.with_other(pv.data[0], sim.mk_enum(oty, "Some", [Ref(cellptr)])), 0))
                cell = sim.read(st, cellptr)
                sim.write(st, cellptr, Opaque("RefCell", (self.h.with_other(cell.data[0], sim.mk_enum(oty, "Some", [Ref(Ptr(poid))])), 0)))
        return Ref(Ptr(self.oid), True)

    def _cell(self, conf, i):
        return Opaque("RefCell", (self.h.terminal(str(i), conf.get("state", False), conf.get("cmd", False)), 0))

    def own_slot(self, st, i, which):
        path, tag = self.terms[i]
        cell = self.sim.final_value(st, self.sim.read(st, Ptr(self.oid, path)))
        sd = self.h.get(cell.data[0], "state" if which == "state" else "cmd")
        import sdkit
        return sdkit.kit(self.sim, self.sim.prog).request_option(None, sd)

    def cell_ptr(self, i):
        return Ptr(self.oid, self.terms[i][0])

    def borrow_states(self, st):
        return [self.sim.read(st, Ptr(self.oid, p)).data[1] for p, _ in self.terms]


def read_after(sim, prog, leaf, cellptr, which):
    """Run <Terminal as Getter<which>>::get on a cell of the leaf's post-state; returns leaves."""
    fn = terminal_getters(prog)[which]
    st = leaf.state.copy()
    st.frames = []
    st.effects = []
    return sim.run(fn, sim.identity_gargs(fn), [Ref(cellptr.ext(("inner",)), False)], st)


def opt_datum(v):
    """Option<Datum<X>> final value -> None | (time_i64, payload)."""
    if isinstance(v, Enum) and v.vname == "Some":
        d = v.fields[0]
        t = d.fields[0]
        t = t.fields[0] if isinstance(t, Struct) and len(t.fields) == 1 else t
        return (t, d.fields[1])
    return None


def exact_norm(v):
    """Exact f32 identities only: Neg(Neg(x)) = x (sign-bit flip is an involution)."""
    if isinstance(v, Term):
        args = tuple(exact_norm(a) for a in v.args)
        if v.op == "Neg" and isinstance(args[0], Term) and args[0].op == "Neg":
            return args[0].args[0]
        return Term(v.op, args, v.ty)
    if isinstance(v, Struct):
        return Struct(v.ty, [exact_norm(f) for f in v.fields])
    if isinstance(v, Enum):
        return Enum(v.ty, v.variant, v.vname, [exact_norm(f) for f in v.fields])
    return v
