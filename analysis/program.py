"""Program model over mirfacts JSON: indexes, type helpers, fact acquisition (runs the driver)."""
import json, os, subprocess, tempfile, shutil, atexit, sys, hashlib

VERIF = os.path.dirname(os.path.dirname(os.path.abspath(__file__)))
REPO = os.environ.get("RRTK_REPO", "/repo")
DRIVER = os.path.join(VERIF, "driver", "target", "release", "mirfacts")

CONFIGS = {
    "K1": ["--features", "devices"],
    "K2": ["--no-default-features", "--features", "alloc,libm,devices,dim_check_release"],
    "K3": ["--no-default-features", "--features", "micromath,devices"],
    "K4": ["--no-default-features", "--features", "std,devices"],
    "K5": ["--no-default-features"],
    "K6": ["--features", "devices", "--release"],
    "K7": ["--no-default-features", "--features", "alloc,libm,devices,dim_check_release", "--release"],
}

_tmp_root = None


def tmp_root():
    global _tmp_root
    if _tmp_root is None:
        base = os.environ.get("TMPDIR", "/tmp")
        _tmp_root = tempfile.mkdtemp(prefix="rrtkverif-", dir=base)
        atexit.register(lambda: shutil.rmtree(_tmp_root, ignore_errors=True))
    return _tmp_root


def point_at_repo(cargo_toml):
    """Witness crates path-depend on /repo; when another tree is analysed (RRTK_REPO) the copied manifest follows it."""
    if REPO != "/repo":
        t = open(cargo_toml).read()
        open(cargo_toml, "w").write(t.replace('path = "/repo"', 'path = "%s"' % REPO))


def sysroot():
    return subprocess.check_output(["rustc", "+nightly", "--print", "sysroot"], text=True).strip()


_SYSROOT = None


def run_driver(manifest_dir, cargo_args, crates=None, extra_env=None, check_args=None):
    """Run cargo +nightly check with the mirfacts wrapper in a fresh target dir. Returns dict crate->facts."""
    global _SYSROOT
    if not os.path.exists(DRIVER):
        raise RuntimeError("driver not built: run setup_cmd (cd /verif/driver && cargo build --release --offline)")
    if _SYSROOT is None:
        _SYSROOT = sysroot()
    out = tempfile.mkdtemp(prefix="facts-", dir=tmp_root())
    env = dict(os.environ)
    env.update({
        "LD_LIBRARY_PATH": _SYSROOT + "/lib" + (":" + env["LD_LIBRARY_PATH"] if env.get("LD_LIBRARY_PATH") else ""),
        "RUSTFLAGS": "-Zmir-opt-level=0 -Awarnings",
        "RUSTC_WORKSPACE_WRAPPER": DRIVER,
        "MIRFACTS_OUT": out,
        "CARGO_TARGET_DIR": os.path.join(out, "target"),
        "CARGO_NET_OFFLINE": "true",
    })
    if crates:
        env["MIRFACTS_CRATES"] = ",".join(crates)
    if extra_env:
        env.update(extra_env)
    cmd = ["cargo", "+nightly", "check", "--offline", "--quiet"] + list(cargo_args) + list(check_args or [])
    p = subprocess.run(cmd, cwd=manifest_dir, env=env, capture_output=True, text=True)
    res = {}
    for f in os.listdir(out):
        if f.endswith(".json"):
            d = json.load(open(os.path.join(out, f)))
            res[d["crate"]] = d
    shutil.rmtree(os.path.join(out, "target"), ignore_errors=True)
    return res, p


_facts_cache = {}
ALIAS = {}   # C19 re-runs other properties' rules under another configuration by aliasing K1


def units_enabled(prog):
    """True iff dimension checking is compiled in (Unit carries its exponent fields)."""
    return bool(prog.adt_by_name("Unit")["variants"][0]["fields"])


def load_config(cfg):
    """Facts of /repo's current working tree under configuration cfg (K1..K6)."""
    cfg = ALIAS.get(cfg, cfg)
    if cfg in _facts_cache:
        return _facts_cache[cfg]
    res, p = run_driver(REPO, CONFIGS[cfg], crates=["rrtk"])
    if "rrtk" not in res:
        raise BuildError("cargo check of /repo failed under %s:\n%s" % (cfg, p.stderr[-4000:]))
    prog = Program(res["rrtk"], cfg)
    _facts_cache[cfg] = prog
    return prog


class BuildError(Exception):
    pass


# ----------------------------------------------------------------------------------------------
# type helpers

def prim(name):
    return {"k": "prim", "name": name}


def adt_ty(did, args=(), name=None):
    return {"k": "adt", "did": did, "name": name or did.split("::")[-1], "args": list(args)}


def ref_ty(t, mut=False):
    return {"k": "ref", "region": {"k": "erased"}, "mut": mut, "ty": t}


def tuple_ty(tys):
    return {"k": "tuple", "tys": list(tys)}


def array_ty(t, n):
    return {"k": "array", "ty": t, "len": {"k": "val", "bits": n}}


UNIT_TY = tuple_ty([])


def ty_str(t):
    if t is None:
        return "?"
    k = t.get("k")
    if k == "prim":
        return t["name"]
    if k == "adt":
        a = [ga_str(x) for x in t["args"] if not (x.get("k") == "region")]
        return t["name"] + ("<" + ", ".join(a) + ">" if a else "")
    if k == "ref":
        return "&" + ("mut " if t["mut"] else "") + ty_str(t["ty"])
    if k == "ptr":
        return "*" + ("mut " if t["mut"] else "const ") + ty_str(t["ty"])
    if k == "array":
        return "[%s; %s]" % (ty_str(t["ty"]), const_str(t["len"]))
    if k == "slice":
        return "[%s]" % ty_str(t["ty"])
    if k == "tuple":
        return "(" + ", ".join(ty_str(x) for x in t["tys"]) + ")"
    if k == "param":
        return t["name"]
    if k == "dyn":
        return "dyn " + "+".join(x["pretty"].split("::")[-1] for x in t["traits"])
    if k == "fndef":
        return "fn{" + t["pretty"] + "}"
    if k == "closure":
        return "closure{" + t["did"] + "}"
    if k in ("alias", "fnptr", "other"):
        return t.get("s", k)
    return k


def ga_str(x):
    if x.get("k") == "region":
        return "'_"
    if x.get("k") == "const":
        return const_str(x["c"])
    return ty_str(x)


def const_str(c):
    if c.get("k") == "val":
        return str(c["bits"])
    if c.get("k") == "param":
        return c["name"]
    return c.get("s", "?")


NORMALISER = [None]   # set by the running simulator: alias type (`<T as Tr>::Assoc` with concrete T) -> the impl's type, or None


def subst(t, gargs):
    """Substitute generic params (by index) in type/generic-arg JSON t with gargs (list of generic-arg JSON)."""
    if not gargs or t is None:
        return t
    k = t.get("k")
    if k == "param":
        i = t["idx"]
        if i < len(gargs):
            g = gargs[i]
            if g.get("k") == "const":
                return g
            if g.get("k") == "region":
                return t
            return g
        return t
    if k == "adt":
        return {"k": "adt", "did": t["did"], "name": t["name"], "args": [subst(a, gargs) for a in t["args"]]}
    if k in ("ref", "ptr", "slice"):
        r = dict(t)
        r["ty"] = subst(t["ty"], gargs)
        return r
    if k == "array":
        r = dict(t)
        r["ty"] = subst(t["ty"], gargs)
        r["len"] = subst_const(t["len"], gargs)
        return r
    if k == "tuple":
        return {"k": "tuple", "tys": [subst(x, gargs) for x in t["tys"]]}
    if k == "const":
        return {"k": "const", "c": subst_const(t["c"], gargs)}
    if k == "fndef":
        r = dict(t)
        r["args"] = [subst(a, gargs) for a in t["args"]]
        return r
    if k == "alias":
        r = dict(t)
        r["args"] = [subst(a, gargs) for a in t["args"]]
        if NORMALISER[0] is not None:
            n = NORMALISER[0](r)
            if n is not None:
                return n
        return r
    if k == "dyn":
        r = dict(t)
        r["traits"] = [dict(x, args=[subst(a, gargs) for a in x.get("args", [])]) for x in t["traits"]]
        return r
    return t


def subst_const(c, gargs):
    if c.get("k") == "param":
        i = c["idx"]
        if i < len(gargs):
            g = gargs[i]
            if g.get("k") == "const":
                return g["c"]
        return c
    return c


def const_val(c):
    if c.get("k") == "val":
        return c["bits"]
    return None


def ty_key(t):
    return json.dumps(t, sort_keys=True)


def is_adt(t, name):
    return t is not None and t.get("k") == "adt" and t.get("name") == name


def strip_regions(args):
    return [a for a in args if a.get("k") != "region"]


# ----------------------------------------------------------------------------------------------

class Program:
    def __init__(self, facts, cfg=None):
        self.facts = facts
        self.cfg = cfg
        self.crate = facts["crate"]
        self.fns = {f["did"]: f for f in facts["fns"]}
        self.adts = {a["did"]: a for a in facts["adts"]}
        self.impls = facts["impls"]
        self.macros = {m["name"]: m for m in facts["macros"]}
        self.unsafe_blocks = facts["unsafe_blocks"]
        self.features = set(facts["cfg"])
        self.by_name = {}
        for f in facts["fns"]:
            self.by_name.setdefault(f["name"], []).append(f)

    def adt(self, did):
        return self.adts.get(did)

    def adt_by_name(self, name):
        r = [a for a in self.adts.values() if a["did"].split("::")[-1] == name and a["local"]]
        if len(r) != 1:
            raise AnchorMissing("ADT %s: %d matches" % (name, len(r)))
        return r[0]

    def has_adt(self, name):
        return any(a["did"].split("::")[-1] == name and a["local"] for a in self.adts.values())

    def find_fns(self, name=None, self_name=None, trait=None, inherent=None, pred=None):
        """Find functions by semantic key: method name, Self type name, implemented trait (last path segment)."""
        out = []
        for f in (self.by_name.get(name, []) if name else self.facts["fns"]):
            if f.get("kind") not in ("Fn", "AssocFn"):
                continue
            if self_name is not None:
                s = f.get("impl_self")
                if not s or s.get("k") != "adt" or s["name"] != self_name:
                    continue
            if trait is not None:
                it = f.get("impl_trait")
                if not it or it.split("::")[-1] != trait:
                    continue
            if inherent and f.get("impl_trait"):
                continue
            if pred and not pred(f):
                continue
            out.append(f)
        return out

    def find_fn(self, **kw):
        r = self.find_fns(**kw)
        if len(r) != 1:
            raise AnchorMissing("function %r: %d matches" % (kw, len(r)))
        return r[0]

    def trait_impls(self, trait):
        return [i for i in self.impls if i.get("trait", "").split("::")[-1] == trait]

    def impl_for(self, trait, self_name):
        return [i for i in self.trait_impls(trait) if i["self"].get("k") == "adt" and i["self"]["name"] == self_name]

    def is_derived_impl(self, trait, self_name):
        r = self.impl_for(trait, self_name)
        return len(r) >= 1 and all(i["derived"] for i in r)


class AnchorMissing(Exception):
    pass


def loc(span):
    if not span:
        return "?"
    return "%s:%d" % (span["file"], span["line"])
