"""Engine D: provenance terms -> rational functions over the reals (sympy), equality by normalisation.

f32 Add/Sub/Mul/Div/Neg are read as field operations, int->float casts as identity, float->int casts as identity
(truncation/rounding are exactly what is NOT modelled); integer linear terms map to linear forms."""
import sympy as sp
from values import *

_cache = {}


def sym(name):
    if name not in _cache:
        _cache[name] = sp.Symbol(name, real=True)
    return _cache[name]


def to_sympy(v, env=None):
    """env: optional dict mapping Sym names / Term reprs to sympy expressions (substitutions)."""
    env = env or {}
    if isinstance(v, Const):
        if isinstance(v.val, bool):
            raise ValueError("bool in arithmetic")
        if isinstance(v.val, float):
            return sp.Rational(str(v.val)) if v.val == v.val and abs(v.val) != float("inf") else sp.nan
        return sp.Integer(v.val)
    if isinstance(v, Sym):
        if v.name in env:
            return env[v.name]
        return sym(v.name)
    if isinstance(v, Lin):
        e = sp.Integer(v.c)
        for a, k in v.terms:
            e += k * to_sympy(a, env)
        return e
    if isinstance(v, Term):
        r = repr(v)
        if r in env:
            return env[r]
        a = [to_sympy(x, env) for x in v.args] if v.op not in ("Default",) else []
        op = v.op
        if op == "Add":
            return a[0] + a[1]
        if op == "Sub":
            return a[0] - a[1]
        if op in ("Mul", "IMul"):
            return a[0] * a[1]
        if op in ("Div", "IDiv"):
            return a[0] / a[1]
        if op == "Neg":
            return -a[0]
        if op.startswith("Cast:") or op == "From" or op == "Into":
            return a[0]
        if op == "powf":
            return sp.Pow(a[0], a[1])
        if op == "abs":
            return sp.Abs(a[0])
        if op == "Default":
            return sp.Integer(0)
        return sp.Function(op)(*a)
    raise ValueError("cannot convert %r" % (v,))


def equal(a, b):
    """Decide a == b as rational functions (a, b sympy expressions)."""
    d = a - b
    if d == 0:
        return True
    try:
        n, _ = sp.fraction(sp.together(d))
        if sp.expand(n) == 0:
            return True
    except Exception:
        pass
    try:
        # the slow path only helps on small expressions with Abs / powers; on large ones a non-zero expanded numerator is final
        # (a mutated tree otherwise spends minutes inside simplify() proving nothing)
        if sp.count_ops(d) > 150:
            return False
        if sp.simplify(sp.together(d)) == 0:
            return True
        n, _ = sp.fraction(sp.cancel(sp.together(d)))
        return sp.expand(n) == 0
    except Exception:
        return False


def show(e):
    """Display form; simplification is only attempted on small expressions (it dominated run time otherwise)."""
    try:
        if sp.count_ops(e) <= 60:
            return str(sp.simplify(e))
    except Exception:
        pass
    return str(e)
