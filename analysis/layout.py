"""Layout-independent views of the crate's structs.  Where a rule needs 'the input References of this stream', 'the three phase
boundaries of a profile', 'the terminals of this device', it asks for the LEAVES of a given type, found by descending through
private structs (named fields, tuple structs / newtypes), tuples and - on request - arrays.  Whether a maintainer keeps two
terminals as `term1, term2`, as `[RefCell<Terminal>; 2]`, as a private `TerminalPair`, or wraps a field in a private newtype is
then invisible to the rule.  Leaf names are the dotted paths the simulator itself uses for sub-symbols (`self.a.0.b`)."""
from values import *
from program import is_adt, ty_str, const_val


def transparent(sim, t, stop=()):
    """a type the views look through: a private (not exported) local struct, or a tuple"""
    if not t:
        return False
    if t.get("k") == "tuple":
        return True
    if t.get("k") != "adt":
        return False
    if any(is_adt(t, s) for s in stop):
        return False
    a = sim.prog.adt(t["did"])
    return bool(a) and a.get("kind") == "struct" and a.get("local") and not a.get("exported") and not a.get("opaque")


def children(sim, t):
    if t.get("k") == "tuple":
        return [(str(i), x) for i, x in enumerate(t["tys"])]
    return sim.adt_fields(t) or []


def leaves(sim, ty, stop=(), top=True):
    """[(dotted name, type, path)] of the leaves below struct type ty; path = tuple of field indices.  The top type is always opened."""
    out = []
    for i, (n, t) in enumerate(children(sim, ty)):
        if transparent(sim, t, stop):
            for (n2, t2, p2) in leaves(sim, t, stop, False):
                out.append((n + "." + n2, t2, (i,) + p2))
        else:
            out.append((n, t, (i,)))
    return out


def get_path(sim, st, v, path):
    for i in path:
        v = sim.expand(st, v) if st is not None else v
        v = v.fields[i]
    return v


def set_path(sim, st, v, path, new):
    if not path:
        return new
    v = sim.expand(st, v) if st is not None else v
    fs = list(v.fields)
    fs[path[0]] = set_path(sim, st, fs[path[0]], path[1:], new)
    return Struct(v.ty, fs)


def value_leaves(sim, v, prefix="", stop=()):
    """[(dotted name, leaf value)] of a resolved struct value: looks through private structs / tuples and through arrays"""
    out = []
    if isinstance(v, Struct) and v.ty is not None and (prefix == "" or transparent(sim, v.ty, stop)):
        for (n, _t), f in zip(children(sim, v.ty), v.fields):
            out += value_leaves(sim, f, (prefix + "." + n) if prefix else n, stop)
        return out
    if isinstance(v, Array):
        for j, e in enumerate(v.elems):
            out += value_leaves(sim, e, "%s[%d]" % (prefix, j), stop)
        return out
    return [(prefix, v)]


def build_symbolic(sim, ty, leaf_fn, prefix="self", stop=()):
    """a value of struct type ty whose leaves are leaf_fn(dotted_name, leaf_type) (None: a fresh symbol `prefix.dotted`);
    arrays of known length are built element by element (names `x[j]`)"""
    def mk(t, dotted):
        if transparent(sim, t, stop):
            return Struct(t, [mk(ct, dotted + "." + n) for n, ct in children(sim, t)])
        if t.get("k") == "array" and const_val(t["len"]) is not None:
            return Array([mk(t["ty"], "%s[%d]" % (dotted, j)) for j in range(const_val(t["len"]))], t)
        r = leaf_fn(dotted, t)
        return r if r is not None else Sym(prefix + "." + dotted, t)
    return Struct(ty, [mk(ct, n) for n, ct in children(sim, ty)])
