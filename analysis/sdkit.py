"""SettableData through its API.  The analyses need terminals / settables in the states 'holds request r', 'follows getter g'
and need to read 'what was the last request' from post-states.  How SettableData spells those states (two Options, private
enums, ...) is not the analysed properties' business, so this module never names a field: states are BUILT by running the crate's
own `SettableData::new`, `Settable::set`, `Settable::follow` (provided methods, generic over Self, required methods answered by
hooks) and READ by matching against those built patterns (fallback: running `Settable::get_last_request`)."""
from values import *
from program import subst, ty_str, is_adt, prim, AnchorMissing
import sim as S

PH_G = "SDKIT_G"
PH_V = "SDKIT_V"


def trait_default(prog, trait, name):
    fs = [f for f in prog.by_name.get(name, []) if f.get("trait_default") and f.get("trait", "").split("::")[-1] == trait]
    if len(fs) != 1:
        raise AnchorMissing("%s::%s provided method" % (trait, name))
    return fs[0]


def replace(v, mapping):
    """structural substitution of placeholder symbols (by name)"""
    if isinstance(v, Sym):
        return mapping.get(v.name, v)
    if isinstance(v, Struct):
        return Struct(v.ty, [replace(f, mapping) for f in v.fields])
    if isinstance(v, Enum):
        return Enum(v.ty, v.variant, v.vname, [replace(f, mapping) for f in v.fields])
    if isinstance(v, Array):
        return Array([replace(f, mapping) for f in v.elems], v.ty)
    return v


def unify(pat, v, out):
    """match value v against pattern pat whose placeholders bind anything; returns True/False, bindings in out"""
    if isinstance(pat, Sym) and pat.name in (PH_G, PH_V):
        if pat.name in out and out[pat.name] != v:
            return False
        out[pat.name] = v
        return True
    if type(pat) is not type(v):
        return False
    if isinstance(pat, Struct):
        return len(pat.fields) == len(v.fields) and all(unify(a, b, out) for a, b in zip(pat.fields, v.fields))
    if isinstance(pat, Enum):
        return pat.vname == v.vname and len(pat.fields) == len(v.fields) and all(unify(a, b, out) for a, b in zip(pat.fields, v.fields))
    if isinstance(pat, Array):
        return len(pat.elems) == len(v.elems) and all(unify(a, b, out) for a, b in zip(pat.elems, v.elems))
    return pat == v


class SDKit:
    def __init__(self, sim, prog):
        self.sim, self.prog = sim, prog
        self._pat = {}
        self._base = None

    # ------------------------------------------------------------------ running the API
    def base(self):
        """SettableData::new()"""
        if self._base is None:
            news = [f for f in self.prog.find_fns(name="new", self_name="SettableData") if not f.get("impl_trait")]
            if len(news) != 1:
                raise AnchorMissing("SettableData::new")
            ls = [l for l in self.sim.run(news[0], self.sim.identity_gargs(news[0]), [], S.State()) if l.kind == "return"]
            if len(ls) != 1:
                raise AnchorMissing("SettableData::new has %d returning paths" % len(ls))
            self._base = self.sim.final_value(ls[0].state, ls[0].value)
        return self._base

    def run_provided(self, name, sd_val, extra=(), impl_set_ok=True, follow_cat=None, follow_tag="0"):
        """Run Settable::<name> (provided method, Self generic) on a settable whose data is sd_val.  Returns (leaves, oid)."""
        import streamkit as K
        sim = self.sim
        fn = trait_default(self.prog, "Settable", name)
        g = sim.identity_gargs(fn)
        st = S.State()
        oid = st.new_obj("sd", sd_val)
        st.labels[oid] = "data"
        a0 = sim.make_arg(st, "self", subst(fn["sig_inputs"][0], g))

        def hook(sim_, st_, label, method, args, ret_ty, ver):
            m = method.split("::")[-1]
            if m == "get_settable_data_mut":
                return Ref(Ptr(oid), True)
            if m == "get_settable_data_ref":
                return Ref(Ptr(oid), False)
            if m == "impl_set":
                return sim_.mk_enum(ret_ty, "Ok", [UNIT]) if impl_set_ok else sim_.mk_enum(ret_ty, "Err", [Sym("eset", ret_ty["args"][1])])
            if m == "get" and follow_cat is not None and method.endswith("Getter::get"):
                return K.build_output(sim_, ret_ty, follow_cat, follow_tag)
            return None
        old = sim.oracle_hook
        sim.oracle_hook = hook
        try:
            leaves = sim.run(fn, g, [a0] + list(extra), st)
        finally:
            sim.oracle_hook = old
        return leaves, oid, fn

    def _single(self, name, sd_val, extra):
        leaves, oid, fn = self.run_provided(name, sd_val, extra)
        ls = [l for l in leaves if l.kind == "return"]
        if len(ls) != 1 or len(leaves) != 1:
            raise S.Unsupported("Settable::%s on a concrete SettableData has %s" % (name, [(l.kind, l.info.get("msg")) for l in leaves]))
        return self.sim.final_value(ls[0].state, ls[0].state.mem[oid])

    def pattern(self, has_f, has_r):
        k = (has_f, has_r)
        if k not in self._pat:
            sd = self.base()
            if has_r:
                fn = trait_default(self.prog, "Settable", "set")
                vty = subst(fn["sig_inputs"][1], self.sim.identity_gargs(fn))
                sd = self._single("set", sd, [Sym(PH_V, vty)])
            if has_f:
                fn = trait_default(self.prog, "Settable", "follow")
                gty = subst(fn["sig_inputs"][1], self.sim.identity_gargs(fn))
                sd = self._single("follow", sd, [Sym(PH_G, gty)])
            self._pat[k] = sd
        return self._pat[k]

    # ------------------------------------------------------------------ building / reading states
    def make(self, ty, following=None, request=None):
        """A SettableData<..> value of type ty: following the given getter value (or nothing), holding the given request (or none)."""
        p = self.pattern(following is not None, request is not None)
        m = {}
        if following is not None:
            m[PH_G] = following
        if request is not None:
            m[PH_V] = request
        v = replace(p, m)
        return Struct(ty, v.fields) if isinstance(v, Struct) else v

    def read(self, st, sd):
        """(following, request) of a resolved SettableData value: each None, a value, or the string '?' when the value is symbolic there"""
        sd = self.sim.final_value(st, sd) if st is not None else sd
        for has_f in (False, True):
            for has_r in (False, True):
                out = {}
                if unify(self.pattern(has_f, has_r), sd, out):
                    return (out.get(PH_G), out.get(PH_V))
        return ("?", "?")

    def request_of(self, st, sd):
        """Option-like view of the last request: ('N',) | ('S', value) | ('?', raw)"""
        f, r = self.read(st, sd)
        if r == "?":
            return ("?", sd)
        return ("N",) if r is None else ("S", r)

    def request_option(self, st, sd, opt_ty=None):
        """The last request as an Option enum value (None / Some(v)); for symbolic data runs get_last_request."""
        k = self.request_of(st, sd)
        if k[0] == "N":
            return Enum(opt_ty, 0, "None", [])
        if k[0] == "S":
            return Enum(opt_ty, 1, "Some", [k[1]])
        sdv = self.sim.final_value(st, sd) if st is not None else sd
        leaves, oid, fn = self.run_provided("get_last_request", sdv)
        ls = [l for l in leaves if l.kind == "return"]
        if len(ls) == 1 and len(leaves) == 1:
            return self.sim.final_value(ls[0].state, ls[0].value)
        raise S.Unsupported("last request of %r is not determined" % (sdv,))


_kits = {}


def kit(sim, prog):
    k = (id(sim), id(prog))
    if k not in _kits:
        _kits[k] = SDKit(sim, prog)
    return _kits[k]
