"""Models of std functions (and a few crate-local wrappers) for the property simulator."""
import re
from values import *
from program import subst, ty_str, is_adt, prim, adt_ty, tuple_ty, const_val
import sim as S

LOCAL_MODELS_ENABLED = True

MODELS = {}
PATTERNS = []
POST = {}


def model(*names):
    def deco(f):
        for n in names:
            MODELS[n] = f
        return f
    return deco


def pattern(rx):
    def deco(f):
        PATTERNS.append((re.compile(rx), f))
        return f
    return deco


def norm(p):
    """Normalise a pretty path: core:: / alloc:: -> std:: for stable keys."""
    return re.sub(r"\b(core|alloc)::", "std::", p)


def find_model(sim, target, orig, resolved):
    p = norm(target["pretty"])
    m = MODELS.get(p)
    if m:
        return m
    for rx, f in PATTERNS:
        if rx.search(p):
            return f
    if not resolved and orig.get("trait"):
        t = orig["trait"].split("::")[-1]
        m = TRAIT_FALLBACK.get((t, orig["name"]))
        if m:
            return m
    return None


def find_local_model(sim, target, f):
    if not sim.models.LOCAL_MODELS_ENABLED:
        return None
    s = f.get("impl_self")
    sname = s["name"] if s and s.get("k") == "adt" else None
    tr = (f.get("impl_trait") or "").split("::")[-1]
    key = (sname, tr, f["name"])
    return LOCAL.get(key)


# --------------------------------------------------------------------------------------------- helpers

def deref_arg(sim, st, v):
    return sim.read(st, sim.deref_value(st, v))


def opt(sim, ty, v=None):
    return sim.mk_enum(ty, "None") if v is None else sim.mk_enum(ty, "Some", [v])


def const_str_val(sim, st, v):
    v = sim.resolve(st, v)
    if isinstance(v, Const) and isinstance(v.val, str):
        return v.val
    if isinstance(v, Ref):
        try:
            x = sim.read(st, v.ptr)
            if isinstance(x, Const):
                return str(x.val)
        except Exception:
            pass
    return repr(v)


# --------------------------------------------------------------------------------------------- Try / Option / Result

@model("<std::result::Result<T, E> as std::ops::Try>::branch")
def m_try_branch(sim, st, c):
    v = sim.force_variant(st, c["args"][0])
    rt = c["ret_ty"]
    if v.vname == "Ok":
        return sim.mk_enum(rt, "Continue", [v.fields[0]])
    resid_ty = rt["args"][0]
    return sim.mk_enum(rt, "Break", [sim.mk_enum(resid_ty, "Err", [v.fields[0]])])


@model("<std::option::Option<T> as std::ops::Try>::branch")
def m_try_branch_opt(sim, st, c):
    v = sim.force_variant(st, c["args"][0])
    rt = c["ret_ty"]
    if v.vname == "Some":
        return sim.mk_enum(rt, "Continue", [v.fields[0]])
    return sim.mk_enum(rt, "Break", [sim.mk_enum(rt["args"][0], "None")])


@model("<std::result::Result<T, F> as std::ops::FromResidual<std::result::Result<std::convert::Infallible, E>>>::from_residual")
def m_from_residual(sim, st, c):
    v = sim.force_variant(st, c["args"][0])
    rt = c["ret_ty"]
    e = v.fields[0]
    ety_from = c["gargs"][2] if len(c["gargs"]) > 2 else None
    ety_to = rt["args"][1]
    if ety_from is not None and ty_str(ety_from) != ty_str(ety_to):
        e = Term("From", (e,), ety_to)
    return sim.mk_enum(rt, "Err", [e])


@model("<std::option::Option<T> as std::ops::FromResidual<std::option::Option<std::convert::Infallible>>>::from_residual")
def m_from_residual_opt(sim, st, c):
    return sim.mk_enum(c["ret_ty"], "None")


@model("std::option::Option::<T>::expect", "std::option::Option::<T>::unwrap")
def m_opt_expect(sim, st, c):
    v = sim.force_variant(st, c["args"][0])
    if v.vname == "Some":
        return v.fields[0]
    msg = const_str_val(sim, st, c["args"][1]) if len(c["args"]) > 1 else "unwrap on None"
    raise S.SimPanic("expect-none", msg, c["span"])


@model("std::result::Result::<T, E>::expect", "std::result::Result::<T, E>::unwrap")
def m_res_expect(sim, st, c):
    v = sim.force_variant(st, c["args"][0])
    if v.vname == "Ok":
        return v.fields[0]
    msg = const_str_val(sim, st, c["args"][1]) if len(c["args"]) > 1 else "unwrap on Err"
    raise S.SimPanic("expect-err", msg, c["span"])


# --------------------------------------------------------------------------------------------- panics / fmt

@model("std::panicking::panic", "std::panicking::panic_explicit")
def m_panic(sim, st, c):
    raise S.SimPanic("panic", const_str_val(sim, st, c["args"][0]) if c["args"] else "", c["span"])


@model("std::panicking::panic_fmt")
def m_panic_fmt(sim, st, c):
    a = sim.resolve(st, c["args"][0])
    msg = a.data[0] if isinstance(a, Opaque) and a.kind == "FmtArgs" else repr(a)
    raise S.SimPanic("panic", msg, c["span"])


@model("std::panicking::assert_failed")
def m_assert_failed(sim, st, c):
    raise S.SimPanic("assert_failed", "assert_eq/assert_ne failed", c["span"])


@pattern(r"^std::fmt::Arguments::<'a>::(from_str|new_const|new)")
def m_fmt_args(sim, st, c):
    return Opaque("FmtArgs", (const_str_val(sim, st, c["args"][0]),))


@pattern(r"^(core|std)::fmt::rt::Argument::<'_>::new_\w+$")
def m_fmt_argument(sim, st, c):
    return Opaque("FmtArg", (c["args"][0],))


@pattern(r"^std::fmt::Arguments::<'a>::new_v1")
def m_fmt_args_v1(sim, st, c):
    try:
        pieces = sim.resolve(st, deref_arg(sim, st, c["args"][0]))
        msg = "".join(str(p.val) for p in getattr(pieces, "elems", []) if isinstance(p, Const)) or "formatted message"
    except Exception:
        msg = "formatted message"
    return Opaque("FmtArgs", (msg,))


@pattern(r"^std::panicking::panic_")
def m_panic_other(sim, st, c):
    raise S.SimPanic("panic", c["fn"]["pretty"], c["span"])


# --------------------------------------------------------------------------------------------- Clone / Default / From

def m_clone(sim, st, c):
    v = deref_arg(sim, st, c["args"][0])
    return v


@pattern(r"^<std::(option::Option<T>|result::Result<T, E>) as std::clone::Clone>::clone$")
def m_clone_std(sim, st, c):
    return m_clone(sim, st, c)


@pattern(r"^std::clone::impls::<impl std::clone::Clone for ")
def m_clone_prim(sim, st, c):
    return m_clone(sim, st, c)


def m_clone_unresolved(sim, st, c):
    st.notes.add("assume-Clone-is-faithful-for-generic-payloads")
    return m_clone(sim, st, c)


@model("<T as std::convert::From<T>>::from")
def m_from_id(sim, st, c):
    return c["args"][0]


def call_trait_impl(sim, st, c, trait, name, gargs, args, post=None):
    """Dispatch to a crate-local impl of trait::name for gargs[0]; returns NotImplemented if a frame was pushed."""
    fnj = {"trait": trait, "name": name}
    r = sim.resolve_trait_call(fnj, gargs)
    if r is None:
        return None
    target, ig = r
    f = sim.prog.fns[target["did"]]
    sim.push_frame(st, f, f["body"], ig, args, c["dest"], c["ret_bb"], tag=post)
    return NotImplemented


@model("<T as std::convert::Into<U>>::into")
def m_into(sim, st, c):
    t, u = c["gargs"][0], c["gargs"][1]
    if ty_str(t) == ty_str(u):
        return c["args"][0]
    r = call_trait_impl(sim, st, c, "std::convert::From", "from", [u, t], [c["args"][0]])
    if r is None:
        return Term("Into", (c["args"][0],), c["ret_ty"])
    return r


@model("<T as std::convert::TryInto<U>>::try_into")
def m_try_into(sim, st, c):
    t, u = c["gargs"][0], c["gargs"][1]
    r = call_trait_impl(sim, st, c, "std::convert::TryFrom", "try_from", [u, t], [c["args"][0]])
    if r is None:
        return Sym("try_into(%r)" % (c["args"][0],), c["ret_ty"])
    return r


@pattern(r"^<(f32|f64) as std::default::Default>::default$")
def m_default_f(sim, st, c):
    return Const(0.0, c["ret_ty"])


@pattern(r"^<(i|u)(8|16|32|64|128|size) as std::default::Default>::default$")
def m_default_i(sim, st, c):
    return Const(0, c["ret_ty"])


def m_default_unresolved(sim, st, c):
    return Term("Default", (), c["ret_ty"])


# --------------------------------------------------------------------------------------------- comparisons

ORD_SETS = {"lt": {"Less"}, "le": {"Less", "Equal"}, "gt": {"Greater"}, "ge": {"Greater", "Equal"}}
REL_SETS = {"lt": "<", "le": "<=", "gt": ">", "ge": ">="}


def single_int_field_struct(sim, ty):
    if ty.get("k") != "adt":
        return False
    a = sim.prog.adt(ty["did"])
    if not a or not a["local"] or a["kind"] != "struct":
        return False
    fs = a["variants"][0]["fields"]
    return len(fs) == 1 and S.is_int_ty(fs[0]["ty"])


def post_ord_to_bool(sim, st, ret, extra):
    v = sim.force_variant(st, ret)
    if v.vname == "None":
        return Const(False, prim("bool"))
    o = sim.force_variant(st, v.fields[0])
    return Const(o.vname in ORD_SETS[extra], prim("bool"))


POST["ord_to_bool"] = post_ord_to_bool


@pattern(r"^std::cmp::PartialOrd::(lt|le|gt|ge)$")
def m_partial_ord_default(sim, st, c):
    name = c["fn"]["name"]
    sty = c["gargs"][0]
    a = deref_arg(sim, st, c["args"][0])
    b = deref_arg(sim, st, c["args"][1])
    if S.is_int_ty(sty):
        return Const(sim.int_sign(st, int_sub(a, b), set(REL_SETS[name])), prim("bool"))
    if S.is_float_ty(sty):
        return Const(sim.float_rel(st, a, b, set(REL_SETS[name])), prim("bool"))
    if single_int_field_struct(sim, sty) and sim.prog.is_derived_impl("PartialOrd", sty["name"]):
        a, b = sim.expand(st, a), sim.expand(st, b)
        if not (isinstance(a, Struct) and isinstance(b, Struct)):
            raise S.Unsupported("comparison of %r with %r" % (a, b))
        return Const(sim.int_sign(st, int_sub(sim.resolve(st, a.fields[0]), sim.resolve(st, b.fields[0])), set(REL_SETS[name])), prim("bool"))
    r = call_trait_impl(sim, st, c, "std::cmp::PartialOrd", "partial_cmp", c["gargs"], [c["args"][0], c["args"][1]],
                        post=("post", "ord_to_bool", name))
    if r is None:
        return Const(sim.decide_bool(st, Term("cmp:" + name, (a, b), prim("bool"))), prim("bool"))
    return r


def ordering(sim, ty, name):
    return sim.mk_enum(ty, name)


@pattern(r"^std::cmp::impls::<impl std::cmp::PartialOrd for (i|u)(8|16|32|64|128|size)>::partial_cmp$")
def m_int_partial_cmp(sim, st, c):
    a = deref_arg(sim, st, c["args"][0])
    b = deref_arg(sim, st, c["args"][1])
    oty = c["ret_ty"]["args"][0]
    d = int_sub(a, b)
    if sim.int_sign(st, d, {"<"}):
        o = "Less"
    elif sim.int_sign(st, d, {"="}):
        o = "Equal"
    else:
        o = "Greater"
    return opt(sim, c["ret_ty"], ordering(sim, oty, o))


@pattern(r"^std::cmp::impls::<impl std::cmp::Ord for (i|u)(8|16|32|64|128|size)>::cmp$")
def m_int_cmp(sim, st, c):
    a = deref_arg(sim, st, c["args"][0])
    b = deref_arg(sim, st, c["args"][1])
    d = int_sub(a, b)
    if sim.int_sign(st, d, {"<"}):
        o = "Less"
    elif sim.int_sign(st, d, {"="}):
        o = "Equal"
    else:
        o = "Greater"
    return ordering(sim, c["ret_ty"], o)


@pattern(r"^std::cmp::impls::<impl std::cmp::PartialOrd for f(32|64)>::partial_cmp$")
def m_float_partial_cmp(sim, st, c):
    a = deref_arg(sim, st, c["args"][0])
    b = deref_arg(sim, st, c["args"][1])
    oty = c["ret_ty"]["args"][0]
    if sim.float_rel(st, a, b, {"U"}):
        return opt(sim, c["ret_ty"])
    if sim.float_rel(st, a, b, {"<"}):
        return opt(sim, c["ret_ty"], ordering(sim, oty, "Less"))
    if sim.float_rel(st, a, b, {"="}):
        return opt(sim, c["ret_ty"], ordering(sim, oty, "Equal"))
    return opt(sim, c["ret_ty"], ordering(sim, oty, "Greater"))


def eq_values(sim, st, a, b):
    a, b = sim.resolve(st, a), sim.resolve(st, b)
    if isinstance(a, Const) and isinstance(b, Const) and not isinstance(a.val, float):
        return a.val == b.val
    ta = getattr(a, "ty", None)
    if isinstance(a, Enum) or isinstance(b, Enum) or (isinstance(a, Sym) and sim.enum_variants(a.ty)):
        a, b = sim.force_variant(st, a), sim.force_variant(st, b)
        if a.variant != b.variant:
            return False
        return all(eq_values(sim, st, x, y) for x, y in zip(a.fields, b.fields))
    a2, b2 = sim.expand(st, a), sim.expand(st, b)
    if isinstance(a2, Struct) and isinstance(b2, Struct):
        return all(eq_values(sim, st, x, y) for x, y in zip(a2.fields, b2.fields))
    if S.is_float_ty(ta) or (isinstance(a, Const) and isinstance(a.val, float)) or S.is_float_ty(getattr(b, "ty", None)):
        return sim.float_rel(st, a, b, {"="})
    if S.is_int_ty(ta) or isinstance(a, Lin) or isinstance(b, Lin) or (isinstance(a, Const) and isinstance(a.val, int)):
        return sim.int_sign(st, int_sub(a, b), {"="})
    if a == b:
        st.notes.add("assume-PartialEq-reflexive-for-generic-payloads")
        return True
    return sim.decide_bool(st, Term("Eq", tuple(sorted((a, b), key=repr)), prim("bool")))


@pattern(r"^<std::option::Option<T> as std::cmp::PartialEq>::eq$")
def m_option_eq(sim, st, c):
    a = deref_arg(sim, st, c["args"][0])
    b = deref_arg(sim, st, c["args"][1])
    return Const(eq_values(sim, st, a, b), prim("bool"))


@model("std::cmp::impls::<impl std::cmp::PartialEq<&B> for &A>::eq")
def m_ref_eq(sim, st, c):
    a = deref_arg(sim, st, c["args"][0])
    b = deref_arg(sim, st, c["args"][1])
    inner = [g["ty"] if g.get("k") == "ref" else g for g in c["gargs"][:2]]
    r = call_trait_impl(sim, st, c, "std::cmp::PartialEq", "eq", [inner[0], inner[1]] if len(inner) > 1 else inner, [a, b])
    if r is None:
        a2 = deref_arg(sim, st, a)
        b2 = deref_arg(sim, st, b)
        return Const(eq_values(sim, st, a2, b2), prim("bool"))
    return r


def post_not(sim, st, ret, extra):
    return Const(not sim.decide_bool(st, ret), prim("bool"))


POST["not"] = post_not


@model("std::cmp::PartialEq::ne")
def m_ne_default(sim, st, c):
    r = call_trait_impl(sim, st, c, "std::cmp::PartialEq", "eq", c["gargs"], [c["args"][0], c["args"][1]], post=("post", "not", None))
    if r is None:
        a = deref_arg(sim, st, c["args"][0])
        b = deref_arg(sim, st, c["args"][1])
        return Const(not eq_values(sim, st, a, b), prim("bool"))
    return r


def m_eq_unresolved(sim, st, c):
    a = deref_arg(sim, st, c["args"][0])
    b = deref_arg(sim, st, c["args"][1])
    return Const(eq_values(sim, st, a, b), prim("bool"))


# --------------------------------------------------------------------------------------------- float functions

@pattern(r"^std::f32::<impl f32>::abs$")
def m_abs(sim, st, c):
    return Term("abs", (c["args"][0],), prim("f32"))


@pattern(r"(^|::)powf$")
def m_powf(sim, st, c):
    return Term("powf", (c["args"][0], c["args"][1]), prim("f32"))


@pattern(r"^<&f32 as std::ops::(Add|Sub|Mul|Div)<f32>>::")
def m_ref_f32_op(sim, st, c):
    op = re.search(r"ops::(\w+)<", c["fn"]["pretty"]).group(1)
    return Term(op, (deref_arg(sim, st, c["args"][0]), c["args"][1]), prim("f32"))


# --------------------------------------------------------------------------------------------- generic operator fallbacks

def binop_fallback(op):
    def f(sim, st, c):
        return Term(op, (c["args"][0], c["args"][1]), c["ret_ty"])
    return f


def assign_fallback(op):
    def f(sim, st, c):
        p = sim.deref_value(st, c["args"][0])
        old = sim.read(st, p)
        sim.write(st, p, Term(op, (old, c["args"][1]), getattr(old, "ty", None)))
        return UNIT
    return f


def unop_fallback(op):
    def f(sim, st, c):
        return Term(op, (c["args"][0],), c["ret_ty"])
    return f


def m_into_unresolved(sim, st, c):
    """`x.into()` inside a generic fn (`L: Into<Quantity>`), concrete after substitution: the blanket impl, i.e. U::from(x)"""
    if len(c["gargs"]) < 2 or c["gargs"][0].get("k") == "param":
        return sim.oracle_call(st, c)
    return (m_try_into if c["orig"]["name"] == "try_into" else m_into)(sim, st, c)


TRAIT_FALLBACK = {
    ("Into", "into"): m_into_unresolved, ("TryInto", "try_into"): m_into_unresolved,
    ("Add", "add"): binop_fallback("Add"), ("Sub", "sub"): binop_fallback("Sub"),
    ("Mul", "mul"): binop_fallback("Mul"), ("Div", "div"): binop_fallback("Div"),
    ("AddAssign", "add_assign"): assign_fallback("Add"), ("SubAssign", "sub_assign"): assign_fallback("Sub"),
    ("MulAssign", "mul_assign"): assign_fallback("Mul"), ("DivAssign", "div_assign"): assign_fallback("Div"),
    ("Neg", "neg"): unop_fallback("Neg"), ("Not", "not"): unop_fallback("Not"),
    ("Rem", "rem"): binop_fallback("Rem"), ("BitAnd", "bitand"): binop_fallback("BitAnd"), ("BitOr", "bitor"): binop_fallback("BitOr"),
    ("BitXor", "bitxor"): binop_fallback("BitXor"), ("Shl", "shl"): binop_fallback("Shl"), ("Shr", "shr"): binop_fallback("Shr"),
    ("RemAssign", "rem_assign"): assign_fallback("Rem"), ("BitAndAssign", "bitand_assign"): assign_fallback("BitAnd"),
    ("BitOrAssign", "bitor_assign"): assign_fallback("BitOr"), ("BitXorAssign", "bitxor_assign"): assign_fallback("BitXor"),
    ("ShlAssign", "shl_assign"): assign_fallback("Shl"), ("ShrAssign", "shr_assign"): assign_fallback("Shr"),
    ("Clone", "clone"): m_clone_unresolved, ("Default", "default"): m_default_unresolved,
    ("PartialEq", "eq"): m_eq_unresolved,
}


# --------------------------------------------------------------------------------------------- iterators

@pattern(r"^std::array::<impl std::iter::IntoIterator for &'a (mut )?\[T; N\]>::into_iter$")
def m_array_into_iter(sim, st, c):
    r = sim.resolve(st, c["args"][0])
    arr = sim.expand(st, sim.read(st, r.ptr))
    if not isinstance(arr, Array):
        raise S.Unsupported("into_iter over %r" % (arr,))
    sim.write(st, r.ptr, arr)
    return Opaque("SliceIter", (r.ptr, 0, len(arr.elems), r.mut))


@model("<I as std::iter::IntoIterator>::into_iter")
def m_iter_identity(sim, st, c):
    return c["args"][0]


def iter_step(sim, st, it):
    """Advance an abstract iterator value: returns (new iterator, item or None)."""
    it = sim.resolve(st, it)
    if not isinstance(it, Opaque):
        raise S.Unsupported("next on %r" % (it,))
    if it.kind == "SliceIter":
        base, i, n, mut = it.data
        if i < n:
            return Opaque("SliceIter", (base, i + 1, n, mut)), Ref(base.ext(("i", i)), mut)
        return it, None
    if it.kind == "RevSliceIter":
        base, i, n, mut = it.data
        if i < n:
            return Opaque("RevSliceIter", (base, i, n - 1, mut)), Ref(base.ext(("i", n - 1)), mut)
        return it, None
    if it.kind == "Take":
        inner, k = it.data
        if k <= 0:
            return it, None
        inner2, item = step_any(sim, st, inner)
        return Opaque("Take", (inner2, k - 1 if item is not None else 0)), item
    if it.kind == "Skip":
        inner, k = it.data
        while k > 0:
            inner, item = iter_step(sim, st, inner)
            if item is None:
                return Opaque("Skip", (inner, 0)), None
            k -= 1
        inner2, item = iter_step(sim, st, inner)
        return Opaque("Skip", (inner2, 0)), item
    if it.kind == "Enumerate":
        inner, k = it.data
        inner2, item = iter_step(sim, st, inner)
        if item is None:
            return Opaque("Enumerate", (inner2, k)), None
        return Opaque("Enumerate", (inner2, k + 1)), Struct(tuple_ty([prim("usize"), None]), (Const(k, prim("usize")), item))
    if it.kind == "Copied":
        inner2, item = iter_step(sim, st, it.data[0])
        if item is None:
            return Opaque("Copied", (inner2,)), None
        return Opaque("Copied", (inner2,)), deref_arg(sim, st, item)
    if it.kind == "ArrayIntoIter":
        elems, i = it.data
        if i < len(elems):
            return Opaque("ArrayIntoIter", (elems, i + 1)), elems[i]
        return it, None
    if it.kind == "Map":
        inner2, item = iter_step(sim, st, it.data[0])
        if item is None:
            return Opaque("Map", (inner2, it.data[1])), None
        return Opaque("Map", (inner2, it.data[1])), sim.call_sync(st, it.data[1], [item])
    if it.kind == "Filter":
        inner = it.data[0]
        while True:
            inner, item = iter_step(sim, st, inner)
            if item is None:
                return Opaque("Filter", (inner, it.data[1])), None
            oid = st.new_obj("filter_item", item)
            keep = sim.decide_bool(st, sim.call_sync(st, it.data[1], [Ref(Ptr(oid))]))
            if keep:
                return Opaque("Filter", (inner, it.data[1])), item
    if it.kind == "FilterMap":
        inner = it.data[0]
        while True:
            inner, item = iter_step(sim, st, inner)
            if item is None:
                return Opaque("FilterMap", (inner, it.data[1])), None
            r = sim.force_variant(st, sim.call_sync(st, it.data[1], [item]))
            if r.vname == "Some":
                return Opaque("FilterMap", (inner, it.data[1])), r.fields[0]
    if it.kind == "Zip":
        a2, x = iter_step(sim, st, it.data[0])
        if x is None:
            return Opaque("Zip", (a2, it.data[1])), None
        b2, y = iter_step(sim, st, it.data[1])
        if y is None:
            return Opaque("Zip", (a2, b2)), None
        return Opaque("Zip", (a2, b2)), Struct(tuple_ty([None, None]), (x, y))
    if it.kind == "Flatten":
        inner, cur = it.data
        while True:
            if cur is not None:
                cur2, x = step_any(sim, st, cur)
                if x is not None:
                    return Opaque("Flatten", (inner, cur2)), x
                cur = None
            inner, item = step_any(sim, st, inner)
            if item is None:
                return Opaque("Flatten", (inner, None)), None
            cur = as_iterator(sim, st, item)
    if it.kind == "Scan":
        inner, oid, f, done = it.data
        if done:
            return it, None
        inner2, item = step_any(sim, st, inner)
        if item is None:
            return Opaque("Scan", (inner2, oid, f, True)), None
        r = sim.force_variant(st, sim.call_sync(st, f, [Ref(Ptr(oid), True), item]))
        if r.vname == "Some":
            return Opaque("Scan", (inner2, oid, f, False)), r.fields[0]
        return Opaque("Scan", (inner2, oid, f, True)), None
    if it.kind == "TakeWhile":
        inner, f, done = it.data
        if done:
            return it, None
        inner2, item = step_any(sim, st, inner)
        if item is None:
            return Opaque("TakeWhile", (inner2, f, True)), None
        oid = st.new_obj("tw_item", item)
        if sim.decide_bool(st, sim.call_sync(st, f, [Ref(Ptr(oid))])):
            return Opaque("TakeWhile", (inner2, f, False)), item
        return Opaque("TakeWhile", (inner2, f, True)), None
    if it.kind == "SkipWhile":
        inner, f, started = it.data
        while True:
            inner, item = step_any(sim, st, inner)
            if item is None:
                return Opaque("SkipWhile", (inner, f, True)), None
            if started:
                return Opaque("SkipWhile", (inner, f, True)), item
            oid = st.new_obj("sw_item", item)
            if not sim.decide_bool(st, sim.call_sync(st, f, [Ref(Ptr(oid))])):
                return Opaque("SkipWhile", (inner, f, True)), item
    if it.kind == "Chain":
        a, b = it.data
        if a is not None:
            a2, x = iter_step(sim, st, a)
            if x is not None:
                return Opaque("Chain", (a2, b)), x
            a = None
        b2, y = iter_step(sim, st, b)
        return Opaque("Chain", (None, b2)), y
    raise S.Unsupported("next on %r" % (it,))


def range_as_iter(sim, st, it):
    return it


def as_iterator(sim, st, v):
    """IntoIterator of an abstract value: Option -> 0/1 items, arrays -> their elements, iterators -> themselves."""
    v = sim.resolve(st, v)
    if isinstance(v, Ref):
        tgt = sim.read(st, v.ptr)
        tgt = sim.resolve(st, tgt)
        if isinstance(tgt, Array):
            return Opaque("SliceIter", (v.ptr, 0, len(tgt.elems), bool(v.mut)))
        if isinstance(tgt, (Enum, Sym)) and tgt.ty is not None and is_adt(tgt.ty, "Option"):
            e = sim.force_variant(st, tgt)
            return Opaque("ArrayIntoIter", ((Ref(v.ptr.ext(("v", e.vidx)).ext(("f", 0)), v.mut),) if e.vname == "Some" else (), 0))
        raise S.Unsupported("into_iter of reference to %r" % (tgt,))
    if isinstance(v, Array):
        return Opaque("ArrayIntoIter", (tuple(v.elems), 0))
    if isinstance(v, (Enum, Sym)) and getattr(v, "ty", None) is not None and is_adt(v.ty, "Option"):
        e = sim.force_variant(st, v)
        return Opaque("ArrayIntoIter", ((e.fields[0],) if e.vname == "Some" else (), 0))
    if isinstance(v, Opaque) and v.kind == "List":
        return Opaque("ArrayIntoIter", (tuple(v.data[0]), 0))     # a Vec / VecDeque by value
    if isinstance(v, Opaque) or (isinstance(v, Struct) and v.ty and is_adt(v.ty, "Range")):
        return v
    raise S.Unsupported("into_iter of %r" % (v,))


def step_any(sim, st, it):
    """iter_step that also understands Range<usize> structs."""
    it = sim.resolve(st, it)
    if isinstance(it, Struct) and it.ty and is_adt(it.ty, "Range"):
        a, b = sim.resolve(st, it.fields[0]), sim.resolve(st, it.fields[1])
        if sim.int_sign(st, int_sub(a, b), {"<"}):
            return Struct(it.ty, (int_add(a, Const(1, getattr(a, "ty", None)), getattr(a, "ty", None)), b)), a
        return it, None
    return iter_step(sim, st, it)


def drain(sim, st, it, limit=64):
    """All remaining items of an abstract iterator value."""
    out = []
    for _ in range(limit):
        it, item = step_any(sim, st, it)
        if item is None:
            return out
        out.append(item)
    raise S.Unsupported("iterator longer than %d items" % limit)


@pattern(r"^<std::(slice::Iter(Mut)?<'a, T>|array::IntoIter<T, N>|iter::(Take|Skip|Enumerate|Rev|Copied|Cloned|Flatten)<I>|iter::Once<T>|option::IntoIter<A>|option::Iter<'a, A>|iter::(Map|Filter|FilterMap|TakeWhile|SkipWhile)<I, [A-Z]\w*>|iter::Scan<I, St, F>|iter::FlatMap<I, U, F>|iter::(Zip|Chain)<A, B>|collections::vec_deque::Iter(Mut)?<'a, T>|vec::IntoIter<T, A>) as std::iter::Iterator>::next$")
def m_slice_iter_next(sim, st, c):
    p = sim.deref_value(st, c["args"][0])
    it = sim.read(st, p)
    if isinstance(it, Struct) and it.ty and is_adt(it.ty, "Range"):
        return m_range_next(sim, st, c)
    it2, item = iter_step(sim, st, it)
    sim.write(st, p, it2)
    return opt(sim, c["ret_ty"], item) if item is not None else opt(sim, c["ret_ty"])


@pattern(r"^std::slice::<impl \[T\]>::iter(_mut)?$")
def m_slice_iter(sim, st, c):
    r = sim.resolve(st, c["args"][0])
    base, a, b = slice_bounds(sim, st, r)
    return Opaque("SliceIter", (base, a, b, c["fn"]["name"] == "iter_mut"))


@pattern(r"^(core|std)::slice::iter::<impl std::iter::IntoIterator for &'a (mut )?\[T\]>::into_iter$")
def m_slice_ref_into_iter(sim, st, c):
    r = sim.resolve(st, c["args"][0])
    base, a, b = slice_bounds(sim, st, r)
    return Opaque("SliceIter", (base, a, b, isinstance(r, Ref) and bool(r.mut)))


def const_usize(sim, st, v, what):
    v = sim.resolve(st, v)
    if not (isinstance(v, Const) and isinstance(v.val, int)):
        raise S.Unsupported("symbolic count in " + what)
    return v.val


@model("std::iter::Iterator::take")
def m_iter_take(sim, st, c):
    return Opaque("Take", (c["args"][0], const_usize(sim, st, c["args"][1], "take")))


@model("std::iter::Iterator::skip")
def m_iter_skip(sim, st, c):
    return Opaque("Skip", (c["args"][0], const_usize(sim, st, c["args"][1], "skip")))


@model("std::iter::Iterator::enumerate")
def m_iter_enumerate(sim, st, c):
    return Opaque("Enumerate", (c["args"][0], 0))


@model("std::iter::Iterator::copied", "std::iter::Iterator::cloned")
def m_iter_copied(sim, st, c):
    return Opaque("Copied", (c["args"][0],))


@model("std::iter::Iterator::rev")
def m_iter_rev(sim, st, c):
    it = sim.resolve(st, c["args"][0])
    if isinstance(it, Opaque) and it.kind == "SliceIter":
        return Opaque("RevSliceIter", it.data)
    raise S.Unsupported("rev on %r" % (it,))


@pattern(r"^std::iter::range::<impl std::iter::Iterator for std::ops::Range<A>>::next$")
def m_range_next(sim, st, c):
    p = sim.deref_value(st, c["args"][0])
    r = sim.expand(st, sim.read(st, p))
    a, b = sim.resolve(st, r.fields[0]), sim.resolve(st, r.fields[1])
    if sim.int_sign(st, int_sub(a, b), {"<"}):
        sim.write(st, p, Struct(r.ty, (int_add(a, Const(1, getattr(a, "ty", None)), getattr(a, "ty", None)), b)))
        return opt(sim, c["ret_ty"], a)
    return opt(sim, c["ret_ty"])


# --------------------------------------------------------------------------------------------- MaybeUninit / slices / pointers

@model("std::mem::MaybeUninit::<T>::uninit")
def m_mu_uninit(sim, st, c):
    return Opaque("MU", (UNINIT,), c["ret_ty"])


@model("std::mem::MaybeUninit::<T>::new")
def m_mu_new(sim, st, c):
    return Opaque("MU", (c["args"][0],), c["ret_ty"])


@model("std::mem::MaybeUninit::<T>::write")
def m_mu_write(sim, st, c):
    p = sim.deref_value(st, c["args"][0])
    cur = sim.read(st, p)
    if not (isinstance(cur, Opaque) and cur.kind == "MU"):
        raise S.Unsupported("MaybeUninit::write on %r" % (cur,))
    sim.write(st, p, Opaque("MU", (c["args"][1],), cur.ty))
    st.effects.append(("mu_write", sim.obj_label(st, p)))
    return Ref(p.ext(("mu",)), True)


@model("std::mem::MaybeUninit::<T>::assume_init")
def m_mu_assume(sim, st, c):
    v = sim.resolve(st, c["args"][0])
    if not (isinstance(v, Opaque) and v.kind == "MU"):
        raise S.Unsupported("assume_init on %r" % (v,))
    if v.data[0] is UNINIT:
        raise S.SimUB("uninit-read", "assume_init of a slot that was never written", c["span"])
    return v.data[0]


def slice_bounds(sim, st, r):
    if r.ptr.path and r.ptr.path[-1][0] == "sl":
        _, a, b = r.ptr.path[-1]
        return Ptr(r.ptr.obj, r.ptr.path[:-1]), a, b
    arr = sim.expand(st, sim.read(st, r.ptr))
    if isinstance(arr, Opaque) and arr.kind == "List":
        return r.ptr, 0, len(arr.data[0])
    if not isinstance(arr, Array):
        raise S.Unsupported("slice op on %r" % (arr,))
    return r.ptr, 0, len(arr.elems)


@model("std::slice::<impl [T]>::split_at")
def m_split_at(sim, st, c):
    r = sim.resolve(st, c["args"][0])
    mid = sim.resolve(st, c["args"][1])
    if not isinstance(mid, Const):
        raise S.Unsupported("split_at symbolic")
    base, a, b = slice_bounds(sim, st, r)
    if mid.val > b - a:
        raise S.SimPanic("split_at", "mid > len", c["span"])
    return Struct(c["ret_ty"], (Ref(base.ext(("sl", a, a + mid.val))), Ref(base.ext(("sl", a + mid.val, b)))))


@model("std::slice::<impl [T]>::len")
def m_slice_len(sim, st, c):
    return sim.ptr_len(st, c["args"][0])


@model("std::slice::<impl [T]>::as_ptr", "std::slice::<impl [T]>::as_mut_ptr")
def m_as_ptr(sim, st, c):
    r = sim.resolve(st, c["args"][0])
    base, a, b = slice_bounds(sim, st, r)
    return Ref(base, False, raw=True, tag=("elems", a, b))


@pattern(r"^std::ptr::(const|mut)_ptr::<impl \*(const|mut) T>::cast$")
def m_ptr_cast(sim, st, c):
    return c["args"][0]


@pattern(r"^std::ptr::(const|mut)_ptr::<impl \*(const|mut) T>::read$|^std::ptr::read::<.*>$|^std::ptr::read$")
def m_ptr_read(sim, st, c):
    r = sim.resolve(st, c["args"][0])
    if not isinstance(r, Ref):
        raise S.Unsupported("ptr::read of %r" % (r,))
    rt = c["ret_ty"]
    if r.tag and r.tag[0] == "elems" and rt.get("k") == "array":
        arr = sim.expand(st, sim.read(st, r.ptr))
        n = const_val(rt["len"])
        _, a, b = r.tag
        if n is None or n != b - a:
            raise S.SimUB("oob", "ptr::read of [_; %s] from %d elements" % (n, b - a), c["span"])
        out = []
        for e in arr.elems[a:b]:
            e = sim.resolve(st, e)
            if isinstance(e, Opaque) and e.kind == "MU":
                if e.data[0] is UNINIT:
                    raise S.SimUB("uninit-read", "ptr::read of an array with an unwritten element", c["span"])
                out.append(e.data[0])
            else:
                out.append(e)
        return Array(out, rt)
    v = sim.read(st, r.ptr)
    if v is UNINIT:
        raise S.SimUB("uninit-read", "ptr::read of uninitialised memory", c["span"])
    return v


# --------------------------------------------------------------------------------------------- RefCell / Rc / Arc

@model("std::cell::RefCell::<T>::new")
def m_refcell_new(sim, st, c):
    return Opaque("RefCell", (c["args"][0], 0), c["ret_ty"])


def cell_at(sim, st, p):
    cur = sim.expand(st, sim.read(st, p))
    if not (isinstance(cur, Opaque) and cur.kind == "RefCell"):
        raise S.Unsupported("RefCell op on %r" % (cur,))
    return cur


@model("std::cell::RefCell::<T>::borrow")
def m_refcell_borrow(sim, st, c):
    p = sim.deref_value(st, c["args"][0])
    cell = cell_at(sim, st, p)
    if cell.data[1] < 0:
        raise S.SimPanic("refcell", "already mutably borrowed: " + sim.obj_label(st, p), c["span"])
    sim.write(st, p, Opaque("RefCell", (cell.data[0], cell.data[1] + 1), cell.ty))
    st.effects.append(("borrow", sim.obj_label(st, p)))
    return Opaque("RefGuard", (p,))


@model("std::cell::RefCell::<T>::borrow_mut")
def m_refcell_borrow_mut(sim, st, c):
    p = sim.deref_value(st, c["args"][0])
    cell = cell_at(sim, st, p)
    if cell.data[1] != 0:
        raise S.SimPanic("refcell", "already borrowed: " + sim.obj_label(st, p), c["span"])
    sim.write(st, p, Opaque("RefCell", (cell.data[0], -1), cell.ty))
    st.effects.append(("borrow_mut", sim.obj_label(st, p)))
    return Opaque("RefMutGuard", (p,))


@pattern(r"^std::cell::RefCell::<T>::try_borrow(_mut)?$")
def m_refcell_try_borrow(sim, st, c):
    """Whether somebody further up the call stack holds a conflicting borrow is the caller's context: when the cell is free in
    this run both outcomes are explored (Ok(guard) / Err), like a contended try_lock."""
    p = sim.deref_value(st, c["args"][0])
    cell = cell_at(sim, st, p)
    mut = c["fn"]["name"].endswith("_mut")
    label = sim.obj_label(st, p)
    ety = c["ret_ty"]["args"][1]
    busy = (cell.data[1] != 0) if mut else (cell.data[1] < 0)
    if busy:
        return sim.mk_enum(c["ret_ty"], "Err", [Sym("borrow_error(%s)" % label, ety)])
    n = len([1 for e in st.effects if e[0] in ("borrow", "borrow_mut", "trycell-failed") and e[-1] == label])
    key = ("trycell", label, n)
    got = st.consts.get(key)
    if got is None:
        raise S.Fork([(("trycell", label, "free"), (lambda s_, k=key: s_.consts.__setitem__(k, "ok"))),
                      (("trycell", label, "held-elsewhere"), (lambda s_, k=key: s_.consts.__setitem__(k, "busy")))])
    if got == "busy":
        st.effects.append(("trycell-failed", label))
        return sim.mk_enum(c["ret_ty"], "Err", [Sym("borrow_error(%s)" % label, ety)])
    if mut:
        sim.write(st, p, Opaque("RefCell", (cell.data[0], -1), cell.ty))
        st.effects.append(("borrow_mut", label))
        return sim.mk_enum(c["ret_ty"], "Ok", [Opaque("RefMutGuard", (p,))])
    sim.write(st, p, Opaque("RefCell", (cell.data[0], cell.data[1] + 1), cell.ty))
    st.effects.append(("borrow", label))
    return sim.mk_enum(c["ret_ty"], "Ok", [Opaque("RefGuard", (p,))])


@model("std::cell::RefCell::<T>::as_ptr")
def m_refcell_as_ptr(sim, st, c):
    p = sim.deref_value(st, c["args"][0])
    cell_at(sim, st, p)
    return Ref(p.ext(("inner",)), True)


@pattern(r"^std::ptr::eq::<.*>$|^std::ptr::eq$")
def m_ptr_eq_raw(sim, st, c):
    a, b = sim.resolve(st, c["args"][0]), sim.resolve(st, c["args"][1])
    pa, pb = getattr(a, "ptr", None), getattr(b, "ptr", None)
    if pa is not None and pb is not None:
        return Const(pa == pb, prim("bool"))
    if a == b:
        return Const(True, prim("bool"))
    return Term("ptr_eq", tuple(sorted((a, b), key=repr)), prim("bool"))


def release_guard(sim, st, g):
    p = g.data[0]
    if p.obj not in st.mem:
        return
    cell = cell_at(sim, st, p)
    n = cell.data[1]
    n2 = 0 if g.kind == "RefMutGuard" else n - 1
    sim.write(st, p, Opaque("RefCell", (cell.data[0], n2), cell.ty))
    st.effects.append(("release", sim.obj_label(st, p)))


@pattern(r"^<std::cell::Ref(Mut)?<'_, T> as std::ops::Deref(Mut)?>::deref(_mut)?$")
def m_guard_deref(sim, st, c):
    g = deref_arg(sim, st, c["args"][0])
    if not (isinstance(g, Opaque) and g.kind in ("RefGuard", "RefMutGuard")):
        raise S.Unsupported("deref of %r" % (g,))
    return Ref(g.data[0].ext(("inner",)), g.kind == "RefMutGuard")


@pattern(r"^std::(rc::Rc|sync::Arc)::<T>::new$")
def m_rc_new(sim, st, c):
    oid = st.new_obj("heap", c["args"][0])
    return Opaque("Rc", (Ptr(oid),), c["ret_ty"])


@pattern(r"^<std::(rc::Rc|sync::Arc)<T, A> as std::ops::Deref>::deref$")
def m_rc_deref(sim, st, c):
    g = deref_arg(sim, st, c["args"][0])
    return Ref(sim.deref_value(st, g))


@pattern(r"^<std::(rc::Rc|sync::Arc)<T, A> as std::clone::Clone>::clone$")
def m_rc_clone(sim, st, c):
    v = deref_arg(sim, st, c["args"][0])
    st.effects.append(("rc_clone", repr(v)))
    return v


@pattern(r"^std::(rc::Rc|sync::Arc)::<T, A>::ptr_eq$")
def m_rc_ptr_eq(sim, st, c):
    a, b = deref_arg(sim, st, c["args"][0]), deref_arg(sim, st, c["args"][1])
    if a == b:
        return Const(True, prim("bool"))
    return Term("ptr_eq", tuple(sorted((a, b), key=repr)), prim("bool"))      # two handles may or may not share a target: decided (forked) when branched on


@pattern(r"^std::sync::(RwLock|Mutex)::<T>::(read|write|lock)$")
def m_lock(sim, st, c):
    p = sim.deref_value(st, c["args"][0])
    label = sim.obj_label(st, p)
    kind = c["fn"]["name"]
    st.effects.append(("lock", kind, label))
    st.notes.add("assume-locks-not-poisoned")
    g = Opaque("LockGuard", (kind, p))
    return sim.mk_enum(c["ret_ty"], "Ok", [g])


@pattern(r"^std::sync::(RwLock|Mutex)::<T>::(try_read|try_write|try_lock)$")
def m_try_lock(sim, st, c):
    """Non-blocking acquisition: whether the lock is free is the environment's choice (other threads), so both outcomes
    are explored: Ok(guard) and Err(WouldBlock)."""
    p = sim.deref_value(st, c["args"][0])
    label = sim.obj_label(st, p)
    kind = c["fn"]["name"]
    n = len([1 for e in st.effects if e[0] in ("lock", "trylock-failed") and e[2] == label])
    key = ("trylock", label, n)
    got = st.consts.get(key)
    if got is None:
        raise S.Fork([(("trylock", label, "acquired"), (lambda s_, k=key: s_.consts.__setitem__(k, "ok"))),
                      (("trylock", label, "contended"), (lambda s_, k=key: s_.consts.__setitem__(k, "busy")))])
    if got == "ok":
        st.effects.append(("lock", kind[4:], label))
        st.notes.add("assume-locks-not-poisoned")
        return sim.mk_enum(c["ret_ty"], "Ok", [Opaque("LockGuard", (kind[4:], p))])
    st.effects.append(("trylock-failed", kind[4:], label))
    ety = c["ret_ty"]["args"][1]
    return sim.mk_enum(c["ret_ty"], "Err", [Sym("would_block(%s)" % label, ety)])


@pattern(r"^<std::sync::(MutexGuard|RwLockReadGuard|RwLockWriteGuard)<'_, T> as std::ops::Deref(Mut)?>::deref(_mut)?$")
def m_lock_deref(sim, st, c):
    g = deref_arg(sim, st, c["args"][0])
    if isinstance(g, Opaque) and g.kind == "LockGuard":
        return Ref(g.data[1].ext(("locked",)), g.data[0] != "read")
    raise S.Unsupported("deref of %r" % (g,))


@pattern(r"^std::sync::(RwLock|Mutex)::<T>::new$")
def m_lock_new(sim, st, c):
    return Opaque("Lock", (c["args"][0],), c["ret_ty"])


# --------------------------------------------------------------------------------------------- crate-local wrappers (Reference)

def reference_target(sim, st, refval):
    """Pointer to the referent of an rrtk Reference value (symbolic or constructed)."""
    r = sim.resolve(st, refval)
    if isinstance(r, Opaque) and r.kind == "Reference":
        return r.data[0]
    if isinstance(r, Sym):
        name = r.name
        if name not in st.refobjs:
            tgt_ty = r.ty["args"][0] if r.ty and r.ty.get("k") == "adt" and r.ty["args"] else None
            oid = st.new_obj("*" + name, Sym("*" + name, tgt_ty))
            st.labels[oid] = "*" + name
            st.refobjs[name] = oid
        return Ptr(st.refobjs[name])
    raise S.Unsupported("Reference value %r" % (r,))


def lm_reference_borrow(sim, st, c):
    rv = deref_arg(sim, st, c["args"][0])
    p = reference_target(sim, st, rv)
    st.effects.append(("ref_borrow", sim.obj_label(st, p)))
    return Opaque("RBorrow", (p, False))


def lm_reference_borrow_mut(sim, st, c):
    rv = deref_arg(sim, st, c["args"][0])
    p = reference_target(sim, st, rv)
    st.effects.append(("ref_borrow_mut", sim.obj_label(st, p)))
    return Opaque("RBorrow", (p, True))


def lm_rborrow_deref(sim, st, c):
    g = deref_arg(sim, st, c["args"][0])
    if isinstance(g, Opaque) and g.kind == "RBorrow":
        return Ref(g.data[0], g.data[1])
    raise S.Unsupported("Borrow deref of %r" % (g,))


def lm_reference_clone(sim, st, c):
    return deref_arg(sim, st, c["args"][0])


def lm_reference_from_rc(sim, st, c):
    rc = sim.resolve(st, c["args"][0])
    if isinstance(rc, Opaque) and rc.kind == "Rc":
        # Rc<RefCell<T>>: the referent is the cell's interior
        cell = sim.read(st, rc.data[0])
        if isinstance(cell, Opaque) and cell.kind == "RefCell":
            return Opaque("Reference", (rc.data[0].ext(("inner",)),), c["ret_ty"])
        return Opaque("Reference", (rc.data[0],), c["ret_ty"])
    raise S.Unsupported("Reference::from_rc_ref_cell of %r" % (rc,))


LOCAL = {
    ("Reference", "", "borrow"): lm_reference_borrow,
    ("Reference", "", "borrow_mut"): lm_reference_borrow_mut,
    ("Borrow", "Deref", "deref"): lm_rborrow_deref,
    ("BorrowMut", "Deref", "deref"): lm_rborrow_deref,
    ("BorrowMut", "DerefMut", "deref_mut"): lm_rborrow_deref,
    ("Reference", "Clone", "clone"): lm_reference_clone,
    ("Reference", "", "from_rc_ref_cell"): lm_reference_from_rc,
}


# --------------------------------------------------------------------------------------------- closures and Option/Result combinators

def call_closure(sim, st, c, clo, args, post=None):
    """Call a closure or fn item synchronously; optional post-processing hook ('post', name, extra)."""
    r = sim.call_sync(st, clo, list(args), None, c.get("span"))
    if post:
        r = POST[post[1]](sim, st, r, post[2])
    return r


def post_wrap(sim, st, ret, extra):
    ty, vname = extra
    return sim.mk_enum(ty, vname, [ret])


POST["wrap"] = post_wrap


@model("std::option::Option::<T>::map")
def m_opt_map(sim, st, c):
    v = sim.force_variant(st, c["args"][0])
    if v.vname == "None":
        return sim.mk_enum(c["ret_ty"], "None")
    return call_closure(sim, st, c, c["args"][1], [v.fields[0]], post=("post", "wrap", (c["ret_ty"], "Some")))


@model("std::option::Option::<T>::map_or")
def m_opt_map_or(sim, st, c):
    v = sim.force_variant(st, c["args"][0])
    if v.vname == "None":
        return c["args"][1]
    return call_closure(sim, st, c, c["args"][2], [v.fields[0]])


@model("std::option::Option::<T>::map_or_else")
def m_opt_map_or_else(sim, st, c):
    v = sim.force_variant(st, c["args"][0])
    if v.vname == "None":
        return call_closure(sim, st, c, c["args"][1], [])
    return call_closure(sim, st, c, c["args"][2], [v.fields[0]])


@model("std::option::Option::<T>::and_then")
def m_opt_and_then(sim, st, c):
    v = sim.force_variant(st, c["args"][0])
    if v.vname == "None":
        return sim.mk_enum(c["ret_ty"], "None")
    return call_closure(sim, st, c, c["args"][1], [v.fields[0]])


@model("std::option::Option::<T>::is_some_and")
def m_opt_is_some_and(sim, st, c):
    v = sim.force_variant(st, c["args"][0])
    if v.vname == "None":
        return Const(False, prim("bool"))
    return call_closure(sim, st, c, c["args"][1], [v.fields[0]])


@model("std::option::Option::<T>::is_none_or")
def m_opt_is_none_or(sim, st, c):
    v = sim.force_variant(st, c["args"][0])
    if v.vname == "None":
        return Const(True, prim("bool"))
    return call_closure(sim, st, c, c["args"][1], [v.fields[0]])


@model("std::option::Option::<T>::unwrap_or")
def m_opt_unwrap_or(sim, st, c):
    v = sim.force_variant(st, c["args"][0])
    return c["args"][1] if v.vname == "None" else v.fields[0]


@model("std::option::Option::<T>::unwrap_or_else")
def m_opt_unwrap_or_else(sim, st, c):
    v = sim.force_variant(st, c["args"][0])
    if v.vname == "None":
        return call_closure(sim, st, c, c["args"][1], [])
    return v.fields[0]


@model("std::result::Result::<T, E>::or")
def m_res_or(sim, st, c):
    v = sim.force_variant(st, c["args"][0])
    if v.vname == "Ok":
        return sim.mk_enum(c["ret_ty"], "Ok", [v.fields[0]])
    return c["args"][1]


@model("std::result::Result::<T, E>::and")
def m_res_and(sim, st, c):
    v = sim.force_variant(st, c["args"][0])
    if v.vname == "Err":
        return sim.mk_enum(c["ret_ty"], "Err", [v.fields[0]])
    return c["args"][1]


@model("std::option::Option::<T>::and")
def m_opt_and(sim, st, c):
    v = sim.force_variant(st, c["args"][0])
    return sim.mk_enum(c["ret_ty"], "None") if v.vname == "None" else c["args"][1]


@pattern(r"^std::convert::num::<impl std::convert::From<(i|u)(8|16|32)> for f(32|64)>::from$")
def m_float_from_small_int(sim, st, c):
    """`f32::from(i8 / i16 / u8 / u16)`, `f64::from(.. / i32 / u32)`: the lossless int -> float conversion, the same value as the
    `as` cast (whatever narrowed the integer beforehand is a `Cast:IntTrunc` term in the operand and is seen by the value rules)."""
    v = sim.resolve(st, c["args"][0])
    if isinstance(v, Const) and isinstance(v.val, int) and not isinstance(v.val, bool):
        return Const(float(v.val), c["ret_ty"])
    return Term("Cast:IntToFloat", (v,), c["ret_ty"])


@pattern(r"^std::convert::num::<impl std::convert::TryFrom<(i|u)(8|16|32|64|128|size)> for (i|u)(8|16|32|64|128|size)>::try_from$")
def m_int_try_from(sim, st, c):
    """Checked integer conversion: whether the value fits is a property of the value, so both outcomes are explored for a symbolic
    operand; the Ok payload is the value itself (no truncation happens on that path)."""
    v = sim.resolve(st, c["args"][0])
    tgt = c["ret_ty"]["args"][0]
    if isinstance(v, Const) and isinstance(v.val, int):
        fits = S.wrap_int(v.val, tgt) == v.val
        return sim.mk_enum(c["ret_ty"], "Ok", [Const(v.val, tgt)]) if fits else sim.mk_enum(c["ret_ty"], "Err", [Sym("try_from_int_error", c["ret_ty"]["args"][1])])
    key = ("int_try_from", repr(v), ty_str(tgt))
    got = st.consts.get(key)
    if got is None:
        raise S.Fork([(("fits", repr(v), ty_str(tgt)), (lambda s_, k=key: s_.consts.__setitem__(k, "fits"))),
                      (("overflows", repr(v), ty_str(tgt)), (lambda s_, k=key: s_.consts.__setitem__(k, "no")))])
    if got == "fits":
        return sim.mk_enum(c["ret_ty"], "Ok", [v])
    return sim.mk_enum(c["ret_ty"], "Err", [Sym("try_from_int_error", c["ret_ty"]["args"][1])])


@model("std::option::Option::<T>::or")
def m_opt_or(sim, st, c):
    v = sim.force_variant(st, c["args"][0])
    return c["args"][1] if v.vname == "None" else v


@model("std::option::Option::<T>::is_some", "std::option::Option::<T>::is_none")
def m_opt_is(sim, st, c):
    v = sim.force_variant(st, deref_arg(sim, st, c["args"][0]))
    return Const((v.vname == "Some") == c["fn"]["name"].endswith("is_some"), prim("bool"))


@model("std::result::Result::<T, E>::is_ok", "std::result::Result::<T, E>::is_err")
def m_res_is(sim, st, c):
    v = sim.force_variant(st, deref_arg(sim, st, c["args"][0]))
    return Const((v.vname == "Ok") == c["fn"]["name"].endswith("is_ok"), prim("bool"))


@model("std::option::Option::<T>::as_ref", "std::option::Option::<T>::as_mut")
def m_opt_as_ref(sim, st, c):
    p = sim.deref_value(st, c["args"][0])
    v = sim.force_variant(st, sim.read(st, p))
    if v.vname == "None":
        return sim.mk_enum(c["ret_ty"], "None")
    return sim.mk_enum(c["ret_ty"], "Some", [Ref(p.ext(("d", v.variant), ("f", 0)), c["fn"]["name"] == "as_mut")])


@model("std::option::Option::<T>::take")
def m_opt_take(sim, st, c):
    p = sim.deref_value(st, c["args"][0])
    v = sim.read(st, p)
    ty = getattr(v, "ty", None) or c["ret_ty"]
    sim.write(st, p, sim.mk_enum(c["ret_ty"], "None"))
    return v


@model("std::option::Option::<T>::replace")
def m_opt_replace(sim, st, c):
    p = sim.deref_value(st, c["args"][0])
    v = sim.read(st, p)
    sim.write(st, p, sim.mk_enum(c["ret_ty"], "Some", [c["args"][1]]))
    return v


@model("std::option::Option::<&T>::copied", "std::option::Option::<&T>::cloned", "std::option::Option::<&mut T>::copied")
def m_opt_copied(sim, st, c):
    v = sim.force_variant(st, c["args"][0])
    if v.vname == "None":
        return sim.mk_enum(c["ret_ty"], "None")
    return sim.mk_enum(c["ret_ty"], "Some", [deref_arg(sim, st, v.fields[0])])


@model("std::option::Option::<T>::ok_or")
def m_opt_ok_or(sim, st, c):
    v = sim.force_variant(st, c["args"][0])
    if v.vname == "None":
        return sim.mk_enum(c["ret_ty"], "Err", [c["args"][1]])
    return sim.mk_enum(c["ret_ty"], "Ok", [v.fields[0]])


@model("std::result::Result::<T, E>::ok")
def m_res_ok(sim, st, c):
    v = sim.force_variant(st, c["args"][0])
    return sim.mk_enum(c["ret_ty"], "Some", [v.fields[0]]) if v.vname == "Ok" else sim.mk_enum(c["ret_ty"], "None")


@model("std::result::Result::<T, E>::map")
def m_res_map(sim, st, c):
    v = sim.force_variant(st, c["args"][0])
    if v.vname == "Err":
        return sim.mk_enum(c["ret_ty"], "Err", [v.fields[0]])
    return call_closure(sim, st, c, c["args"][1], [v.fields[0]], post=("post", "wrap", (c["ret_ty"], "Ok")))


@model("std::result::Result::<T, E>::map_err")
def m_res_map_err(sim, st, c):
    v = sim.force_variant(st, c["args"][0])
    if v.vname == "Ok":
        return sim.mk_enum(c["ret_ty"], "Ok", [v.fields[0]])
    return call_closure(sim, st, c, c["args"][1], [v.fields[0]], post=("post", "wrap", (c["ret_ty"], "Err")))


@model("std::result::Result::<T, E>::and_then")
def m_res_and_then(sim, st, c):
    v = sim.force_variant(st, c["args"][0])
    if v.vname == "Err":
        return sim.mk_enum(c["ret_ty"], "Err", [v.fields[0]])
    return call_closure(sim, st, c, c["args"][1], [v.fields[0]])


@model("std::result::Result::<T, E>::unwrap_or")
def m_res_unwrap_or(sim, st, c):
    v = sim.force_variant(st, c["args"][0])
    return c["args"][1] if v.vname == "Err" else v.fields[0]


@model("std::mem::drop")
def m_mem_drop(sim, st, c):
    sim.drop_value(st, c["args"][0])
    return UNIT


@model("std::mem::replace")
def m_mem_replace(sim, st, c):
    p = sim.deref_value(st, c["args"][0])
    v = sim.read(st, p)
    sim.write(st, p, c["args"][1])
    return v


@model("std::mem::swap")
def m_mem_swap(sim, st, c):
    p, q = sim.deref_value(st, c["args"][0]), sim.deref_value(st, c["args"][1])
    a, b = sim.read(st, p), sim.read(st, q)
    sim.write(st, p, b)
    sim.write(st, q, a)
    return UNIT


def ord_key(sim, st, v, ty):
    v = sim.resolve(st, v)
    if S.is_int_ty(ty):
        return v
    if single_int_field_struct(sim, ty) and sim.prog.is_derived_impl("Ord", ty["name"]):
        return sim.resolve(st, sim.expand(st, v).fields[0])
    raise S.Unsupported("max/min on " + ty_str(ty))


def opt_max_min(sim, st, c, want_max):
    """Ord on Option<T>: None < Some(_), Some(a) vs Some(b) by the payload."""
    ty = c["ret_ty"]
    a, b = sim.force_variant(st, c["args"][0]), sim.force_variant(st, c["args"][1])
    if a.vname == "None" or b.vname == "None":
        if a.vname == b.vname:
            return c["args"][1] if want_max else c["args"][0]
        some_first = a.vname == "Some"
        return (c["args"][0] if some_first else c["args"][1]) if want_max else (c["args"][1] if some_first else c["args"][0])
    ity = ty["args"][0]
    gt = sim.int_sign(st, int_sub(ord_key(sim, st, a.fields[0], ity), ord_key(sim, st, b.fields[0], ity)), {">"})
    if want_max:
        return c["args"][0] if gt else c["args"][1]
    return c["args"][1] if gt else c["args"][0]


@model("std::cmp::max", "std::cmp::Ord::max")
def m_max(sim, st, c):
    a, b = c["args"][0], c["args"][1]
    ty = c["ret_ty"]
    if is_adt(ty, "Option"):
        return opt_max_min(sim, st, c, True)
    if sim.int_sign(st, int_sub(ord_key(sim, st, a, ty), ord_key(sim, st, b, ty)), {">"}):
        return a
    return b


@model("std::cmp::min", "std::cmp::Ord::min")
def m_min(sim, st, c):
    a, b = c["args"][0], c["args"][1]
    ty = c["ret_ty"]
    if is_adt(ty, "Option"):
        return opt_max_min(sim, st, c, False)
    if sim.int_sign(st, int_sub(ord_key(sim, st, a, ty), ord_key(sim, st, b, ty)), {">"}):
        return b
    return a


# --------------------------------------------------------------------------------------------- Vec / VecDeque as concrete-length lists

def mk_list(elems, ty=None):
    return Opaque("List", (tuple(elems),), ty)


def list_at(sim, st, p):
    v = sim.read(st, p)
    if isinstance(v, Opaque) and v.kind == "List":
        return v
    raise S.Unsupported("list operation on %r (symbolic-length collection)" % (v,))


@pattern(r"^std::collections::VecDeque::<T, A>::range(_mut)?$")
def m_deque_range(sim, st, c):
    p = sim.deref_value(st, c["args"][0])
    l = list_at(sim, st, p)
    n = len(l.data[0])
    lo, hi = range_bounds(sim, st, c["args"][1], n)
    if not (0 <= lo <= hi <= n):
        raise S.SimPanic("index-oob", "range %d..%d out of range for length %d" % (lo, hi, n), c["span"])
    return Opaque("SliceIter", (p, lo, hi, c["fn"]["name"] == "range_mut"))


@pattern(r"^std::(collections::VecDeque|vec::Vec)::<T>::(new|with_capacity)$")
def m_list_new(sim, st, c):
    return mk_list((), c["ret_ty"])


@pattern(r"^std::(collections::VecDeque|vec::Vec)::<T, A>::(push_back|push)$")
def m_list_push_back(sim, st, c):
    p = sim.deref_value(st, c["args"][0])
    l = list_at(sim, st, p)
    sim.write(st, p, mk_list(l.data[0] + (c["args"][1],), l.ty))
    return UNIT


@model("std::collections::VecDeque::<T, A>::push_front")
def m_list_push_front(sim, st, c):
    p = sim.deref_value(st, c["args"][0])
    l = list_at(sim, st, p)
    sim.write(st, p, mk_list((c["args"][1],) + l.data[0], l.ty))
    return UNIT


@model("std::collections::VecDeque::<T, A>::pop_front")
def m_list_pop_front(sim, st, c):
    p = sim.deref_value(st, c["args"][0])
    l = list_at(sim, st, p)
    if not l.data[0]:
        return sim.mk_enum(c["ret_ty"], "None")
    sim.write(st, p, mk_list(l.data[0][1:], l.ty))
    return sim.mk_enum(c["ret_ty"], "Some", [l.data[0][0]])


@pattern(r"^std::(collections::VecDeque|vec::Vec)::<T, A>::(pop_back|pop)$")
def m_list_pop_back(sim, st, c):
    p = sim.deref_value(st, c["args"][0])
    l = list_at(sim, st, p)
    if not l.data[0]:
        return sim.mk_enum(c["ret_ty"], "None")
    sim.write(st, p, mk_list(l.data[0][:-1], l.ty))
    return sim.mk_enum(c["ret_ty"], "Some", [l.data[0][-1]])


@pattern(r"^std::(collections::VecDeque|vec::Vec)::<T, A>::len$")
def m_list_len(sim, st, c):
    l = list_at(sim, st, sim.deref_value(st, c["args"][0]))
    return LenConst(len(l.data[0]), prim("usize"))


@pattern(r"^std::(collections::VecDeque|vec::Vec)::<T, A>::is_empty$")
def m_list_is_empty(sim, st, c):
    l = list_at(sim, st, sim.deref_value(st, c["args"][0]))
    return Const(len(l.data[0]) == 0, prim("bool"))


@pattern(r"^std::(collections::VecDeque|vec::Vec)::<T, A>::clear$")
def m_list_clear(sim, st, c):
    p = sim.deref_value(st, c["args"][0])
    l = list_at(sim, st, p)
    sim.write(st, p, mk_list((), l.ty))
    return UNIT


@pattern(r"^<std::(collections::VecDeque<T, A> as std::ops::Index<usize>|vec::Vec<T, A> as std::ops::Index<I>)>::index$")
def m_list_index(sim, st, c):
    p = sim.deref_value(st, c["args"][0])
    l = list_at(sim, st, p)
    i = sim.resolve(st, c["args"][1])
    if isinstance(i, Struct):       # vec[a..b]
        n = len(l.data[0])
        lo, hi = range_bounds(sim, st, i, n)
        if not (0 <= lo <= hi <= n):
            raise S.SimPanic("index-oob", "range %d..%d out of range for length %d" % (lo, hi, n), c["span"])
        return Ref(p.ext(("sl", lo, hi)))
    if not isinstance(i, Const):
        raise S.Unsupported("symbolic list index")
    if not (0 <= i.val < len(l.data[0])):
        raise S.SimPanic("index-oob", "index %d out of bounds of a collection of length %d" % (i.val, len(l.data[0])), c["span"])
    return Ref(p.ext(("i", i.val)))


@pattern(r"^<std::(collections::VecDeque<T, A> as std::ops::IndexMut<usize>|vec::Vec<T, A> as std::ops::IndexMut<I>)>::index_mut$")
def m_list_index_mut(sim, st, c):
    r = m_list_index(sim, st, c)
    return Ref(r.ptr, True)


@pattern(r"^<&'a (mut )?std::(collections::VecDeque|vec::Vec)<T, A> as std::iter::IntoIterator>::into_iter$")
def m_list_into_iter(sim, st, c):
    r = sim.resolve(st, c["args"][0])
    l = list_at(sim, st, r.ptr)
    return Opaque("SliceIter", (r.ptr, 0, len(l.data[0]), r.mut))


@pattern(r"^<std::collections::vec_deque::Iter(Mut)?<'a, T> as std::iter::Iterator>::next$")
def m_deque_iter_next(sim, st, c):
    return m_slice_iter_next(sim, st, c)


@pattern(r"^<std::(vec::Vec|collections::VecDeque)<T, A> as std::clone::Clone>::clone$")
def m_list_clone(sim, st, c):
    return deref_arg(sim, st, c["args"][0])


@pattern(r"^<std::collections::VecDeque<T, A> as std::convert::From<std::vec::Vec<T, A>>>::from$")
def m_deque_from_vec(sim, st, c):
    return c["args"][0]


@pattern(r"^std::(collections::VecDeque|vec::Vec)::<T, A>::(front|first)$")
def m_list_front(sim, st, c):
    p = sim.deref_value(st, c["args"][0])
    l = list_at(sim, st, p)
    if not l.data[0]:
        return sim.mk_enum(c["ret_ty"], "None")
    return sim.mk_enum(c["ret_ty"], "Some", [Ref(p.ext(("i", 0)))])


@pattern(r"^std::(collections::VecDeque|vec::Vec)::<T, A>::(back|last)$")
def m_list_back(sim, st, c):
    p = sim.deref_value(st, c["args"][0])
    l = list_at(sim, st, p)
    if not l.data[0]:
        return sim.mk_enum(c["ret_ty"], "None")
    return sim.mk_enum(c["ret_ty"], "Some", [Ref(p.ext(("i", len(l.data[0]) - 1)))])


@pattern(r"^std::(rc::Rc|sync::Arc)::<T, A>::as_ptr$")
def m_rc_as_ptr(sim, st, c):
    g = deref_arg(sim, st, c["args"][0])
    return Ref(sim.deref_value(st, g), False, raw=True)


@pattern(r"^std::f(32|64)::<impl f(32|64)>::total_cmp$")
def m_total_cmp(sim, st, c):
    a = deref_arg(sim, st, c["args"][0])
    b = deref_arg(sim, st, c["args"][1])
    return Sym("total_cmp(%r, %r)" % (a, b), c["ret_ty"])


@pattern(r"^std::cmp::Ordering::is_(eq|ne|lt|le|gt|ge)$")
def m_ordering_is(sim, st, c):
    o = sim.force_variant(st, c["args"][0])
    name = c["fn"]["name"]
    table = {"is_eq": {"Equal"}, "is_ne": {"Less", "Greater"}, "is_lt": {"Less"}, "is_le": {"Less", "Equal"}, "is_gt": {"Greater"}, "is_ge": {"Greater", "Equal"}}
    return Const(o.vname in table[name], prim("bool"))



# --------------------------------------------------------------------------------------------- closures as values, more iterators

@pattern(r"^std::ops::(Fn|FnMut|FnOnce)::(call|call_mut|call_once)$")
def m_fn_call(sim, st, c):
    f = c["args"][0]
    tup = sim.expand(st, sim.resolve(st, c["args"][1]))
    args = list(tup.fields) if isinstance(tup, Struct) else []
    return sim.call_sync(st, f, args, c["ret_ty"], c["span"])


@pattern(r"^std::array(::iter)?::<impl std::iter::IntoIterator for \[T; N\]>::into_iter$")
def m_array_into_iter_by_value(sim, st, c):
    arr = sim.expand(st, sim.resolve(st, c["args"][0]))
    if not isinstance(arr, Array):
        raise S.Unsupported("into_iter of %r" % (arr,))
    return Opaque("ArrayIntoIter", (tuple(arr.elems), 0))


@pattern(r"^<std::vec::Vec<T, A> as std::iter::IntoIterator>::into_iter$")
def m_vec_into_iter_by_value(sim, st, c):
    l = sim.resolve(st, c["args"][0])
    if isinstance(l, Opaque) and l.kind == "List":
        return Opaque("ArrayIntoIter", (tuple(l.data[0]), 0))
    raise S.Unsupported("into_iter of %r" % (l,))


@pattern(r"^std::array::<impl \[T; N\]>::map$")
def m_array_map(sim, st, c):
    arr = sim.expand(st, sim.resolve(st, c["args"][0]))
    if not isinstance(arr, Array):
        raise S.Unsupported("array::map of %r" % (arr,))
    return Array([sim.call_sync(st, c["args"][1], [e]) for e in arr.elems], c["ret_ty"])


@model("std::cell::Cell::<T>::new")
def m_cell_new(sim, st, c):
    return Opaque("Cell", (c["args"][0],), c["ret_ty"])


def _cell_ptr(sim, st, c):
    p = sim.deref_value(st, c["args"][0])
    cur = sim.expand(st, sim.read(st, p))
    if isinstance(cur, Sym):
        cur = Opaque("Cell", (Sym(cur.name + ".value", c["gargs"][0] if c.get("gargs") else None),), cur.ty)
        sim.write(st, p, cur)
    if not (isinstance(cur, Opaque) and cur.kind == "Cell"):
        raise S.Unsupported("Cell op on %r" % (cur,))
    return p, cur


@pattern(r"^std::cell::Cell::<T>::(get|set|replace|take)$")
def m_cell_op(sim, st, c):
    """Cell<T>: interior mutability through a shared reference - the write is a real store (effects and purity rules see it)"""
    p, cur = _cell_ptr(sim, st, c)
    op = c["fn"]["name"]
    if op == "get":
        return cur.data[0]
    st.effects.append(("cell_write", sim.obj_label(st, p)))
    if op == "set":
        sim.write(st, p, Opaque("Cell", (c["args"][1],), cur.ty))
        return UNIT
    if op == "replace":
        sim.write(st, p, Opaque("Cell", (c["args"][1],), cur.ty))
        return cur.data[0]
    raise S.Unsupported("Cell::take")


@pattern(r"^std::iter::Iterator::sum(::<.*>)?$|^<.* as std::iter::Iterator>::sum(::<.*>)?$")
def m_iter_sum(sim, st, c):
    it = as_iterator(sim, st, c["args"][0])
    rt = c["ret_ty"]
    acc = Const(0.0, rt) if S.is_float_ty(rt) else (Const(0, rt) if S.is_int_ty(rt) else None)
    for _ in range(64):
        it, x = step_any(sim, st, it)
        if x is None:
            if acc is None:
                raise S.Unsupported("sum of an empty iterator of %s" % ty_str(rt))
            return acc
        if acc is None:
            acc = x
        elif S.is_int_ty(rt):
            acc = int_add(acc, x, rt)
        else:
            acc = Term("Add", (acc, x), rt)
    raise S.Unsupported("sum over more than 64 items")


@pattern(r"^std::ops::RangeInclusive::<Idx>::new$")
def m_range_incl_new(sim, st, c):
    return Opaque("RangeIncl", (c["args"][0], c["args"][1]), c["ret_ty"])


@pattern(r"^std::ops::(RangeInclusive|Range)::<Idx>::contains(::<.*>)?$")
def m_range_contains(sim, st, c):
    r = sim.expand(st, deref_arg(sim, st, c["args"][0]))
    x = deref_arg(sim, st, c["args"][1])
    if isinstance(r, Opaque) and r.kind == "RangeIncl":
        lo, hi, incl = r.data[0], r.data[1], True
    elif isinstance(r, Struct) and r.ty and is_adt(r.ty, "Range"):
        lo, hi, incl = r.fields[0], r.fields[1], False
    else:
        raise S.Unsupported("contains on %r" % (r,))
    lo, hi, x = sim.resolve(st, lo), sim.resolve(st, hi), sim.resolve(st, x)
    ity = c["gargs"][0] if c.get("gargs") else None
    isf = (ity is not None and S.is_float_ty(ity)) or any(isinstance(v, Const) and isinstance(v.val, float) for v in (lo, hi, x))
    if isf:
        if not sim.float_rel(st, lo, x, {"<", "="}):
            return Const(False, prim("bool"))
        return Const(sim.float_rel(st, x, hi, {"<", "="} if incl else {"<"}), prim("bool"))
    if not sim.int_sign(st, int_sub(lo, x), {"<", "="}):
        return Const(False, prim("bool"))
    return Const(sim.int_sign(st, int_sub(x, hi), {"<", "="} if incl else {"<"}), prim("bool"))


@model("std::array::from_fn")
def m_array_from_fn(sim, st, c):
    n = const_val(c["ret_ty"]["len"])
    if n is None:
        raise S.Unsupported("from_fn with symbolic length")
    return Array([sim.call_sync(st, c["args"][0], [Const(i, prim("usize"))]) for i in range(n)], c["ret_ty"])


def range_bounds(sim, st, r, n):
    """(start, end) of a range-like index value over a sequence of length n."""
    r = sim.expand(st, sim.resolve(st, r))
    name = r.ty["name"] if isinstance(r, Struct) and r.ty and r.ty.get("k") == "adt" else None

    def c_(v):
        v = sim.resolve(st, v)
        if not isinstance(v, Const):
            raise S.Unsupported("symbolic range bound")
        return v.val
    if name == "Range":
        return c_(r.fields[0]), c_(r.fields[1])
    if name == "RangeTo":
        return 0, c_(r.fields[0])
    if name == "RangeFrom":
        return c_(r.fields[0]), n
    if name == "RangeFull":
        return 0, n
    if name == "RangeToInclusive":
        return 0, c_(r.fields[0]) + 1
    raise S.Unsupported("index by %r" % (r,))


@pattern(r"^(std::array::<impl std::ops::Index(Mut)?<I> for \[T; N\]>|std::slice::index::<impl std::ops::Index(Mut)?<I> for \[T\]>)::index(_mut)?$")
def m_seq_index(sim, st, c):
    r = sim.resolve(st, c["args"][0])
    base, a, b = slice_bounds(sim, st, r)
    idx = sim.resolve(st, c["args"][1])
    mut = c["fn"]["name"] == "index_mut"
    if isinstance(idx, Const) and isinstance(idx.val, int):
        if not (0 <= idx.val < b - a):
            raise S.SimPanic("index-oob", "index %d out of range for length %d" % (idx.val, b - a), c["span"])
        return Ref(base.ext(("i", a + idx.val)), mut)
    lo, hi = range_bounds(sim, st, idx, b - a)
    if not (0 <= lo <= hi <= b - a):
        raise S.SimPanic("index-oob", "range %d..%d out of range for length %d" % (lo, hi, b - a), c["span"])
    return Ref(base.ext(("sl", a + lo, a + hi)), mut)


@pattern(r"^std::array::<impl \[T; N\]>::as_(mut_)?slice$")
def m_array_as_slice(sim, st, c):
    r = sim.resolve(st, c["args"][0])
    return Ref(r.ptr, c["fn"]["name"] == "as_mut_slice")


@model("std::iter::Iterator::scan")
def m_iter_scan(sim, st, c):
    oid = st.new_obj("scan_state", c["args"][1])
    return Opaque("Scan", (c["args"][0], oid, c["args"][2], False))


@model("std::slice::<impl [T]>::split_first", "std::slice::<impl [T]>::split_first_mut")
def m_split_first(sim, st, c):
    r = sim.resolve(st, c["args"][0])
    base, a, b = slice_bounds(sim, st, r)
    if b - a == 0:
        return sim.mk_enum(c["ret_ty"], "None")
    t = c["ret_ty"]["args"][0]
    return sim.mk_enum(c["ret_ty"], "Some", [Struct(t, (Ref(base.ext(("i", a))), Ref(base.ext(("sl", a + 1, b)))))])


@model("std::slice::<impl [T]>::first", "std::slice::<impl [T]>::last")
def m_slice_first(sim, st, c):
    r = sim.resolve(st, c["args"][0])
    base, a, b = slice_bounds(sim, st, r)
    if b - a == 0:
        return sim.mk_enum(c["ret_ty"], "None")
    i = a if c["fn"]["name"] == "first" else b - 1
    return sim.mk_enum(c["ret_ty"], "Some", [Ref(base.ext(("i", i)))])


@model("std::slice::<impl [T]>::is_empty")
def m_slice_is_empty(sim, st, c):
    r = sim.resolve(st, c["args"][0])
    base, a, b = slice_bounds(sim, st, r)
    return Const(b == a, prim("bool"))


@pattern(r"^std::(collections::VecDeque|vec::Vec)::<T, A>::iter(_mut)?$")
def m_list_iter(sim, st, c):
    r = sim.resolve(st, c["args"][0])
    l = list_at(sim, st, r.ptr)
    return Opaque("SliceIter", (r.ptr, 0, len(l.data[0]), c["fn"]["name"] == "iter_mut"))


@model("std::iter::Iterator::map")
def m_iter_map(sim, st, c):
    return Opaque("Map", (c["args"][0], c["args"][1]))


@model("std::iter::Iterator::filter")
def m_iter_filter(sim, st, c):
    return Opaque("Filter", (c["args"][0], c["args"][1]))


@model("std::iter::Iterator::filter_map")
def m_iter_filter_map(sim, st, c):
    return Opaque("FilterMap", (c["args"][0], c["args"][1]))


@model("std::iter::Iterator::zip")
def m_iter_zip(sim, st, c):
    other = sim.resolve(st, c["args"][1])
    if isinstance(other, Array):      # zip(array by value)
        other = Opaque("ArrayIntoIter", (tuple(other.elems), 0))
    if isinstance(other, Opaque) and other.kind == "List":      # zip(vec by value)
        other = Opaque("ArrayIntoIter", (tuple(other.data[0]), 0))
    if isinstance(other, Ref) and other.ptr.path and other.ptr.path[-1][0] == "sl":      # &collection[a..b]
        base, a, b = slice_bounds(sim, st, other)
        other = Opaque("SliceIter", (base, a, b, bool(other.mut)))
    if isinstance(other, Ref):   # IntoIterator for &collection
        tgt = sim.expand(st, sim.read(st, other.ptr))
        if isinstance(tgt, Array):
            other = Opaque("SliceIter", (other.ptr, 0, len(tgt.elems), other.mut))
        elif isinstance(tgt, Opaque) and tgt.kind == "List":
            other = Opaque("SliceIter", (other.ptr, 0, len(tgt.data[0]), other.mut))
    return Opaque("Zip", (c["args"][0], other))


@model("std::iter::Iterator::chain")
def m_iter_chain(sim, st, c):
    return Opaque("Chain", (c["args"][0], as_iterator(sim, st, c["args"][1])))


@model("std::iter::once")
def m_iter_once(sim, st, c):
    return Opaque("ArrayIntoIter", ((c["args"][0],), 0))


@model("std::iter::empty")
def m_iter_empty(sim, st, c):
    return Opaque("ArrayIntoIter", ((), 0))


@model("std::iter::Iterator::flatten")
def m_iter_flatten(sim, st, c):
    return Opaque("Flatten", (c["args"][0], None))


@model("std::iter::Iterator::flat_map")
def m_iter_flat_map(sim, st, c):
    return Opaque("Flatten", (Opaque("Map", (c["args"][0], c["args"][1])), None))


@model("std::iter::Iterator::take_while")
def m_iter_take_while(sim, st, c):
    return Opaque("TakeWhile", (c["args"][0], c["args"][1], False))


@model("std::iter::Iterator::skip_while")
def m_iter_skip_while(sim, st, c):
    return Opaque("SkipWhile", (c["args"][0], c["args"][1], False))


@model("std::iter::Iterator::nth")
def m_iter_nth(sim, st, c):
    p = sim.deref_value(st, c["args"][0])
    it = sim.read(st, p)
    k = const_usize(sim, st, c["args"][1], "nth")
    item = None
    for _ in range(k + 1):
        it, item = step_any(sim, st, it)
        if item is None:
            break
    sim.write(st, p, it)
    return opt(sim, c["ret_ty"], item) if item is not None else opt(sim, c["ret_ty"])


@model("std::iter::Iterator::position")
def m_iter_position(sim, st, c):
    p = sim.deref_value(st, c["args"][0])
    it = sim.read(st, p)
    i = 0
    while True:
        it, item = step_any(sim, st, it)
        if item is None:
            sim.write(st, p, it)
            return opt(sim, c["ret_ty"])
        if sim.decide_bool(st, sim.call_sync(st, c["args"][1], [item])):
            sim.write(st, p, it)
            return opt(sim, c["ret_ty"], Const(i, prim("usize")))
        i += 1
        if i > 64:
            raise S.Unsupported("position over a long iterator")


@pattern(r"^<std::option::Option<T> as std::iter::IntoIterator>::into_iter$|^std::option::Option::<T>::iter$|^<&'a std::option::Option<T> as std::iter::IntoIterator>::into_iter$")
def m_opt_into_iter(sim, st, c):
    return as_iterator(sim, st, c["args"][0])


@model("std::option::Option::<std::result::Result<T, E>>::transpose")
def m_opt_res_transpose(sim, st, c):
    v = sim.force_variant(st, c["args"][0])
    oty = c["ret_ty"]["args"][0]
    if v.vname == "None":
        return sim.mk_enum(c["ret_ty"], "Ok", [sim.mk_enum(oty, "None")])
    r = sim.force_variant(st, v.fields[0])
    if r.vname == "Ok":
        return sim.mk_enum(c["ret_ty"], "Ok", [sim.mk_enum(oty, "Some", [r.fields[0]])])
    return sim.mk_enum(c["ret_ty"], "Err", [r.fields[0]])


@model("std::result::Result::<std::option::Option<T>, E>::transpose")
def m_res_opt_transpose(sim, st, c):
    v = sim.force_variant(st, c["args"][0])
    rty = c["ret_ty"]["args"][0]
    if v.vname == "Err":
        return sim.mk_enum(c["ret_ty"], "Some", [sim.mk_enum(rty, "Err", [v.fields[0]])])
    o = sim.force_variant(st, v.fields[0])
    if o.vname == "None":
        return sim.mk_enum(c["ret_ty"], "None")
    return sim.mk_enum(c["ret_ty"], "Some", [sim.mk_enum(rty, "Ok", [o.fields[0]])])


@pattern(r"^(core|std)::bool::<impl bool>::then$")
def m_bool_then(sim, st, c):
    if sim.decide_bool(st, c["args"][0]):
        return sim.mk_enum(c["ret_ty"], "Some", [sim.call_sync(st, c["args"][1], [])])
    return sim.mk_enum(c["ret_ty"], "None")


@pattern(r"^(core|std)::bool::<impl bool>::then_some$")
def m_bool_then_some(sim, st, c):
    if sim.decide_bool(st, c["args"][0]):
        return sim.mk_enum(c["ret_ty"], "Some", [c["args"][1]])
    return sim.mk_enum(c["ret_ty"], "None")


@model("std::iter::Iterator::fold")
def m_iter_fold(sim, st, c):
    acc = c["args"][1]
    for item in drain(sim, st, c["args"][0]):
        acc = sim.call_sync(st, c["args"][2], [acc, item])
    return acc


@model("std::iter::Iterator::for_each")
def m_iter_for_each(sim, st, c):
    for item in drain(sim, st, c["args"][0]):
        sim.call_sync(st, c["args"][1], [item])
    return UNIT


@model("std::iter::Iterator::try_for_each")
def m_iter_try_for_each(sim, st, c):
    p = sim.deref_value(st, c["args"][0])
    it = sim.read(st, p)
    rt = c["ret_ty"]
    while True:
        it, item = step_any(sim, st, it)
        sim.write(st, p, it)
        if item is None:
            if is_adt(rt, "Result"):
                return sim.mk_enum(rt, "Ok", [UNIT])
            if is_adt(rt, "Option"):
                return sim.mk_enum(rt, "Some", [UNIT])
            return sim.mk_enum(rt, "Continue", [UNIT])
        r = sim.force_variant(st, sim.call_sync(st, c["args"][1], [item]))
        if r.vname in ("Err", "None", "Break"):
            return r


@model("std::iter::Iterator::try_fold")
def m_iter_try_fold(sim, st, c):
    p = sim.deref_value(st, c["args"][0])
    it = sim.read(st, p)
    acc = c["args"][1]
    rt = c["ret_ty"]
    okname = "Ok" if is_adt(rt, "Result") else ("Some" if is_adt(rt, "Option") else "Continue")
    while True:
        it, item = step_any(sim, st, it)
        sim.write(st, p, it)
        if item is None:
            return sim.mk_enum(rt, okname, [acc])
        r = sim.force_variant(st, sim.call_sync(st, c["args"][2], [acc, item]))
        if r.vname != okname:
            return r
        acc = r.fields[0]


@model("std::iter::Iterator::any", "std::iter::Iterator::all")
def m_iter_any_all(sim, st, c):
    p = sim.deref_value(st, c["args"][0])
    it = sim.read(st, p)
    is_any = c["fn"]["name"] == "any"
    while True:
        it, item = step_any(sim, st, it)
        sim.write(st, p, it)
        if item is None:
            return Const(not is_any, prim("bool"))
        b = sim.decide_bool(st, sim.call_sync(st, c["args"][1], [item]))
        if b == is_any:
            return Const(is_any, prim("bool"))


@model("std::iter::Iterator::find")
def m_iter_find(sim, st, c):
    p = sim.deref_value(st, c["args"][0])
    it = sim.read(st, p)
    while True:
        it, item = step_any(sim, st, it)
        sim.write(st, p, it)
        if item is None:
            return sim.mk_enum(c["ret_ty"], "None")
        oid = st.new_obj("find_item", item)
        if sim.decide_bool(st, sim.call_sync(st, c["args"][1], [Ref(Ptr(oid))])):
            return sim.mk_enum(c["ret_ty"], "Some", [item])


@model("std::iter::Iterator::count")
def m_iter_count(sim, st, c):
    return Const(len(drain(sim, st, c["args"][0])), prim("usize"))


@model("std::iter::Iterator::last")
def m_iter_last(sim, st, c):
    items = drain(sim, st, c["args"][0])
    return sim.mk_enum(c["ret_ty"], "Some", [items[-1]]) if items else sim.mk_enum(c["ret_ty"], "None")


@model("std::iter::Iterator::collect")
def m_iter_collect(sim, st, c):
    rt = c["ret_ty"]
    items = drain(sim, st, c["args"][0])
    if is_adt(rt, "Vec") or is_adt(rt, "VecDeque"):
        return mk_list(items, rt)
    raise S.Unsupported("collect into " + ty_str(rt))


@pattern(r"^<std::(vec::Vec<T>|collections::VecDeque<T>) as std::iter::FromIterator<T>>::from_iter$")
def m_from_iter(sim, st, c):
    return mk_list(drain(sim, st, c["args"][0]), c["ret_ty"])


@model("std::iter::Iterator::next")
def m_iter_next_unresolved(sim, st, c):
    return m_slice_iter_next(sim, st, c)



@pattern(r"^<std::vec::Vec<T, A> as std::ops::Deref(Mut)?>::deref(_mut)?$")
def m_vec_deref(sim, st, c):
    r = sim.resolve(st, c["args"][0])
    return Ref(r.ptr, c["fn"]["name"] == "deref_mut")


@pattern(r"^std::slice::<impl \[T\]>::get$")
def m_slice_get(sim, st, c):
    r = sim.resolve(st, c["args"][0])
    base, a, b = slice_bounds(sim, st, r)
    i = sim.resolve(st, c["args"][1])
    if isinstance(i, Struct):
        # slice.get(range): None when the range is out of bounds, otherwise the sub-slice
        try:
            lo, hi = range_bounds(sim, st, i, b - a)
        except Exception:
            raise S.Unsupported("symbolic get range")
        if not (0 <= lo <= hi <= b - a):
            return sim.mk_enum(c["ret_ty"], "None")
        return sim.mk_enum(c["ret_ty"], "Some", [Ref(base.ext(("sl", a + lo, a + hi)))])
    if not isinstance(i, Const):
        raise S.Unsupported("symbolic get index")
    if 0 <= i.val < b - a:
        return sim.mk_enum(c["ret_ty"], "Some", [Ref(base.ext(("i", a + i.val)))])
    return sim.mk_enum(c["ret_ty"], "None")


ITER_METHODS = {}


def _register_iter_methods():
    g = globals()
    for name, fn in (("fold", "m_iter_fold"), ("for_each", "m_iter_for_each"), ("try_for_each", "m_iter_try_for_each"), ("try_fold", "m_iter_try_fold"),
                     ("any", "m_iter_any_all"), ("all", "m_iter_any_all"), ("find", "m_iter_find"), ("count", "m_iter_count"), ("last", "m_iter_last"),
                     ("collect", "m_iter_collect"), ("map", "m_iter_map"), ("filter", "m_iter_filter"), ("filter_map", "m_iter_filter_map"),
                     ("zip", "m_iter_zip"), ("chain", "m_iter_chain"), ("take", "m_iter_take"), ("skip", "m_iter_skip"), ("enumerate", "m_iter_enumerate"),
                     ("rev", "m_iter_rev"), ("copied", "m_iter_copied"), ("cloned", "m_iter_copied"), ("next", "m_slice_iter_next"),
                     ("flatten", "m_iter_flatten"), ("flat_map", "m_iter_flat_map"), ("take_while", "m_iter_take_while"), ("skip_while", "m_iter_skip_while"),
                     ("nth", "m_iter_nth"), ("position", "m_iter_position"), ("scan", "m_iter_scan")):
        ITER_METHODS[name] = g[fn]


_register_iter_methods()


@pattern(r" as std::iter::Iterator>::(\w+)$")
def m_iter_specialised(sim, st, c):
    """Iterator methods overridden by a concrete adaptor (e.g. <FilterMap<I,F> as Iterator>::fold): same semantics as the provided method."""
    name = c["fn"]["name"]
    m = ITER_METHODS.get(name)
    if m is None:
        raise S.Unsupported("no model for iterator method " + c["fn"]["pretty"])
    return m(sim, st, c)



@model("std::option::Option::<std::option::Option<T>>::flatten")
def m_opt_flatten(sim, st, c):
    v = sim.force_variant(st, c["args"][0])
    if v.vname == "None":
        return sim.mk_enum(c["ret_ty"], "None")
    return sim.force_variant(st, v.fields[0])


@model("std::option::Option::<T>::filter")
def m_opt_filter(sim, st, c):
    v = sim.force_variant(st, c["args"][0])
    if v.vname == "None":
        return v
    oid = st.new_obj("filter_item", v.fields[0])
    return v if sim.decide_bool(st, sim.call_sync(st, c["args"][1], [Ref(Ptr(oid))])) else sim.mk_enum(c["ret_ty"], "None")


@model("std::option::Option::<T>::or_else")
def m_opt_or_else(sim, st, c):
    v = sim.force_variant(st, c["args"][0])
    return sim.call_sync(st, c["args"][1], []) if v.vname == "None" else v


@model("std::option::Option::<T>::ok_or_else")
def m_opt_ok_or_else(sim, st, c):
    v = sim.force_variant(st, c["args"][0])
    if v.vname == "None":
        return sim.mk_enum(c["ret_ty"], "Err", [sim.call_sync(st, c["args"][1], [])])
    return sim.mk_enum(c["ret_ty"], "Ok", [v.fields[0]])


@model("std::option::Option::<T>::zip")
def m_opt_zip(sim, st, c):
    a, b = sim.force_variant(st, c["args"][0]), sim.force_variant(st, c["args"][1])
    if a.vname == "Some" and b.vname == "Some":
        return sim.mk_enum(c["ret_ty"], "Some", [Struct(c["ret_ty"]["args"][0], (a.fields[0], b.fields[0]))])
    return sim.mk_enum(c["ret_ty"], "None")


@model("std::option::Option::<T>::insert", "std::option::Option::<T>::get_or_insert")
def m_opt_insert(sim, st, c):
    p = sim.deref_value(st, c["args"][0])
    cur = sim.force_variant(st, sim.read(st, p))
    if c["fn"]["name"] == "insert" or cur.vname == "None":
        sim.write(st, p, sim.mk_enum(cur.ty, "Some", [c["args"][1]]))
        cur = sim.read(st, p)
    return Ref(p.ext(("d", cur.variant), ("f", 0)), True)


@model("std::result::Result::<T, E>::err")
def m_res_err(sim, st, c):
    v = sim.force_variant(st, c["args"][0])
    return sim.mk_enum(c["ret_ty"], "Some", [v.fields[0]]) if v.vname == "Err" else sim.mk_enum(c["ret_ty"], "None")


@model("std::result::Result::<T, E>::unwrap_or_else")
def m_res_unwrap_or_else(sim, st, c):
    v = sim.force_variant(st, c["args"][0])
    return v.fields[0] if v.vname == "Ok" else sim.call_sync(st, c["args"][1], [v.fields[0]])


@model("std::result::Result::<T, E>::map_or")
def m_res_map_or(sim, st, c):
    v = sim.force_variant(st, c["args"][0])
    return c["args"][1] if v.vname == "Err" else sim.call_sync(st, c["args"][2], [v.fields[0]])


@model("std::result::Result::<T, E>::as_ref", "std::result::Result::<T, E>::as_mut")
def m_res_as_ref(sim, st, c):
    p = sim.deref_value(st, c["args"][0])
    v = sim.force_variant(st, sim.read(st, p))
    return sim.mk_enum(c["ret_ty"], v.vname, [Ref(p.ext(("d", v.variant), ("f", 0)), c["fn"]["name"] == "as_mut")])


@model("std::option::Option::<T>::unwrap_or_default")
def m_opt_unwrap_or_default(sim, st, c):
    v = sim.force_variant(st, c["args"][0])
    if v.vname == "Some":
        return v.fields[0]
    rt = c["ret_ty"]
    if S.is_float_ty(rt):
        return Const(0.0, rt)
    if S.is_int_ty(rt):
        return Const(0, rt)
    r = call_trait_impl(sim, st, c, "std::default::Default", "default", [rt], [])
    if r is None:
        return Term("Default", (), rt)
    return r



@pattern(r"^std::num::<impl (i|u)(8|16|32|64|128|size)>::(div_euclid|rem_euclid|abs|signum|pow|wrapping_\w+|saturating_\w+|checked_\w+|overflowing_\w+|unsigned_abs|abs_diff|clamp|min|max)$")
def m_int_method(sim, st, c):
    """Integer inherent methods are kept as distinct uninterpreted operators (never identified with / or %)."""
    args = [sim.resolve(st, a) for a in c["args"]]
    name = c["fn"]["name"]
    if all(isinstance(a, Const) for a in args) and name in ("div_euclid", "rem_euclid", "abs") and (len(args) < 2 or args[1].val != 0):
        if name == "div_euclid":
            q = args[0].val // args[1].val if args[1].val > 0 else -(args[0].val // -args[1].val)
            return Const(q, c["ret_ty"])
        if name == "rem_euclid":
            return Const(args[0].val % abs(args[1].val), c["ret_ty"])
        return Const(abs(args[0].val), c["ret_ty"])
    rt = c["ret_ty"]
    if rt.get("k") != "prim":
        return Sym("%s(%s)" % (name, ", ".join(map(repr, args))), rt)
    return Term("I" + name, tuple(args), rt)


@pattern(r"^std::f(32|64)::<impl f(32|64)>::(\w+)$")
def m_float_method(sim, st, c):
    """Other f32 inherent methods: uninterpreted, named after the method (abs/powf/total_cmp have their own models)."""
    name = c["fn"]["name"]
    args = [sim.resolve(st, a) for a in c["args"]]
    rt = c["ret_ty"]
    if rt.get("k") == "prim" and rt["name"] == "bool":
        return Term("f32::" + name, tuple(args), rt)
    if rt.get("k") != "prim":
        return Sym("f32::%s(%s)" % (name, ", ".join(map(repr, args))), rt)
    return Term("f32::" + name, tuple(args), rt)
