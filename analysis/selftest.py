"""Positive self-tests: rules whose expected count on rrtk is zero must fire on witness/fixtures on every run."""
import os, shutil, tempfile
import program, report

_prog = None


def fixtures_program():
    global _prog
    if _prog is None:
        src = os.path.join(program.VERIF, "witness", "fixtures")
        work = tempfile.mkdtemp(prefix="fixtures-", dir=program.tmp_root())
        dst = os.path.join(work, "fixtures")
        shutil.copytree(src, dst)
        res, p = program.run_driver(dst, [], crates=["rrtk_verif_fixtures"])
        if "rrtk_verif_fixtures" not in res:
            raise program.BuildError("fixtures crate did not build:\n" + p.stderr[-2000:])
        _prog = program.Program(res["rrtk_verif_fixtures"], "fixtures")
        shutil.rmtree(work, ignore_errors=True)
    return _prog


def expect(chk, pid, rule_fn, rule_id, what, key_has=""):
    """Run rule_fn(scratch_check, fixtures_program) and require a violation of rule_id."""
    key = "selftest:" + rule_id
    chk.obligation(key, "rule %s fires on the deliberately wrong fixture (%s)" % (rule_id, what))
    sub = report.Check(pid, chk.tier)
    try:
        rule_fn(sub, fixtures_program())
    except program.AnchorMissing:
        pass
    fired = [v for v in sub.violations if v["rule"] == rule_id and key_has in v["key"]]
    chk.evaluated(1, nontrivial=(key,))
    if fired:
        chk.discharge(key)
    else:
        chk.violation("selftest-failed", key, "rule %s did not fire on the fixture that violates it (%s): the rule has gone vacuous; other violations seen: %s"
                      % (rule_id, what, sorted({v["rule"] for v in sub.violations})))
