"""Evidence, violations, known findings."""
import json, os, time, hashlib, sys

VERIF = os.path.dirname(os.path.dirname(os.path.abspath(__file__)))
LEVELS = {}


def manifest_level(pid):
    try:
        m = json.load(open(os.path.join(VERIF, "MANIFEST.json")))
        for c in m["checks"]:
            if c["property_id"] == pid:
                return c["level_claimed"]["category"]
    except Exception:
        pass
    return LEVELS.get(pid, "other")


def load_known():
    p = os.path.join(VERIF, "known_findings.json")
    if not os.path.exists(p):
        return []
    return json.load(open(p))["findings"]


class Check:
    def __init__(self, pid, tier):
        self.pid, self.tier = pid, tier
        self.t0 = time.time()
        self.seed = int(os.environ.get("VERIF_SEED", "0") or 0)
        self.obligations = {}      # key -> desc
        self.discharged = set()
        self.violations = []       # dicts
        self.samples = []
        self.evaluations = 0
        self.nontrivial = set()
        self.configs = []
        self.functions = set()
        self.rules = {}
        self.assumptions = set()
        self.notes = []
        self.extra = {}
        self.trusted = ["nightly rustc front end + MIR construction (opt-level 0)", "mirfacts driver serialisation",
                        "propsim transfer functions and std model table", "rule/spec tables in analysis/rules"]

    # ---- bookkeeping
    def rule(self, rid, text):
        self.rules[rid] = text

    def obligation(self, key, desc=""):
        self.obligations[key] = desc

    def discharge(self, key):
        self.discharged.add(key)

    def evaluated(self, n=1, nontrivial=None):
        self.evaluations += n
        if nontrivial is not None:
            self.nontrivial.add(nontrivial)

    def sample(self, obj, cap=12):
        if len(self.samples) < cap:
            self.samples.append(obj)

    def analysed(self, fn_pretty):
        self.functions.add(fn_pretty)

    def assume(self, *a):
        self.assumptions.update(a)

    def violation(self, rule, key, what, **detail):
        """key: stable identity of the failing construct/case (no line numbers)."""
        self.violations.append({"property": self.pid, "rule": rule, "key": key, "what": what, "detail": detail})

    # ---- finish
    def finish(self, explanation=""):
        known = [k for k in load_known() if k["property"] == self.pid]
        known_keys = {(k["rule"], k["key"]): k for k in known if k.get("status") == "known"}
        real, kf = [], []
        seen = set()
        for v in self.violations:
            ident = (v["rule"], v["key"])
            if ident in seen:
                continue
            seen.add(ident)
            if ident in known_keys:
                kf.append(v)
            else:
                real.append(v)
        # scratch runs (regression over seeded / refactored trees, RRTK_REPO) keep their output out of the committed directories
        out_root = os.environ.get("VERIF_OUT_DIR") or VERIF
        os.makedirs(os.path.join(out_root, "replay"), exist_ok=True)
        os.makedirs(os.path.join(out_root, "evidence"), exist_ok=True)
        for v in kf:
            print("KNOWN-FINDING: property=%s %s [%s %s]" % (self.pid, known_keys[(v["rule"], v["key"])]["what"], v["rule"], v["key"]))
        for v in real:
            h = hashlib.sha1((v["rule"] + "|" + v["key"]).encode()).hexdigest()[:10]
            path = os.path.join(out_root, "replay", "%s-%s.json" % (self.pid, h))
            json.dump(v, open(path, "w"), indent=1, default=str)
            print("VIOLATION property=%s replay=%s" % (self.pid, path))
            print("  rule=%s key=%s: %s" % (v["rule"], v["key"], v["what"]))
        level = manifest_level(self.pid)
        nob = len(self.obligations)
        ndis = len([k for k in self.obligations if k in self.discharged])
        cov = {
            "evaluations": max(self.evaluations, 0),
            "distinct_nontrivial": len(self.nontrivial),
            "rule": "abstract cases are enumerated exhaustively over finite domains (outcome categories, order relations, arities) per obligation; a case is non-trivial when its path condition mentions at least one tracked atom, and cases are de-duplicated by (obligation, path condition)",
            "samples": self.samples or [{"note": "no samples recorded"}],
            "obligations": nob,
            "discharged": ndis,
            "checker_cmd": "./check %s %s" % (self.pid, self.tier),
            "trusted_base": self.trusted,
            "explanation": explanation,
            "exhaustive": True,
            "configs": self.configs,
            "functions_analysed": sorted(self.functions),
            "rules": self.rules,
            "known_findings_reported": len(kf),
            "undischarged": sorted(k for k in self.obligations if k not in self.discharged)[:50],
        }
        cov.update(self.extra)
        ev = {"property_id": self.pid, "tier": self.tier, "seed": self.seed, "level": level, "coverage": cov,
              "assumptions": sorted(self.assumptions), "wall_s": round(time.time() - self.t0, 2), "violations": len(real)}
        json.dump(ev, open(os.path.join(out_root, "evidence", self.pid + ".json"), "w"), indent=1, default=str)
        print("%s %s: %d obligations, %d discharged, %d evaluations, %d violations, %d known findings, %.1fs" % (
            self.pid, self.tier, nob, ndis, self.evaluations, len(real), len(kf), time.time() - self.t0))
        return 1 if real else 0
