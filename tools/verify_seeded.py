#!/usr/bin/env python3
"""Verify a sub-agent mutation in its scratch worktree: demo passes without patch, existing suites pass with
patch, demo fails with patch.  usage: verify_seeded.py Cxx m1 [demo cargo args...]"""
import sys, os, subprocess, json, shutil, glob

pid, m = sys.argv[1], sys.argv[2]
demo_args = sys.argv[3:] or ["--features", "devices"]
wt = "/tmp/wt/" + pid
out = "%s/%s/%s" % (os.environ.get("WTOUT", "/tmp/wtout"), pid, m)
env = dict(os.environ, CARGO_NET_OFFLINE="true")


def sh(cmd, **kw):
    return subprocess.run(cmd, cwd=wt, env=env, capture_output=True, text=True, **kw)


def suite(args):
    p = sh(["cargo", "test", "--offline"] + args)
    txt = p.stdout + p.stderr
    ok = p.returncode == 0 and "FAILED" not in txt and "test result: ok" in txt
    return ok, txt[-1500:]


res = {"property": pid, "mutation": m}
sh(["git", "checkout", "--", "."])
for f in glob.glob(wt + "/tests/demo_*.rs"):
    os.remove(f)
demo_name = "demo_" + m
shutil.copy(out + "/demo.rs", "%s/tests/%s.rs" % (wt, demo_name))
p = sh(["cargo", "test", "--offline"] + demo_args + ["--test", demo_name])
res["demo_passes_without_patch"] = p.returncode == 0
if p.returncode != 0:
    res["demo_without_tail"] = (p.stdout + p.stderr)[-800:]
ap = sh(["git", "apply", out + "/patch.diff"])
res["patch_applies"] = ap.returncode == 0
if ap.returncode == 0:
    res["files_touched"] = sh(["git", "diff", "--stat", "--", "src"]).stdout.strip().splitlines()[-1:]
    p = sh(["cargo", "test", "--offline"] + demo_args + ["--test", demo_name])
    res["demo_fails_with_patch"] = p.returncode != 0
    res["demo_with_tail"] = (p.stdout + p.stderr)[-600:]
    os.remove("%s/tests/%s.rs" % (wt, demo_name))
    ok1, t1 = suite([])
    ok2, t2 = suite(["--features", "devices"])
    res["suite_default_ok"], res["suite_devices_ok"] = ok1, ok2
    if not ok1:
        res["suite_default_tail"] = t1
    if not ok2:
        res["suite_devices_tail"] = t2
sh(["git", "checkout", "--", "."])
res["ok"] = all(res.get(k) for k in ("demo_passes_without_patch", "patch_applies", "demo_fails_with_patch", "suite_default_ok", "suite_devices_ok"))
json.dump(res, open(out + "/verify.json", "w"), indent=1)
print(pid, m, "OK" if res["ok"] else "FAILED", {k: v for k, v in res.items() if isinstance(v, bool)})
