#!/usr/bin/env python3
"""Apply each seeded patch to /repo, run checks, undo.  usage: run_seeded.py [--all-checks] [--tier quick] [ids...]
Default: runs the check of the property the mutation targets (if registered in MANIFEST)."""
import sys, os, subprocess, json, glob
V = "/verif"
args = [a for a in sys.argv[1:] if not a.startswith("--")]
allchecks = "--all-checks" in sys.argv
tier = "thorough" if "--thorough" in sys.argv else "quick"
man = json.load(open(V + "/MANIFEST.json"))
claimed = [c["property_id"] for c in man["checks"]]
extra = [a[len("--also="):].split(",") for a in sys.argv if a.startswith("--also=")]
ids = args or sorted(os.listdir(V + "/seeded"))
ids = [i for i in ids if os.path.isfile(V + "/seeded/" + i + "/meta.json")]
results = {}
import shutil, tempfile
_bk = tempfile.mkdtemp(prefix="evbk-")
shutil.copytree(V + "/evidence", _bk + "/evidence")
assert subprocess.run(["git", "-C", "/repo", "status", "--porcelain", "--untracked-files=no"], capture_output=True, text=True).stdout.strip() == "", "/repo not clean"
for sid in ids:
    meta = json.load(open("%s/seeded/%s/meta.json" % (V, sid)))
    pid = meta["property"]
    todo = claimed if allchecks else [p for p in ([pid] + (extra[0] if extra else [])) if p in claimed]
    r = {}
    ap = subprocess.run(["git", "-C", "/repo", "apply", "%s/seeded/%s/patch.diff" % (V, sid)], capture_output=True, text=True)
    if ap.returncode != 0:
        results[sid] = {"error": "patch does not apply: " + ap.stderr[-200:]}
        print(sid, "PATCH-FAILED")
        continue
    try:
        from concurrent.futures import ThreadPoolExecutor

        def one(p):
            q = subprocess.run([V + "/check", p, tier], capture_output=True, text=True, cwd=V)
            viol = [l for l in q.stdout.splitlines() if l.startswith("VIOLATION")]
            detail = [l.strip() for l in q.stdout.splitlines() if l.startswith("  rule=")]
            return p, {"exit": q.returncode, "violations": len(viol), "first": detail[:2]}
        with ThreadPoolExecutor(max_workers=10) as ex:
            for p, x in ex.map(one, todo):
                r[p] = x
    finally:
        subprocess.run(["git", "-C", "/repo", "checkout", "--", "."], check=True)
    caught = [p for p, x in r.items() if x["exit"] != 0]
    results[sid] = {"property": pid, "checks": r, "caught_by": caught}
    print(sid, "CAUGHT by " + ",".join(caught) if caught else "MISSED", "|", "; ".join(x["first"][0][:150] for p, x in r.items() if x["first"]))
shutil.rmtree(V + "/evidence")
shutil.copytree(_bk + "/evidence", V + "/evidence")
shutil.rmtree(_bk)
if os.environ.get("SEEDED_WRITE", "1") == "1":
    path = V + "/seeded/RESULTS.json"
    old = json.load(open(path)) if os.path.exists(path) else {}
    old.update(results)
    json.dump(old, open(path, "w"), indent=1)
