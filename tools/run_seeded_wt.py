#!/usr/bin/env python3
"""Apply each seeded breaking change to a scratch git worktree of /repo (RRTK_REPO) and run the check of the property it targets
(quick tier; --all-checks: every check), several seeds in parallel; /repo and the committed evidence are not touched.
usage: run_seeded_wt.py [-jN] [--all-checks] [ids...]   Updates seeded/RESULTS.json."""
import subprocess, os, sys, json, tempfile, shutil, queue
from concurrent.futures import ThreadPoolExecutor
V = "/verif"
args = [a for a in sys.argv[1:] if not a.startswith("-")]
J = int(([a[2:] for a in sys.argv[1:] if a.startswith("-j")] or ["6"])[0])
allchecks = "--all-checks" in sys.argv
ids = args or sorted(d for d in os.listdir(V + "/seeded") if os.path.isfile("%s/seeded/%s/meta.json" % (V, d)))
claimed = [c["property_id"] for c in json.load(open(V + "/MANIFEST.json"))["checks"]]
root = tempfile.mkdtemp(prefix="sdwt-")
pool = queue.Queue()
for i in range(J):
    wt = "%s/wt%d" % (root, i)
    subprocess.run(["git", "-C", "/repo", "worktree", "add", "--detach", wt, "HEAD"], capture_output=True, check=True)
    pool.put(wt)


def one(sid):
    meta = json.load(open("%s/seeded/%s/meta.json" % (V, sid)))
    pid = meta["property"]
    todo = claimed if allchecks else [p for p in [pid] if p in claimed]
    wt = pool.get()
    try:
        subprocess.run(["git", "-C", wt, "checkout", "--", "."], check=True)
        a = subprocess.run(["git", "-C", wt, "apply", "%s/seeded/%s/patch.diff" % (V, sid)], capture_output=True, text=True)
        if a.returncode:
            return sid, {"error": "patch does not apply: " + a.stderr[-200:]}

        def run(p):
            q = subprocess.run([V + "/check", p, "quick"], capture_output=True, text=True, cwd=V, env=dict(os.environ, RRTK_REPO=wt, VERIF_OUT_DIR=root + "/out-" + os.path.basename(wt)))
            viol = [l for l in q.stdout.splitlines() if l.startswith("VIOLATION")]
            det = [l.strip() for l in q.stdout.splitlines() if l.startswith("  rule=")]
            return p, {"exit": q.returncode, "violations": len(viol), "first": det[:2]}
        r = {}
        with ThreadPoolExecutor(max_workers=4 if allchecks else 1) as ex:
            for p, x in ex.map(run, todo):
                r[p] = x
        return sid, {"property": pid, "checks": r, "caught_by": [p for p, x in r.items() if x["exit"] != 0]}
    finally:
        subprocess.run(["git", "-C", wt, "checkout", "--", "."])
        pool.put(wt)


results = {}
try:
    with ThreadPoolExecutor(max_workers=J) as ex:
        for sid, res in ex.map(one, ids):
            results[sid] = res
            c = res.get("caught_by")
            print(sid, ("CAUGHT by " + ",".join(c)) if c else ("MISSED" if "error" not in res else "PATCH-FAILED"), "|",
                  "; ".join(x["first"][0][:150] for p, x in res.get("checks", {}).items() if x["first"]), flush=True)
finally:
    for i in range(J):
        subprocess.run(["git", "-C", "/repo", "worktree", "remove", "--force", "%s/wt%d" % (root, i)], capture_output=True)
    shutil.rmtree(root, ignore_errors=True)
path = V + "/seeded/RESULTS.json"
old = json.load(open(path)) if os.path.exists(path) else {}
if allchecks:
    old.update(results)
else:
    for sid, res in results.items():
        if sid in old and "checks" in old[sid] and "checks" in res:
            old[sid]["checks"].update(res["checks"])
            old[sid]["caught_by"] = sorted(p for p, x in old[sid]["checks"].items() if x["exit"] != 0)
        else:
            old[sid] = res
json.dump(old, open(path, "w"), indent=1)
