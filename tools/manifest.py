#!/usr/bin/env python3
"""Regenerate MANIFEST.json from tools/manifest_src.json (claimed checks) + properties (not_applicable for the rest)."""
import json, os
V = "/verif"
src = json.load(open(V + "/tools/manifest_src.json"))
props = [json.loads(l) for l in open(V + "/properties.jsonl")]
checks = []
for pid, c in sorted(src["checks"].items()):
    checks.append({
        "property_id": pid,
        "quick_cmd": "./check %s quick" % pid,
        "thorough_cmd": "./check %s thorough" % pid,
        "evidence_file": "/verif/evidence/%s.json" % pid,
        "replay_cmd_template": "./check explain {path}",
        "engine": c.get("engine", "propsim"),
        "level_claimed": {"category": c["level"], "text": c["text"], "design_ref": "DESIGN.md section 5, " + pid},
        "level_note": c["note"],
        "technique": c["technique"],
    })
na = [{"property_id": p["id"], "reason": src["not_applicable"].get(p["id"], "check not built yet; planned in DESIGN.md section 5")}
      for p in props if p["id"] not in src["checks"]]
m = {"version": 1,
     "setup_cmd": "cd /verif/driver && cargo build --release --offline",
     "hooks": {"guard": "rrtk_verif", "enable": "none needed: static analysis reads the unmodified source (guard name reserved, unused)",
               "baseline_off_cmd": "cd /repo && cargo test --workspace --no-fail-fast --offline", "source_commits": [], "add_only": True},
     "engines": src["engines"], "checks": checks, "notes": src["notes"], "not_applicable": na}
json.dump(m, open(V + "/MANIFEST.json", "w"), indent=1)
print(len(checks), "checks,", len(na), "not applicable")
