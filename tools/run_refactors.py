#!/usr/bin/env python3
"""Apply behaviour-preserving refactor patches (selftest/silent/*) to /repo, run all claimed quick checks, undo.
Every alarm is a false alarm to be triaged.  usage: run_refactors.py [ids...]"""
import sys, os, subprocess, json, shutil, tempfile
from concurrent.futures import ThreadPoolExecutor
V = "/verif"
D = V + "/selftest/silent"
ids = sys.argv[1:] or sorted(os.listdir(D))
man = json.load(open(V + "/MANIFEST.json"))
claimed = [c["property_id"] for c in man["checks"]]
assert subprocess.run(["git", "-C", "/repo", "status", "--porcelain", "--untracked-files=no"], capture_output=True, text=True).stdout.strip() == "", "/repo not clean"
bk = tempfile.mkdtemp(prefix="evbk-")
shutil.copytree(V + "/evidence", bk + "/evidence")
results = {}
for rid in ids:
    pd = "%s/%s/patch.diff" % (D, rid)
    if not os.path.exists(pd):
        continue
    ap = subprocess.run(["git", "-C", "/repo", "apply", pd], capture_output=True, text=True)
    if ap.returncode != 0:
        print(rid, "PATCH-FAILED", ap.stderr[-200:])
        continue
    try:
        def one(p):
            q = subprocess.run([V + "/check", p, "quick"], capture_output=True, text=True, cwd=V)
            return p, q.returncode, [l.strip() for l in q.stdout.splitlines() if l.startswith("  rule=")]
        with ThreadPoolExecutor(max_workers=10) as ex:
            out = list(ex.map(one, claimed))
    finally:
        subprocess.run(["git", "-C", "/repo", "checkout", "--", "."], check=True)
    alarms = {p: d[:3] for p, rc, d in out if rc != 0}
    results[rid] = alarms
    print(rid, "SILENT" if not alarms else "ALARM " + "; ".join("%s: %s" % (p, d[0][:160] if d else "?") for p, d in alarms.items()))
shutil.rmtree(V + "/evidence")
shutil.copytree(bk + "/evidence", V + "/evidence")
shutil.rmtree(bk)
path = V + "/selftest/silent/RESULTS.json"
old = json.load(open(path)) if os.path.exists(path) else {}
old.update(results)
json.dump(old, open(path, "w"), indent=1)
