#!/usr/bin/env python3
"""Run every check (quick tier) against each behaviour-preserving refactoring in selftest/silent/, each applied to a scratch git
worktree of /repo (RRTK_REPO), several in parallel; /repo itself is not touched.  usage: run_refactors_wt.py [-jN] [ids...]
Expects silence everywhere; writes selftest/silent/RESULTS.json."""
import subprocess, os, sys, json, tempfile, shutil
from concurrent.futures import ThreadPoolExecutor
import queue
V = "/verif"
args = [a for a in sys.argv[1:] if not a.startswith("-")]
partial = any(a.startswith("--checks=") for a in sys.argv[1:])
J = int(([a[2:] for a in sys.argv[1:] if a.startswith("-j")] or ["3"])[0])
ids = args or sorted(d for d in os.listdir(V + "/selftest/silent") if os.path.isfile("%s/selftest/silent/%s/patch.diff" % (V, d)))
PIDS = [c["property_id"] for c in json.load(open(V + "/MANIFEST.json"))["checks"]]
only = [a[len("--checks="):].split(",") for a in sys.argv[1:] if a.startswith("--checks=")]
if only:
    PIDS = [p for p in PIDS if p in only[0]]
root = tempfile.mkdtemp(prefix="rfwt-")
pool = queue.Queue()
for i in range(J):
    wt = "%s/wt%d" % (root, i)
    subprocess.run(["git", "-C", "/repo", "worktree", "add", "--detach", wt, "HEAD"], capture_output=True, check=True)
    pool.put(wt)


def one(rid):
    wt = pool.get()
    try:
        subprocess.run(["git", "-C", wt, "checkout", "--", "."], check=True)
        a = subprocess.run(["git", "-C", wt, "apply", "%s/selftest/silent/%s/patch.diff" % (V, rid)], capture_output=True, text=True)
        if a.returncode:
            return rid, "PATCH-FAILED", a.stderr[-200:]

        def run(p):
            q = subprocess.run([V + "/check", p, "quick"], capture_output=True, text=True, cwd=V, env=dict(os.environ, RRTK_REPO=wt, VERIF_OUT_DIR=root + "/out-" + os.path.basename(wt)))
            det = [l.strip() for l in q.stdout.splitlines() if l.startswith("  rule=")]
            return p, q.returncode, det[:2]
        alarms = []
        with ThreadPoolExecutor(max_workers=5) as ex:
            for p, rc, det in ex.map(run, PIDS):
                if rc:
                    alarms.append((p, [d[:300] for d in det]))
        return rid, ("SILENT" if not alarms else "ALARM"), alarms
    finally:
        subprocess.run(["git", "-C", wt, "checkout", "--", "."])
        pool.put(wt)


results = {}
try:
    with ThreadPoolExecutor(max_workers=J) as ex:
        for rid, verdict, detail in ex.map(one, ids):
            results[rid] = {"verdict": verdict, "alarms": detail}
            print(rid, verdict, detail if verdict != "SILENT" else "", flush=True)
finally:
    for i in range(J):
        subprocess.run(["git", "-C", "/repo", "worktree", "remove", "--force", "%s/wt%d" % (root, i)], capture_output=True)
    shutil.rmtree(root, ignore_errors=True)
path = V + "/selftest/silent/RESULTS.json"
old = json.load(open(path)) if os.path.exists(path) else {}
if not partial:
    old.update(results)
    json.dump(old, open(path, "w"), indent=1)
