#!/usr/bin/env python3
"""Run every claimed check (quick, or the tier given) on the clean /repo tree in parallel and validate MANIFEST + evidence against the schemas."""
import json, subprocess, sys, os
from concurrent.futures import ThreadPoolExecutor
V = "/verif"
tier = sys.argv[1] if len(sys.argv) > 1 else "quick"
assert subprocess.run(["git", "-C", "/repo", "status", "--porcelain", "--untracked-files=no"], capture_output=True, text=True).stdout.strip() == "", "/repo not clean"
man = json.load(open(V + "/MANIFEST.json"))
ids = [c["property_id"] for c in man["checks"]]


def one(p):
    q = subprocess.run([V + "/check", p, tier], capture_output=True, text=True, cwd=V)
    return p, q.returncode, q.stdout.strip().splitlines()[-1] if q.stdout.strip() else q.stderr[-200:]


bad = 0
with ThreadPoolExecutor(max_workers=8) as ex:
    for p, rc, last in ex.map(one, ids):
        print(("OK  " if rc == 0 else "FAIL"), last[:140])
        bad += rc != 0
try:
    import jsonschema
    jsonschema.validate(man, json.load(open("/root/.vp/MANIFEST.schema.json")))
    es = json.load(open("/root/.vp/EVIDENCE.schema.json"))
    for p in ids:
        e = json.load(open("%s/evidence/%s.json" % (V, p)))
        jsonschema.validate(e, es)
        lvl = [c for c in man["checks"] if c["property_id"] == p][0]["level_claimed"]["category"]
        assert e["level"] == lvl, (p, e["level"], lvl)
        if lvl == "proof":
            assert e["coverage"]["obligations"] == e["coverage"]["discharged"] >= 1, (p, e["coverage"]["obligations"], e["coverage"]["discharged"])
        assert e.get("violations", 0) == 0, p
    print("manifest + %d evidence files valid" % len(ids))
except ImportError:
    print("jsonschema not available: run with python3-vt")
sys.exit(1 if bad else 0)
