#!/usr/bin/env python3
"""Verify sub-agent mutations of one round (WTOUT dir) in their scratch worktrees and, when confirmed, store them as
seeded/<Cxx>-m<k>/ (patch.diff, demo.rs, meta.json).  usage: ingest_round.py <wtout> <round> <first_index> [ids...]"""
import sys, os, json, re, subprocess, shutil, shlex
from concurrent.futures import ThreadPoolExecutor
V = "/verif"
wtout, rnd, first = sys.argv[1], int(sys.argv[2]), int(sys.argv[3])
ids = sys.argv[4:] or sorted(d for d in os.listdir(wtout) if re.fullmatch(r"C\d\d", d))


def demo_args(d, m):
    """cargo args of the demonstration, from the agent's meta/demo header: the command that runs --test demo_<m>."""
    cands = []
    try:
        meta = json.load(open("%s/meta.json" % d))
        for c in meta.get("commands_run", []):
            cands.append(c)
    except Exception:
        pass
    cands += re.findall(r"cargo test[^\n]*", open(d + "/demo.rs").read())
    best = None
    for c in cands:
        mm = re.search(r"cargo test\s+(.*?)--test\s+demo_%s\b" % m, c)
        if mm:
            a = [x for x in shlex.split(mm.group(1)) if x != "--offline"]
            if best is None or len(a) > len(best):
                best = a
    return best if best is not None else ["--features", "devices"]


def one(pid):
    out = []
    for i, m in enumerate(("m1", "m2")):
        d = "%s/%s/%s" % (wtout, pid, m)
        if not os.path.exists(d + "/patch.diff"):
            out.append((pid, m, "missing"))
            continue
        args = demo_args(d, m)
        if "--features" not in " ".join(args) and open(d + "/demo.rs").read().lstrip().startswith("#![cfg(feature = \"devices\")]"):
            args += ["--features", "devices"]
        p = subprocess.run([sys.executable, V + "/tools/verify_seeded.py", pid, m] + args, env=dict(os.environ, WTOUT=wtout), capture_output=True, text=True)
        vj = d + "/verify.json"
        ok = os.path.exists(vj) and json.load(open(vj)).get("ok")
        out.append((pid, m, "OK" if ok else "FAILED " + p.stdout[-300:] + p.stderr[-300:], args))
        if ok:
            sid = "%s-m%d" % (pid, first + i)
            dst = "%s/seeded/%s" % (V, sid)
            os.makedirs(dst, exist_ok=True)
            shutil.copy(d + "/patch.diff", dst + "/patch.diff")
            shutil.copy(d + "/demo.rs", dst + "/demo.rs")
            am = json.load(open(d + "/meta.json"))
            v = json.load(open(vj))
            meta = {"id": sid, "property": pid, "round": rnd, "summary": am.get("summary", ""), "needs_to_manifest": am.get("needs_to_manifest", ""),
                    "source": "independent sub-agent (round %d: told which earlier mutations existed, asked for different and subtler ones) given only the property record and a scratch worktree" % rnd,
                    "demo_cargo_args": args,
                    "confirmed_by_main_session": {k: v.get(k) for k in ("demo_passes_without_patch", "demo_fails_with_patch", "suite_default_ok", "suite_devices_ok", "files_touched")},
                    "agent_commands": am.get("commands_run", [])}
            meta["confirmed_by_main_session"]["demo_failure_tail"] = (v.get("demo_with_tail") or "")[-400:]
            json.dump(meta, open(dst + "/meta.json", "w"), indent=1)
    return out


with ThreadPoolExecutor(max_workers=5) as ex:
    for res in ex.map(one, ids):
        for r in res:
            print(*r)
